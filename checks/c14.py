"""C14 — Kademlia routing table places and returns peers by XOR distance
(model: Model/Kad/{Key,Bucket,Table}.lean, adapter: src/verif/c14.rs)."""
from .common import bump

ID = "C14"
AREA = "c14"
LEAN_PROPS = "Litep2pVerif.Props.C14"
THEOREMS = ["bucket_placement", "local_never_stored", "bucket_bound", "capacity_is_twenty", "index_in_range",
            "connected_not_evicted", "junk_invisible", "iter_order", "iter_visits", "bucket_order",
            "closest_correct", "closest_dup_witness", "coordinator_table_is_table_run",
            "connected_peer_stays_connected_in_table", "connected_peer_kept_by_event", "add_known_peer_downgrades_witness"]
CONSTS = ["KBUCKET_CAPACITY", "NUM_BUCKETS"]
MANIFEST = {
    "text": "Lean 4 theorems about an executable model of RoutingTable/KBucket/ClosestBucketsIter: by induction over all "
            "operation histories (add_known_peer / on_connection_established / on_dial_failure / disconnect / entry, incl. "
            "the placeholders `entry` leaves behind) every stored peer sits in bucket log2(key xor local), the local key is "
            "never stored, a bucket holds at most K = 20 nodes, a Connected/CanConnect slot is never overwritten; the bucket "
            "iterator's output is characterised for every distance (iter_order, iter_visits), buckets visited earlier hold "
            "strictly closer peers (bucket_order, bitwise argument over all 256-bit patterns), hence closest(t,k) is exactly "
            "the k closest stored peers with addresses, strictly sorted (closest_correct, for the repaired code; "
            "closest_dup_witness shows the duplicate of the unrepaired code). Plus a seeded correspondence run of the real "
            "RoutingTable (keys dictated through a cfg-guarded override) against the model and a brute-force oracle. "
            "Coordinator level (Model/Kad/TableWiring.lean: the table calls of Kademlia's AddKnownPeer / "
            "ConnectionEstablished / ConnectionClosed / DialFailure / inbound-substream handlers as a function of the event "
            "history): coordinator_table_is_table_run, connected_peer_stays_connected_in_table (a Connected entry keeps slot, "
            "identity and flag under every further event except the close of its own connection and an add_known_peer for "
            "it), connected_peer_kept_by_event (exact one-event condition), add_known_peer_downgrades_witness (known "
            "finding) - tied by histories on the real Kademlia event loop with dictated keys (c16 area, `t` box) and judged "
            "by an observation-only oracle: a peer whose connection is open is Connected in the table and keeps its slot.",
    "note": "Trusted: Lean kernel; axioms propext/Classical.choice/Quot.sound; the hand-written model and its tie (sampled "
            "differential runs through adapter src/verif/c14.rs); SHA-256 replaced by dictated keys; AddressStore abstracted "
            "to empty/non-empty; random placeholder ids assumed not to collide with looked-up keys.",
    "technique": "Lean 4 proof (invariant by induction over operations + bitwise order lemma) + model/implementation "
                 "correspondence check",
    "design_ref": "DESIGN.md §7 C14, §8 (l)",
}
CONST_TABLE = [
    ("KBUCKET_CAPACITY", "src/protocol/libp2p/kademlia/bucket.rs", r"if self\.nodes\.len\(\) < ([0-9_]+) \{", 20),
    ("NUM_BUCKETS", "src/protocol/libp2p/kademlia/routing_table.rs", r"const NUM_BUCKETS: usize = ([^;]+);", 256),
]
RULE = ("seeded operation histories (local key; add/connected/dialfail/disconnected/entry over peers whose keys are dictated "
        "per bucket index, hot buckets filled past capacity with all four connection states, peers with the local key, "
        "unknown peers; closest for targets at every kind of distance (0, 1, odd, even, single bit, stored key) and "
        "k in {0,1,19,20,21,60}, each preceded by a dump) run on the real RoutingTable and on the Lean model; a case is "
        "non-trivial if some bucket reached capacity or a closest call returned at least two peers; distinct = distinct "
        "(ops, observations) transcripts by SHA-256; plus (extra_cases, c16 area) coordinator-level histories on the real "
        "Kademlia event loop: victim in the table, connected in/outbound with or without PeerContext, DialFailure for it "
        "before / right after / after its bucket is filled with 19-22 connected peers, 1-3 newcomers of the same bucket, "
        "optional close; random event histories over 8-27 peers; malformed stream")
TRUSTED_BASE = ["Lean 4.33 kernel", "axioms: propext, Classical.choice, Quot.sound only",
                "hand-written model Model/Kad/{Key,Bucket,Table}.lean tied to bucket.rs/routing_table.rs/types.rs by this "
                "correspondence run",
                "adapter /repo/src/verif/c14.rs, key override hook in types.rs, harness, verif.py, checks/c14.py",
                "SHA-256 is not modelled: keys are dictated per peer (cfg-guarded override in Key::from(PeerId))",
                "AddressStore abstracted to the number of insert calls (is_empty iff 0); its own behaviour is C10",
                "U256 arithmetic (xor, leading_zeros, bit) modelled by Nat.xor / Nat.log2 / Nat.testBit",
                "hand-written model Model/Kad/TableWiring.lean tied to kademlia/mod.rs by the `t` box of adapter "
                "/repo/src/verif/c16.rs + c16_table.rs (real Kademlia::run on a real TransportService, table read at the "
                "`snapshot` trace point through c14.rs::verif_dump), checks/kadwire.py"]
ASSUMPTIONS = ["PeerId::random() placeholders pushed by KBucket::entry never have the key of a peer that is looked up",
               "distinct peers have distinct keys (SHA-256 collision freedom); the generator dictates injective keys",
               "keys are 256-bit (below 2^256)",
               "coordinator level: ConnectionEstablished is delivered only for a peer without open connection (C08); no query "
               "is in flight in the `t` histories (pending dial actions are C16's model; `established .. pending` covers the "
               "PeerContext they create)"]
KEEP_PREFIX = 1
BITS = 256
KS = [0, 1, 19, 20, 21, 60]
MUTATING = ("add", "connected", "dialfail", "dialfailall", "disconnected", "entry", "local")


def hx(n):
    return "%064x" % n


def key_in_bucket(rng, local, i):
    """A key whose distance to `local` has its top bit at position i."""
    return local ^ ((1 << i) | (rng.getrandbits(i) if i else 0))


def rand_distance(rng, tier_all=None):
    """Distances of every kind the bucket iterator distinguishes."""
    r = rng.random()
    if r < 0.08:
        return 0
    if r < 0.16:
        return 1
    i = rng.randrange(BITS) if tier_all is None else tier_all
    top = 1 << i
    low = rng.getrandbits(i) if i else 0
    r = rng.random()
    if r < 0.15:
        return top                      # single bit
    if r < 0.30:
        return top | 1                  # odd
    if r < 0.40:
        return (top | low) & ~1 or top  # even
    if r < 0.50:
        return (top << 1) - 1           # all ones below
    return top | low


class Gen:
    def __init__(self, rng):
        self.rng = rng
        r = rng.random()
        self.local = 0 if r < 0.05 else ((1 << BITS) - 1 if r < 0.10 else rng.getrandbits(BITS))
        self.keys = {}          # peer -> key
        self.used = {self.local}
        self.next_peer = 1
        self.ops = ["local " + hx(self.local)]

    def new_peer(self, bucket):
        for _ in range(50):
            k = key_in_bucket(self.rng, self.local, bucket)
            if k not in self.used:
                break
        else:
            return None
        p = self.next_peer
        self.next_peer += 1
        self.keys[p] = k
        self.used.add(k)
        return p

    def some_peer(self):
        return self.rng.choice(list(self.keys)) if self.keys else None

    def emit_peer_op(self, p):
        rng = self.rng
        k = hx(self.keys[p])
        r = rng.random()
        if r < 0.40:
            self.ops.append(f"add {p} {k} {rng.choice([1, 1, 1, 2, 3, 0])} {rng.choice('nnckx')}")
        elif r < 0.60:
            self.ops.append(f"connected {p} {k} {rng.choice('01')}")
        elif r < 0.75:
            self.ops.append(f"disconnected {p} {k}")
        elif r < 0.84:
            self.ops.append(f"dialfail {p} {k} {rng.choice([0, 1, 2])}")
        elif r < 0.90:
            self.ops.append(f"dialfailall {p} {k}")      # a (late) dial failure naming every known address of the peer
        else:
            self.ops.append(f"entry {p} {k}")

    def query(self, d=None, k=None):
        rng = self.rng
        if d is None:
            if self.keys and rng.random() < 0.2:
                d = self.keys[self.some_peer()] ^ self.local ^ rng.choice([0, 0, 1, 2, 3])
            else:
                d = rand_distance(rng)
        if not self.ops[-1].startswith(("dump", "closest", "iter")):
            self.ops.append("dump")
        self.ops.append(f"closest {hx(self.local ^ d)} {k if k is not None else rng.choice(KS)}")
        if rng.random() < 0.25:
            self.ops.append("iter " + hx(d))        # the bucket visit order for this distance


def gen_case(rng, size, target_bit=None):
    g = Gen(rng)
    # hot buckets get more peers than fit; low buckets hold at most 2^i keys
    hot = rng.sample([0, 1, 2, 3, 4, 5, 6, 7, 8, 100, 200, 254, 255, rng.randrange(BITS), rng.randrange(BITS)],
                     rng.choice([1, 2, 3]))
    if target_bit is not None and rng.random() < 0.5:
        hot.append(target_bit)
    fill = rng.choice(["connected", "mixed", "mixed", "weak"])
    for b in hot:
        n = rng.choice([3, 19, 20, 21, 22, 26]) if size > 1 else rng.choice([1, 2, 3])
        for _ in range(min(n, 1 << b if b < 6 else n)):
            p = g.new_peer(b)
            if p is None:
                break
            conn = {"connected": "c", "weak": rng.choice("nx"), "mixed": rng.choice("nckx")}[fill]
            if rng.random() < 0.1:
                conn = rng.choice("nckx")
            g.ops.append(f"add {p} {hx(g.keys[p])} {rng.choice([1, 1, 2])} {conn}")
            if rng.random() < 0.15:
                g.emit_peer_op(p)
    for _ in range(size * rng.choice([3, 8, 15])):
        r = rng.random()
        if r < 0.30:
            p = g.new_peer(rng.choice(hot) if rng.random() < 0.6 else rng.randrange(BITS))
            if p is not None:
                g.emit_peer_op(p)       # may be connected/dialfail/entry of an unknown peer: leaves a placeholder
        elif r < 0.70 and g.keys:
            g.emit_peer_op(g.some_peer())
        elif r < 0.75:
            p = g.next_peer
            g.next_peer += 1
            g.keys[p] = g.local         # a peer whose key is the local key
            g.emit_peer_op(p)
            del g.keys[p]
        else:
            g.query(None if target_bit is None or rng.random() < 0.3 else rand_distance(rng, target_bit))
    g.ops.append("dump")
    for k in rng.sample(KS, 3):
        g.query(rand_distance(rng, target_bit) if target_bit is not None else None, k)
    # the iterator's double visit of bucket 0 matters when bucket 0 is populated
    if rng.random() < 0.5:
        g.query(rng.choice([0, 1, 3, rng.getrandbits(BITS) | 1]), rng.choice([1, 20, 60]))
    return g.ops


def gen_malformed(rng):
    ops = ["add 1 " + hx(5) + " 1 c", "local zz", "local", "add 1 " + hx(5) + " 1 q", "add 1 12 1 c",
           "closest " + hx(1), "connected 2 " + hx(6) + " 2", "bogus", "add 2 " + hx(6) + " 1 c", "add 2 " + hx(6),
           "iter " + hx(rng.getrandbits(BITS)), "iter " + hx(0), "iter " + hx(1), "dump", "closest " + hx(6) + " 5"]
    rng.shuffle(ops)
    return ["local " + hx(rng.getrandbits(BITS))] + ops


def corpus():
    """The confirmed defect (DESIGN §8-l): bucket 0 populated, distance to the target odd or < 2."""
    res = []
    for d in (0, 1, 3, 0x9b):
        res.append(["local " + hx(0x50), "add 1 " + hx(0x51) + " 1 c", "add 2 " + hx(0x52) + " 1 c",
                    "add 3 " + hx(0x150) + " 1 n", "dump", "closest " + hx(0x50 ^ d) + " 20",
                    "closest " + hx(0x50 ^ d) + " 1", "closest " + hx(0x50 ^ d) + " 2"])
    res.append(["local " + hx(0)] + ["iter " + hx(d) for d in (0, 1, 2, 3, 0x9b, 0x5a, 1 << 255, (1 << 256) - 1)])
    return res


def gen_cases(rng, tier):
    if tier == "quick":
        for i in range(700):
            yield gen_case(rng, rng.choice([1, 2, 2, 3]))
        for i in range(0, BITS, 2):
            yield gen_case(rng, 1, target_bit=i + rng.randrange(2))
        for i in range(10):
            yield gen_malformed(rng)
    elif tier == "search":
        for i in range(1500):
            yield gen_case(rng, rng.choice([1, 2, 3]))
    else:
        for rep in range(40):
            for i in range(BITS):           # every bucket index as target distance
                yield gen_case(rng, rng.choice([1, 2, 3]), target_bit=i)
        for i in range(30000):
            yield gen_case(rng, rng.choice([1, 2, 3, 4]))
        for i in range(200):
            yield gen_malformed(rng)


def mutate_case(rng, case, n):
    for _ in range(n):
        c = list(case)
        for _ in range(rng.randrange(1, 4)):
            if len(c) < 3:
                break
            i = rng.randrange(1, len(c))
            if rng.random() < 0.5:
                del c[i]
            else:
                c.insert(i, rng.choice(case[1:]))
        yield c


# ------------------------------------------------------------------------------------------ oracle

def parse_bucket(s):
    """'17:[3/c/1,j/n/0]' -> (17, [(3|None, 'c', True)])."""
    idx, rest = s.split(":", 1)
    rest = rest.strip()[1:-1]
    nodes = []
    if rest:
        for item in rest.split(","):
            p, c, a = item.split("/")
            nodes.append((None if p == "j" else int(p), c, a == "1"))
    return int(idx), nodes


def oracle(case, out):
    """The property evaluated on the implementation's observations (independent of the Lean model):
    placement, local never stored, bucket bound, no displacement of Connected/CanConnect nodes, and
    `closest` = brute-force k closest of the stored peers with addresses shown by the preceding dump."""
    bad = []
    local = None
    keys = {}
    seen = {}                # bucket index -> last observed node list
    dumped = None            # {bucket: nodes} if a dump was seen and nothing mutated since

    def v(kind, msg, i, **kw):
        bad.append(dict({"kind": kind, "msg": msg, "step": i, "op": case[i], "out": out[i] if i < len(out) else None}, **kw))

    def check_bucket(idx, nodes, i):
        if len(nodes) > 20:
            v("bucket-bound", f"bucket {idx} holds {len(nodes)} nodes", i)
        for p, c, a in nodes:
            if p is None:
                if a:
                    v("junk-address", f"placeholder with an address in bucket {idx}", i)
                continue
            if p not in keys:
                continue
            d = keys[p] ^ local
            if d == 0:
                v("local-stored", f"peer {p} has the local key and is stored in bucket {idx}", i)
            elif d.bit_length() - 1 != idx:
                v("placement", f"peer {p} at distance 2^{d.bit_length() - 1}.. stored in bucket {idx}", i)
        real = [p for p, _, _ in nodes if p is not None]
        if len(real) != len(set(real)):
            v("stored-twice", f"a peer is stored twice in bucket {idx}", i)
        old = seen.get(idx)
        if old is not None:
            for s, (p, c, a) in enumerate(old):
                if p is not None and c in "ck":
                    if s >= len(nodes) or nodes[s][0] != p:
                        v("evicted-connected", f"peer {p} ({'Connected' if c == 'c' else 'CanConnect'}) displaced from "
                          f"bucket {idx} slot {s}", i)
        seen[idx] = nodes

    for i, op in enumerate(case):
        if i >= len(out):
            break
        o = out[i]
        t = op.split()
        if o.startswith("panic"):
            v("panic", f"panic in {t[0] if t else '?'}: {o}", i)
            break
        if o in ("skipped", "bad-op", "<missing>"):
            if o == "skipped":
                break
            continue
        try:
            if t[0] == "local":
                local = int(t[1], 16)
                keys, seen, dumped = {}, {}, None
            elif t[0] in ("add", "connected", "dialfail", "dialfailall", "disconnected", "entry"):
                dumped = None
                p, k = int(t[1]), int(t[2], 16)
                keys.setdefault(p, k)
                sel = o.split(" ", 1)[1] if t[0] == "entry" else o
                if sel == "local":
                    if k != local:
                        v("placement", f"peer {p} treated as the local node", i)
                else:
                    idx, nodes = parse_bucket(sel)
                    check_bucket(idx, nodes, i)
            elif t[0] == "dump":
                dumped = {}
                if o:
                    for part in o.split(";"):
                        idx, nodes = parse_bucket(part)
                        check_bucket(idx, nodes, i)
                        dumped[idx] = nodes
                owners = [p for nodes in dumped.values() for p, _, _ in nodes if p is not None]
                if len(owners) != len(set(owners)):
                    v("stored-twice", "a peer is stored in two buckets", i)
            elif t[0] == "closest":
                got = [] if o == "[]" else o[1:-1].split(",")
                target, k = int(t[1], 16), int(t[2])
                if "j" in got:
                    v("junk-returned", "closest returned a placeholder", i)
                    continue
                got = [int(x) for x in got]
                if len(got) != len(set(got)):
                    dup = [p for p in got if got.count(p) > 1][0]
                    dkey = keys.get(dup)
                    v("closest-dup", f"closest returned peer {dup} twice", i,
                      dup_bucket=None if dkey is None or dkey == local else (dkey ^ local).bit_length() - 1,
                      distance_odd_or_small=bool(((target ^ local) & 1) or (target ^ local) < 2))
                    continue
                if dumped is None:
                    continue        # stored set not known for certain (no dump since the last change)
                stored = [p for nodes in dumped.values() for p, c, a in nodes if p is not None and a and p in keys]
                want = sorted(stored, key=lambda p: keys[p] ^ target)[:k]
                if got != want:
                    ds = [keys[p] ^ target for p in got if p in keys]
                    kind = "closest-unsorted" if any(a > b for a, b in zip(ds, ds[1:])) else "closest-wrong"
                    v(kind, f"closest returned {got}, the {k} closest stored peers with addresses are {want}", i)
        except (ValueError, IndexError):
            v("unparsable", f"unparsable observation {o!r}", i)
            break
    return bad


def stats(case, out, acc):
    for op, o in zip(case, out):
        t = op.split()[0] if op.split() else "?"
        bump(acc, "op:" + t)
        if t == "closest" and o.startswith("["):
            n = 0 if o == "[]" else o.count(",") + 1
            bump(acc, "closest-len:" + ("0" if n == 0 else "1" if n == 1 else "2-19" if n < 20 else "20+"))
            d = int(op.split()[1], 16) ^ int(case[0].split()[1], 16) if case[0].startswith("local") and len(op.split()[1]) == 64 else None
            if d is not None:
                bump(acc, "target-distance:" + ("0" if d == 0 else "1" if d == 1 else "odd" if d & 1 else "even"))
                if d:
                    bump(acc, "target-bit:%d" % (16 * ((d.bit_length() - 1) // 16)))
        if t == "entry":
            bump(acc, "entry:" + o.split()[0])
        if "j/n/0" in o:
            bump(acc, "placeholder-seen")
        if o.count("/") >= 40 and t != "dump":
            bump(acc, "bucket-full")
        if o.startswith("panic"):
            bump(acc, "panic")
    bump(acc, "case-len:%d" % (20 * (len(case) // 20)))


def nontrivial(case, out):
    full = any(o.count("/") >= 40 for op, o in zip(case, out) if not op.startswith("dump"))
    two = any(op.startswith("closest") and o.count(",") >= 1 for op, o in zip(case, out))
    return full or two


def matches_known(k, v):
    """The duplicate of DESIGN §8-l is repaired by a `fix:` commit. Open: `add-known-peer-downgrades-open-connection`
    (coordinator level) - matches ONLY an open-connection peer found not-Connected right after an `add` for that very
    peer while it has no PeerContext; a downgrade by any other event (dial failure, another peer's events) or a
    displacement without that add is reported."""
    sig = k.get("signature", {})
    return k.get("property") == ID and bool(sig) and all(v.get(a) == b for a, b in sig.items())


# ---------------------------------------------------------------- coordinator-level histories (engine: extra_cases)
# RoutingTable/KBucket alone cannot show what the event handlers of `Kademlia` do with the table (which table call
# each ConnectionEstablished / ConnectionClosed / DialFailure / AddKnownPeer makes, with which ConnectionType): those
# histories run in the c16 area (`t` box: the real Kademlia event loop with dictated keys, model
# Model/Kad/TableWiring.lean over the table model), judged by kadwire.oracle_wire: a peer whose connection is open is
# `Connected` in the table and keeps its slot, whatever else happens.
def extra_cases(rng, tier):
    from . import kadwire
    yield "C16", list(kadwire.gen_wire_cases(rng, tier))


def oracle_extra(xpid, case, out):
    from . import kadwire
    return [dict(v, msg="(real Kademlia event loop, c16 area) " + v["msg"]) for v in kadwire.oracle_wire(case, out)]


def stats_extra(xpid, case, out, acc):
    from . import kadwire
    kadwire.stats_wire(case, out, acc)
