"""Cross-area extras: let a property's check also run a sibling property's generated cases (in the sibling's adapter
area) and judge them with the sibling's property-level oracle, restricted to the verdicts that speak about THIS property.
Used where a clause of the property is decided by code another property's area drives (e.g. C07 "afterwards the peer …
can be dialed again" lives in the connection manager, the c05 area)."""
import importlib
import itertools


def install(g, sibling, label, keep=None, count=None, tiers=None):
    """`sibling`: property id whose plugin provides gen_cases/oracle (its AREA runs the cases);
    `keep(v)`: which of the sibling oracle's violations count for this property (default: all);
    `count`: cases per tier {"quick": n, "thorough": n, "search": n}."""
    count = count or {"quick": 400, "thorough": 6000, "search": 800}
    prev_cases, prev_oracle, prev_stats = g.get("extra_cases"), g.get("oracle_extra"), g.get("stats_extra")
    mod = lambda: importlib.import_module("checks." + sibling.lower())

    def extra_cases(rng, tier):
        if prev_cases:
            yield from prev_cases(rng, tier)
        m = mod()
        sub = "quick" if tier != "thorough" else "search"
        yield sibling, list(itertools.islice(m.gen_cases(rng, sub), count[tier]))

    def oracle_extra(xpid, case, out):
        if xpid == sibling:
            vs = [v for v in mod().oracle(case, out) if keep is None or keep(v)]
            return [dict(v, msg=f"({label}) " + v["msg"]) for v in vs]
        return prev_oracle(xpid, case, out) if prev_oracle else []

    def stats_extra(xpid, case, out, acc):
        if xpid == sibling:
            s = getattr(mod(), "stats", None)
            return s(case, out, acc) if s else None
        if prev_stats:
            prev_stats(xpid, case, out, acc)

    g["extra_cases"], g["oracle_extra"], g["stats_extra"] = extra_cases, oracle_extra, stats_extra
