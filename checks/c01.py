"""C01 — Noise handshake authenticates the remote peer identity
(models: Model/Noise/{Identity,XX}.lean; adapters: /repo/src/verif/c01.rs, /repo/src/verif/c01_tcp.rs).

Three kinds of operations (one line each, self-contained):
  pv <payload> <static> vk=<key32> vs=<sig> [h=<sha256(key encoding)>]   the real parse_and_verify_peer_id
  hs d=<i> l=<j> [d2= l2=] [m1|m2|m3=<action>] [eof=0|1] [ch=<seed>]     real handshake() x2 (x4) + scripted MITM
  rg role=<dialer|listener> v=<i> r=<j> pk=<…> sig=<…>                   real handshake() vs rogue endpoint
  nc d=<i> l=<j> dialed=<k|none> [flip=<offset>]                         real negotiate_connection over loopback TCP
  tp via=<open|dial> host=<ip4|ip6|dns|dns4|dns6> d=<i> l=<j> exp=<k|none>    two real TcpTransports on loopback: the real
                                                                         Transport::open(id,[addr]) (+negotiate) / dial(id,addr)
                                                                         with /<host>/tcp/<port>[/p2p/<peer of key k>]
                                                                         (observation since round tcp3: `… ep=<host kind of the
                                                                         connection's endpoint address>`, judged by C10)
  (round gtcp: `dialed=h<k>` / `exp=h<k>` = the SHA2-256 form PeerId::from_multihash(Sha2_256.digest(protobuf(key k))) of the id)
  dl a=<s|r|k>{1..4} t=<ms> [cancel=<ms>]                               a real TcpTransport opens addresses that stall / refuse / answer;
                                                                         the overall dial deadline (checks/tcp_poll.py; judged by C05)
  pn q=<items> [in=<n> acc=<0|1>] [neg=1]                                a real TcpTransport with scripted READY results in its queues,
                                                                         polled with a counting waker (checks/tcp_poll.py; judged by C05)
Payloads are built here by hand (protobuf) with REAL ed25519 signatures obtained from the adapter's `sign`/`pubkey`
operations (deterministic keys 0..15) before the cases are run.
"""
import hashlib, os, subprocess
from .common import bump
from . import tcp_poll

ID = "C01"
AREA = "c01"
LEAN_PROPS = "Litep2pVerif.Props.C01"
THEOREMS = ["free_laws", "honest_payload_accepted", "accept_sound", "reject_missing_key", "reject_missing_sig",
            "reject_bad_sig", "reject_undecodable_key", "bound_to_session", "bound_to_identity", "dialed_mismatch",
            "dialed_mismatch_any_address_family",
            "canonical_id", "honest_accepts", "tamper_no_wrong_identity", "tamper_no_wrong_identity_two_sessions",
            "honest_identity_binds_static", "tamper_receiver_fails", "tamper_no_connection"]
CONSTS = ["MAX_INLINE_KEY_LENGTH"]
CONST_TABLE = [
    ("MAX_INLINE_KEY_LENGTH", "src/peer_id.rs", r"const MAX_INLINE_KEY_LENGTH: usize = ([^;]+);", 42),
]
MANIFEST = {
    "text": "Lean 4 theorems about (a) an operational copy of parse_and_verify_peer_id, the payload decoding of handshake() "
            "and the dialed-peer test of negotiate_connection over a structure of cryptographic parameters with laws as "
            "hypotheses (soundness of acceptance, one theorem per rejection class, binding of the signature to the session "
            "static key and to the identity, PeerIdMismatch, the peer id is the hash of the RECEIVED key bytes; where the "
            "dialed-peer expectation comes from: the TCP address parser on every host family, TcpTransport::dial parsing the "
            "dialed address, TcpTransport::open parsing the address dial_peer returns — dialed_mismatch_any_address_family: the "
            "expectation is the /p2p suffix whatever the host component, through both entry points), and (b) a "
            "symbolic Dolev-Yao model of the three-message XX exchange exactly as handshake() performs it (framing, order "
            "of reads/writes/returns) over a free term algebra: honest runs accept, under EVERY attacker function a side "
            "that returns ok P verified a signature of the key encoded in P over the static key its socket is bound to, an "
            "honest identity can only be bound to its own static key, every scripted tamper makes the receiver fail, and a "
            "tampered message 3 yields no connection although the dialer's handshake() returned Ok. Plus correspondence "
            "runs of the real code: parse_and_verify_peer_id on hand-built payloads with real signatures, real handshake() "
            "pairs under a scripted byte-level man-in-the-middle and against a rogue endpoint running the real Noise code "
            "with forged payloads, real negotiate_connection over loopback TCP, two real TcpTransports on loopback driven through "
            "the real Transport::open (+negotiate) and Transport::dial with /ip4, /ip6, /dns, /dns4, /dns6 addresses x expected "
            "peer right / wrong / absent / written in SHA2-256 form (of the listener's key and of another key: PeerId equality is "
            "structural, dialed_mismatch_any_address_family clauses 5-6: a hashed expectation of an inlined key is always "
            "PeerIdMismatch, a connection is reported only under the proven id); and a property-level oracle that knows "
            "which identity key signed which static key (recorded by a guarded hook at the moment of signing).",
    "note": "Trusted: Lean kernel; axioms propext/Classical.choice/Quot.sound; the hand-written models and their tie "
            "(sampled/exhaustive differential runs through adapter src/verif/c01.rs); ed25519, X25519, ChaCha20-Poly1305, "
            "SHA-256 and snow's state machine are idealised (parameters with laws / free term algebra); prost decoding is "
            "the C19 model.",
    "technique": "Lean 4 proof (operational model + symbolic protocol model, all attacker functions) + model/implementation "
                 "correspondence check with an active man-in-the-middle and a rogue peer",
    "design_ref": "DESIGN.md §7 C01",
}
RULE = ("pv: honest payloads for keys 0..15 and random static keys; missing key / missing, empty, truncated, over-long, "
        "bit-flipped, random signature / signature over another static key, without or with another domain prefix / by another "
        "identity / unknown and unsupported key types / key data of 0,31,33 bytes and invalid curve points / non-canonical "
        "protobuf encodings of a valid key (reordered, over-long varints, duplicated and unknown fields, > 42 bytes) / "
        "duplicated payload fields, extensions, unknown fields / truncated and random payload bytes / static keys of other "
        "lengths. hs: every action on each of the three framed messages (flip of every byte position in thorough, sampled in "
        "quick, incl. both length-prefix bytes; truncation and cut at every offset in thorough; extension; drop), with and "
        "without EOF propagation, with random chunking and Pending injection; two concurrent sessions with every combination "
        "of swap/from2. rg: rogue dialer and listener with every forged (key, signature) combination incl. relayed payloads. "
        "nc: dialed id equal/different/none, message-3 tampering on the TCP stream. tp: TcpTransport::open and ::dial on "
        "loopback for each of /ip4/127.0.0.1, /ip6/::1, /dns/localhost, /dns4/localhost, /dns6/localhost x /p2p suffix = the "
        "listener's id / another id / absent (a name that does not resolve or a missing loopback family is the distinct "
        "observation unresolved/unavailable, never an alarm). A case is non-trivial if it contains an "
        "accepted and a rejected observation; distinct = distinct transcripts by SHA-256")
TRUSTED_BASE = ["Lean 4.33 kernel", "axioms: propext, Classical.choice, Quot.sound only",
                "hand-written models Model/Noise/Identity.lean, Model/Noise/XX.lean (and C18's peer id, C19's protobuf models) tied "
                "to crypto/noise/mod.rs by this correspondence run",
                "adapter /repo/src/verif/c01.rs (scripted MITM, rogue endpoint, static-key recorder hook in NoiseContext::assemble), "
                "src/verif/c01_tcp.rs (incl. the two-transport loopback rig of `tp`: listener task accepting every pending inbound "
                "connection, hickory resolver from the system configuration, `localhost` answered locally), harness, verif.py, "
                "checks/c01.py",
                "ed25519 (sign/verify/point validity) is a parameter with laws (verify∘sign, a signature binds its key and message) — "
                "hypotheses satisfied by the free instance; the run takes verify/point validity of each triple from ed25519-dalek",
                "X25519/HKDF/ChaCha20-Poly1305/SHA-256 and snow's XX state machine idealised as a free term algebra (DH commutes by "
                "construction, a ciphertext opens iff key, nonce and associated data are equal)"]
ASSUMPTIONS = ["no collisions/forgeries: distinct terms are distinct byte strings, a flipped or truncated field is unrelated garbage",
               "handshake timeouts: dialer before listener (300/400 ms of virtual time in the runs); timing itself is never compared",
               "the attacker of tamper_receiver_fails holds no Diffie-Hellman secret of its own (byte-level man-in-the-middle); an "
               "attacker WITH its own keys is the rogue peer, covered by tamper_no_wrong_identity / honest_identity_binds_static"]
KEEP_PREFIX = 0

ROOT = os.path.dirname(os.path.dirname(os.path.abspath(__file__)))
HARNESS_BIN = os.path.join(ROOT, "harness", "target", "debug", "harness")
DOMAIN = b"noise-libp2p-static-key:"
NKEYS = 16
NC_READY = True
SIZES = {1: 34, 2: 202, 3: 170}           # framed handshake messages (2-byte prefix included)

# ------------------------------------------------------------------ signing service (real ed25519 via the adapter)

_SIG = {}
_PUB = {}


def _service(lines):
    p = subprocess.run([HARNESS_BIN, AREA], input="case\n" + "\n".join(lines) + "\n", capture_output=True, text=True,
                       timeout=120)
    out = p.stdout.split("\n")[1:]
    return [o[3:] if o.startswith("ok ") else None for o in out[:len(lines)]]


def pubkeys():
    if not _PUB:
        res = _service([f"pubkey {i}" for i in range(NKEYS)])
        for i, r in enumerate(res):
            _PUB[i] = bytes.fromhex(r)
    return _PUB


def sign_batch(reqs):
    """reqs: iterable of (key index, message bytes); fills the cache."""
    todo = [r for r in dict.fromkeys(reqs) if r not in _SIG]
    if todo:
        res = _service([f"sign {i} {m.hex() or '-'}" for i, m in todo])
        for r, s in zip(todo, res):
            _SIG[r] = bytes.fromhex(s)


def sign(i, msg):
    if (i, msg) not in _SIG:
        sign_batch([(i, msg)])
    return _SIG[(i, msg)]


# ------------------------------------------------------------------ protobuf by hand

def uv(n):
    out = bytearray()
    while True:
        if n < 128:
            out.append(n)
            return bytes(out)
        out.append(n % 128 | 0x80)
        n //= 128


def f_bytes(tag, b):
    return uv(tag << 3 | 2) + uv(len(b)) + b


def f_var(tag, n):
    return uv(tag << 3) + uv(n)


def key_enc(key32, ty=1):
    return f_var(1, ty) + f_bytes(2, key32)


def payload(kb=None, sig=None):
    return (f_bytes(1, kb) if kb is not None else b"") + (f_bytes(2, sig) if sig is not None else b"")


class Malformed(Exception):
    pass


def rd_varint(b, i):
    n = 0
    for c in range(10):
        if i >= len(b):
            raise Malformed
        x = b[i]
        i += 1
        n |= (x & 0x7F) << (7 * c)
        if x < 0x80:
            if c == 9 and x >= 2:
                raise Malformed
            return n, i
    raise Malformed


def rd_key(b, i):
    k, i = rd_varint(b, i)
    if k >= 1 << 32 or (k & 7) > 5 or (k >> 3) < 1:
        raise Malformed
    return k >> 3, k & 7, i


def rd_len(b, i):
    n, i = rd_varint(b, i)
    if i + n > len(b):
        raise Malformed
    return b[i:i + n], i + n


def skip(b, i, wt, tag, depth=100):
    if depth == 0:
        raise Malformed
    if wt == 0:
        return rd_varint(b, i)[1]
    if wt == 1:
        if i + 8 > len(b):
            raise Malformed
        return i + 8
    if wt == 2:
        return rd_len(b, i)[1]
    if wt == 5:
        if i + 4 > len(b):
            raise Malformed
        return i + 4
    if wt == 3:
        while True:
            t2, w2, i = rd_key(b, i)
            if w2 == 4:
                if t2 != tag:
                    raise Malformed
                return i
            i = skip(b, i, w2, t2, depth - 1)
    raise Malformed


def parse_extensions(b):
    i = 0
    while i < len(b):
        tag, wt, i = rd_key(b, i)
        if tag in (1, 2):
            if wt != 2:
                raise Malformed
            v, i = rd_len(b, i)
            if tag == 2:
                try:
                    v.decode("utf-8")
                except UnicodeDecodeError:
                    raise Malformed
        else:
            i = skip(b, i, wt, tag, 99)


def parse_payload(b):
    """prost's rules for NoiseHandshakePayload -> (identity_key | None, identity_sig | None); Malformed."""
    kb = sig = None
    i = 0
    while i < len(b):
        tag, wt, i = rd_key(b, i)
        if tag in (1, 2, 4):
            if wt != 2:
                raise Malformed
            v, i = rd_len(b, i)
            if tag == 1:
                kb = v
            elif tag == 2:
                sig = v
            else:
                parse_extensions(v)
        else:
            i = skip(b, i, wt, tag)
    return kb, sig


def parse_pubkey(b):
    """keys.proto PublicKey -> (type as i32, data); Malformed."""
    ty, data = 0, b""
    i = 0
    while i < len(b):
        tag, wt, i = rd_key(b, i)
        if tag == 1:
            if wt != 0:
                raise Malformed
            v, i = rd_varint(b, i)
            v &= 0xFFFFFFFF
            ty = v - (1 << 32) if v >= 1 << 31 else v
        elif tag == 2:
            if wt != 2:
                raise Malformed
            data, i = rd_len(b, i)
        else:
            i = skip(b, i, wt, tag)
    return ty, data


def derive(kb):
    if len(kb) <= 42:
        return bytes([0, len(kb)]) + kb
    return bytes([0x12, 0x20]) + hashlib.sha256(kb).digest()


def expected_pv(pl, rs):
    """The property, evaluated independently of the model and of parse_and_verify_peer_id:
    ('ok', peer id bytes) iff the payload carries an ed25519 key of the harness and the signature this very key
    makes over domain ++ static; otherwise ('err', class or None)."""
    try:
        kb, sig = parse_payload(pl)
    except Malformed:
        return "err", "parse"
    if kb is None:
        return "err", "peer-id-missing"
    try:
        ty, data = parse_pubkey(kb)
    except Malformed:
        return "err", "key-decode"
    if ty != 1:
        return "err", "key-type"
    if len(data) != 32:
        return "err", "key-invalid"
    idx = [i for i, p in pubkeys().items() if p == data]
    if not idx:
        return "err", None          # key-invalid or bad-signature, depending on the curve point
    if sig is None:
        return "err", "bad-signature"
    if sig != sign(idx[0], DOMAIN + rs):
        return "err", "bad-signature"
    # the id of the received bytes (what litep2p derives) or of the canonical re-encoding of the same key (what the
    # libp2p reference derives): both are "the identity key whose hash is P"
    return "ok", (derive(kb), derive(key_enc(data)))


def pv_op(pl, rs):
    """The op line: the key bytes / signature the primitives are asked about are what the reference parser sees."""
    vk = vs = b""
    h = ""
    try:
        kb, sig = parse_payload(pl)
        if kb is not None:
            h = " h=" + hashlib.sha256(kb).hexdigest()
            try:
                _, vk = parse_pubkey(kb)
            except Malformed:
                pass
        vs = sig or b""
    except Malformed:
        pass
    return f"pv {pl.hex() or '-'} {rs.hex() or '-'} vk={vk.hex() or '-'} vs={vs.hex() or '-'}{h}"


# ------------------------------------------------------------------ generators

def rbytes(rng, n):
    return bytes(rng.getrandbits(8) for _ in range(n))


INVALID_POINTS = [bytes([2] + [0] * 31), bytes([0xee] * 32), bytes([5] + [0] * 31), bytes([0xff] * 32),
                  bytes([7] + [0] * 31), bytes([0x13] * 32)]

PV_KINDS = ["honest", "honest", "honest", "nokey", "nosig", "sig-flip", "sig-rand", "sig-short", "sig-long", "sig-empty",
            "other-static", "no-domain", "other-domain", "other-id", "swap-key", "key-type", "key-len", "key-point",
            "nc-reorder", "nc-varint", "nc-unknown", "nc-dup", "nc-long", "pl-dup-key", "pl-dup-sig", "pl-ext", "pl-unknown",
            "pl-reorder", "pl-trunc", "pl-garbage", "pl-wiretype", "rs-len", "empty"]


def pv_spec(rng, kind):
    """-> (payload bytes builder needing signatures) as (list of sign requests, lambda -> (payload, rs))."""
    pk = pubkeys()
    i = rng.randrange(NKEYS)
    j = (i + 1 + rng.randrange(NKEYS - 1)) % NKEYS
    rs = rbytes(rng, 32)
    msg = DOMAIN + rs
    kb = key_enc(pk[i])
    need = [(i, msg)]
    good = lambda: sign(i, msg)
    if kind == "honest":
        f = lambda: payload(kb, good())
    elif kind == "nokey":
        f = lambda: payload(None, good())
    elif kind == "nosig":
        f = lambda: payload(kb, None)
    elif kind == "sig-flip":
        pos, bit = rng.randrange(64), 1 << rng.randrange(8)
        f = lambda: payload(kb, bytes(b ^ (bit if k == pos else 0) for k, b in enumerate(good())))
    elif kind == "sig-rand":
        r = rbytes(rng, 64)
        f = lambda: payload(kb, r)
    elif kind == "sig-short":
        n = rng.choice([1, 32, 63])
        f = lambda: payload(kb, good()[:n])
    elif kind == "sig-long":
        f = lambda: payload(kb, good() + b"\0")
    elif kind == "sig-empty":
        f = lambda: payload(kb, b"")
    elif kind == "other-static":
        rs2 = rbytes(rng, 32) if rng.random() < 0.7 else bytes(b ^ (1 if k == 31 else 0) for k, b in enumerate(rs))
        need = [(i, DOMAIN + rs2)]
        f = lambda: payload(kb, sign(i, DOMAIN + rs2))
    elif kind == "no-domain":
        need = [(i, rs)]
        f = lambda: payload(kb, sign(i, rs))
    elif kind == "other-domain":
        d2 = rng.choice([b"noise-libp2p-static-key", b"noise-libp2p-static-key;", b"Noise-libp2p-static-key:", b""])
        need = [(i, d2 + rs)]
        f = lambda: payload(kb, sign(i, d2 + rs))
    elif kind == "other-id":        # the key of i, signed by j
        need = [(j, msg)]
        f = lambda: payload(kb, sign(j, msg))
    elif kind == "swap-key":        # a valid payload of j, with the key replaced by i's
        need = [(j, msg)]
        f = lambda: payload(key_enc(pk[i]), sign(j, msg))
    elif kind == "key-type":
        ty = rng.choice([0, 2, 3, 4, 7, 255, 0x7fffffff, 0xffffffff, 1 << 32, (1 << 32) + 1])
        f = lambda: payload(key_enc(pk[i], ty), good())
    elif kind == "key-len":
        n = rng.choice([0, 1, 31, 33, 64])
        f = lambda: payload(key_enc((pk[i] + pk[j])[:n]), good())
    elif kind == "key-point":
        bad = rng.choice(INVALID_POINTS)
        f = lambda: payload(key_enc(bad), good())
    elif kind == "nc-reorder":
        f = lambda: payload(f_bytes(2, pk[i]) + f_var(1, 1), good())
    elif kind == "nc-varint":
        f = lambda: payload(bytes([0x08, 0x81, 0x00]) + f_bytes(2, pk[i]), good())
    elif kind == "nc-unknown":
        extra = rng.choice([f_var(3, 5), f_bytes(9, b"x"), f_var(1000, 1)])
        f = lambda: payload(kb + extra, good())
    elif kind == "nc-dup":
        f = lambda: payload(f_var(1, 0) + f_bytes(2, pk[j]) + kb, good())
    elif kind == "nc-long":
        pad = f_bytes(7, bytes(rng.choice([3, 4, 5, 30])))
        f = lambda: payload(kb + pad, good())
    elif kind == "pl-dup-key":      # last identity_key wins
        need = [(i, msg), (j, msg)]
        first = rng.random() < 0.5
        f = lambda: (f_bytes(1, key_enc(pk[j])) + payload(kb, good())) if first else (payload(kb, good()) + f_bytes(1, key_enc(pk[j])))
    elif kind == "pl-dup-sig":
        need = [(i, msg), (j, msg)]
        first = rng.random() < 0.5
        f = lambda: (f_bytes(2, sign(j, msg)) + payload(kb, good())) if first else (payload(kb, good()) + f_bytes(2, sign(j, msg)))
    elif kind == "pl-ext":
        ext = f_bytes(4, f_bytes(2, b"/yamux/1.0.0") + f_bytes(1, b"\x12\x20" + bytes(32)))
        f = lambda: payload(kb, good()) + ext
    elif kind == "pl-unknown":
        extra = rng.choice([f_var(3, 1), f_bytes(5, b"abc"), bytes([0x1d, 1, 2, 3, 4])])
        f = lambda: payload(kb, good()) + extra
    elif kind == "pl-reorder":
        f = lambda: f_bytes(2, good()) + f_bytes(1, kb)
    elif kind == "pl-trunc":
        cut = rng.randrange(0, 104)
        f = lambda: payload(kb, good())[:cut]
    elif kind == "pl-garbage":
        g = rbytes(rng, rng.choice([1, 5, 40, 104]))
        f = lambda: g
    elif kind == "pl-wiretype":
        f = lambda: rng_free_choice(kb, good())
    elif kind == "rs-len":
        rs = rbytes(rng, rng.choice([0, 1, 31, 33, 64]))
        msg = DOMAIN + rs
        need = [(i, msg)]
        f = lambda: payload(kb, sign(i, msg))
    else:   # empty
        f = lambda: b""
    return need, f, rs


def rng_free_choice(kb, sig):
    # identity_key with wire type 0 (varint) instead of 2
    return f_var(1, 7) + f_bytes(2, sig)


def gen_pv_cases(rng, n_cases, ops_per_case):
    specs = []
    for _ in range(n_cases * ops_per_case):
        kind = rng.choice(PV_KINDS)
        specs.append((kind,) + pv_spec(rng, kind))
    sign_batch([r for s in specs for r in s[1]])
    ops = []
    for kind, _, f, rs in specs:
        ops.append(pv_op(f(), rs) + f" #{kind}")
        if kind == "honest" and rng.random() < 0.6:
            # the payload that has just been verified, replayed in a session with another static key (any state kept
            # between verifications must not make it acceptable)
            rs2 = rbytes(rng, 32) if rng.random() < 0.7 else bytes(b ^ (1 if k == 0 else 0) for k, b in enumerate(rs))
            ops.append(pv_op(f(), rs2) + " #replay-other-static")
    return [ops[k:k + ops_per_case] for k in range(0, len(ops), ops_per_case)]


def tail(rng):
    s = ""
    if rng.random() < 0.5:
        s += " eof=1"
    if rng.random() < 0.6:
        s += f" ch={rng.randrange(1, 1 << 30)}"
    return s


def hs_op(rng, acts, two=False, extra=None):
    d, l = rng.randrange(NKEYS), rng.randrange(NKEYS)
    s = f"hs d={d} l={l}"
    if two:
        s += f" d2={rng.randrange(NKEYS)} l2={rng.randrange(NKEYS)}"
    for k in (1, 2, 3):
        if acts.get(k):
            s += f" m{k}={acts[k]}"
    return s + (tail(rng) if extra is None else extra)


def rand_act(rng, k):
    n = SIZES[k]
    r = rng.random()
    if r < 0.45:
        off = rng.choice([0, 1, 2, 33, 34, 81, 82, n - 1]) if rng.random() < 0.4 else rng.randrange(n)
        return f"flip:{off % n}:{rng.choice([1, 2, 0x80, 0xff, rng.randrange(1, 256)])}"
    if r < 0.6:
        return f"trunc:{rng.randrange(n - 2)}"
    if r < 0.7:
        return f"cut:{rng.randrange(n)}"
    if r < 0.8:
        return f"ext:{rng.choice([1, 16, 17, 64])}"
    if r < 0.9:
        return "drop"
    return "pass"


def gen_hs_case(rng, n_ops):
    ops = []
    for _ in range(n_ops):
        r = rng.random()
        if r < 0.08:
            ops.append(hs_op(rng, {}))
        elif r < 0.62:
            k = rng.choice([1, 2, 3])
            ops.append(hs_op(rng, {k: rand_act(rng, k)}))
        elif r < 0.72:
            ops.append(hs_op(rng, {k: rand_act(rng, k) for k in (1, 2, 3) if rng.random() < 0.6}))
        elif r < 0.90:
            acts = {k: rng.choice(["swap", "from2", "pass", "pass"]) for k in (1, 2, 3)}
            ops.append(hs_op(rng, acts, two=True))
        else:
            acts = {k: rng.choice(["swap", "from2", "pass", rand_act(rng, k)]) for k in (1, 2, 3)}
            ops.append(hs_op(rng, acts, two=True))
    return ops


PKS = ["own", "victim", "other", "none", "bt"]
SIGS = ["own", "zero", "none", "empty", "relay"]


def rg_op(rng, role=None, pk=None, sig=None, signer=None):
    v, r = rng.sample(range(NKEYS), 2)
    o = rng.choice([x for x in range(NKEYS) if x not in (v, r)])
    role = role or rng.choice(["dialer", "listener"])
    pk = pk or rng.choice(PKS)
    sig = sig or rng.choice(SIGS)
    who = {"own": r, "victim": v, "other": o}
    pks = {"own": f"k{r}", "victim": f"k{v}", "other": f"k{o}", "none": "none", "bt": f"bt{r}"}[pk]
    s = who[signer or rng.choice(["own", "own", "victim", "other"])]
    sigs = {"own": f"own{s}", "zero": f"zero{s}", "none": "none", "empty": "empty", "relay": f"relay{o}"}[sig]
    if sig == "relay":
        pks = f"k{o}"
    return f"rg role={role} v={v} r={r} pk={pks} sig={sigs}" + (f" ch={rng.randrange(1, 1 << 30)}" if rng.random() < 0.5 else "")


def exhaustive_hs(rng, masks):
    """Every byte position of the three messages x masks, truncation and cut at every offset."""
    ops = []
    for k in (1, 2, 3):
        n = SIZES[k]
        for off in range(n):
            for m in masks(rng):
                ops.append(hs_op(rng, {k: f"flip:{off}:{m}"}))
        for t in range(n - 2):
            ops.append(hs_op(rng, {k: f"trunc:{t}"}))
        for t in range(n):
            ops.append(hs_op(rng, {k: f"cut:{t}"}))
        for e in (1, 15, 16, 17, 64):
            ops.append(hs_op(rng, {k: f"ext:{e}"}))
        ops.append(hs_op(rng, {k: "drop"}, extra=" eof=0"))
        ops.append(hs_op(rng, {k: "drop"}, extra=" eof=1"))
    return ops


def all_two_session(rng):
    ops = []
    for a in ("pass", "swap", "from2"):
        for b in ("pass", "swap", "from2"):
            for c in ("pass", "swap", "from2"):
                for e in (" eof=0", " eof=1"):
                    ops.append(hs_op(rng, {1: a, 2: b, 3: c}, two=True, extra=e))
    return ops


def all_rogue(rng):
    ops = []
    for role in ("dialer", "listener"):
        for pk in PKS:
            for sig in SIGS:
                for signer in ("own", "victim", "other"):
                    if sig in ("none", "empty", "relay") and signer != "own":
                        continue
                    ops.append(rg_op(rng, role, pk, sig, signer))
    return ops


def nc_ops(rng, full):
    ops = []
    for _ in range(3 if not full else 12):
        d, l = rng.sample(range(NKEYS), 2)
        o = rng.choice([x for x in range(NKEYS) if x not in (d, l)])
        ops += [f"nc d={d} l={l} dialed={l}", f"nc d={d} l={l} dialed=none", f"nc d={d} l={l} dialed={o}",
                f"nc d={d} l={l} dialed={d}",
                # the expectation in SHA2-256 form ("Qm..."): of the key the listener proves, of another key
                f"nc d={d} l={l} dialed=h{l}", f"nc d={d} l={l} dialed=h{rng.choice([o, d])}"]
    offs = range(64, 232) if full else [64, 65, 100, 111, 112, 113, 200, 231]
    for off in offs:
        d, l = rng.sample(range(NKEYS), 2)
        ops.append(f"nc d={d} l={l} dialed={rng.choice([l, 'none'])} flip={off}")
    return ops


HOSTS = ["ip4", "ip6", "dns", "dns4", "dns6"]


def tp_ops(rng, full):
    """Every address family x both entry points x expected peer right / wrong / absent."""
    ops = []
    for _ in range(1 if not full else 4):
        for via in ("open", "dial"):
            for host in HOSTS:
                d, l = rng.sample(range(NKEYS), 2)
                o = rng.choice([x for x in range(NKEYS) if x not in (d, l)])
                ops += [f"tp via={via} host={host} d={d} l={l} exp={l}", f"tp via={via} host={host} d={d} l={l} exp={o}"]
                ops.append(f"tp via={via} host={host} d={d} l={l} exp={rng.choice(['none', d])}")
                # the expected peer in SHA2-256 form: the listener's own key / a different key — every entry point and host kind
                ops += [f"tp via={via} host={host} d={d} l={l} exp=h{l}", f"tp via={via} host={host} d={d} l={l} exp=h{rng.choice([o, d])}"]
    rng.shuffle(ops)
    return ops


def chunks(ops, n):
    return [ops[i:i + n] for i in range(0, len(ops), n)]


def corpus():
    rng = __import__("random").Random(4242)
    return chunks(all_rogue(rng), 25) + chunks(all_two_session(rng), 18)


def gen_cases(rng, tier):
    if not os.path.exists(HARNESS_BIN):
        return
    if tier == "quick":
        yield from gen_pv_cases(rng, 20, 12)
        for _ in range(40):
            yield gen_hs_case(rng, 12)
        yield from chunks([rg_op(rng) for _ in range(60)], 12)
        if NC_READY:
            yield from chunks(nc_ops(rng, False), 5)
            yield from chunks(tp_ops(rng, False), 6)
            yield from tcp_poll.gen_cases(rng, tier)
    elif tier == "search":
        yield from gen_pv_cases(rng, 60, 12)
        for _ in range(150):
            yield gen_hs_case(rng, 12)
        yield from chunks([rg_op(rng) for _ in range(200)], 12)
    else:
        yield from gen_pv_cases(rng, 400, 15)
        yield from chunks(exhaustive_hs(rng, lambda r: [1, 0x80, r.randrange(1, 256)]), 40)
        for _ in range(600):
            yield gen_hs_case(rng, 15)
        yield from chunks([rg_op(rng) for _ in range(1500)], 15)
        if NC_READY:
            yield from chunks(nc_ops(rng, True), 6)
            yield from chunks(tp_ops(rng, True), 6)
            yield from tcp_poll.gen_cases(rng, tier)


# ------------------------------------------------------------------ checker mode: verify / point validity from the primitives

def model_lines(case, impl):
    if impl is None:
        return case
    res = []
    for i, op in enumerate(case):
        o = impl[i] if i < len(impl) else ""
        if op.startswith("pv "):
            res.append(op + "".join(" " + t for t in o.split() if t.startswith("vp=") or t.startswith("vf=")))
        elif op.startswith("tp ") and o in ("D=" + w for w in TP_ENV) and " env=" not in op:
            # a fact about the sandbox (name resolution, loopback families, scheduling): the model has no opinion
            res.append(op + " env=" + o[2:])
        elif op.startswith("dl ") and o.startswith("D=env:") and " env=" not in op:
            res.append(op + " env=" + o[6:])
        else:
            res.append(op)
    return res


# ------------------------------------------------------------------ oracle

TP_ENV = ("unresolved", "unavailable", "stalled")


def kvs(tokens):
    return dict(t.split("=", 1) for t in tokens if "=" in t)


def side(obs):
    """'ok:k3@k3' -> ('ok', 'k3', 'k3'); 'err:snow' -> ('err', 'snow', None)"""
    if obs.startswith("ok:"):
        p, _, own = obs[3:].partition("@")
        return "ok", p, own
    if obs.startswith("err:"):
        return "err", obs[4:], None
    return "?", obs, None


def hs_args(t):
    a = kvs(t)
    acts = {k: a.get(f"m{k}", "pass") for k in (1, 2, 3)}
    return a, acts


def tp_endpoint_oracle(case, out, i):
    """C10 ("dial successes and failures re-score exactly the address used"): the endpoint address the transport reports
    for an established connection — the address the manager credits — is the address that was dialed, for every host kind."""
    t = case[i].split()
    o = out[i] if i < len(out) else ""
    if not t or t[0] != "tp" or not o.startswith("D=") or " ep=" not in o:
        return []
    a = kvs(t[1:])
    ep = o.split(" ep=", 1)[1].split()[0]
    if ep == a.get("host"):
        return []
    return [{"kind": "endpoint-address", "step": i, "op": case[i], "out": o,
             "msg": f"TcpTransport::{a.get('via')} of /{a.get('host')}/localhost/tcp/<port> succeeded, the connection's endpoint address is "
                    f"/{ep}/...: the manager credits an address that was not the one dialed (and leaves the dialed one untested)"}]


def oracle(case, out):
    bad = []

    def v(kind, msg, i, **kw):
        bad.append({"kind": kind, "msg": msg, "step": i, "op": case[i], "out": out[i] if i < len(out) else None, **kw})

    for i, op in enumerate(case):
        if i >= len(out):
            break
        o = out[i]
        t = op.split("#")[0].split()
        if o.startswith("panic"):
            v("panic", f"panic in {t[0] if t else op}: {o}", i)
            break
        if o == "skipped":
            break
        if o == "bad-op" or not t:
            continue
        try:
            if t[0] == "pv":
                pl = bytes.fromhex(t[1]) if t[1] != "-" else b""
                rs = bytes.fromhex(t[2]) if t[2] != "-" else b""
                want, what = expected_pv(pl, rs)
                w = o.split()
                if want == "ok":
                    if w[0] != "ok" or w[1] not in (what[0].hex(), what[1].hex()):
                        v("reject-valid" if w[0] != "ok" else "wrong-id",
                          f"a payload whose key signed this session's static key must yield ok {what[0].hex()}, got {o!r}", i)
                elif w[0] == "ok":
                    v("accept-invalid", f"accepted ({o!r}) a payload that must be rejected"
                      f"{' as ' + what if what else ''}: the advertised key did not sign this static key", i)
                elif what and w[1] != what and not (what == "key-decode" and w[1] == "parse"):
                    v("error-class", f"expected err {what}, got {o!r}", i)
            elif t[0] == "hs":
                a, acts = hs_args(t[1:])
                obs = {k: side(x) for k, x in kvs(o.split()).items()}
                ids = {"D": a.get("d"), "L": a.get("l"), "D2": a.get("d2"), "L2": a.get("l2")}
                for name, (st, p, own) in obs.items():
                    if st == "ok" and own != p:
                        v("wrong-identity", f"{name} returned a socket for peer {p} bound to a static key signed by {own}", i)
                    if st == "?":
                        v("unresolved", f"{name} did not finish: {p}", i)
                allpass = all(x == "pass" for x in acts.values())
                allswap = all(x == "swap" for x in acts.values())
                if allpass or allswap:
                    peer = {"D": "L", "L": "D", "D2": "L2", "L2": "D2"} if allpass else {"D": "L2", "L": "D2", "D2": "L", "L2": "D"}
                    for name, (st, p, own) in obs.items():
                        if st != "ok" or p != "k" + ids[peer[name]]:
                            v("reject-valid", f"untampered handshake: {name} must return ok for k{ids[peer[name]]}, got {st}:{p}", i)
                else:
                    # with a swap in play the two sessions are re-routed: a `from2` copy may then be exactly the message
                    # its receiver's actual counterpart sent (legitimate); only the binding rule above applies to it
                    has_swap = any(x == "swap" for x in acts.values())
                    recv = {1: "L", 2: "D", 3: "L"}
                    for k, act in acts.items():
                        if act not in ("pass", "swap") and not (act == "from2" and has_swap) and obs[recv[k]][0] == "ok":
                            v("tamper-accepted", f"message {k} was altered ({act}) but its receiver {recv[k]} returned {out[i]!r}", i)
                    if not has_swap:
                        if obs["D"][0] == "ok" and obs["L"][0] == "ok":
                            v("tamper-connection", "both sides of a tampered session returned a socket", i)
            elif t[0] == "rg":
                a = kvs(t[1:])
                st, p, own = side(kvs(o.split())["V"])
                honest = a["pk"].startswith("k") and a["sig"] == "own" + a["pk"][1:]
                if st == "ok":
                    if own != "r":
                        v("wrong-identity", f"victim bound to a static key that is not the rogue's: {o!r}", i)
                    if not honest or p != a["pk"]:
                        v("forged-accepted", f"victim accepted identity {p} from a rogue advertising {a['pk']} with signature {a['sig']}", i)
                elif honest:
                    v("reject-valid", f"a peer that signed its own static key with the advertised key was rejected: {o!r}", i)
            elif t[0] == "nc":
                a = kvs(t[1:])
                obs = {k: side(x) for k, x in kvs(o.split()).items()}
                # an expectation in SHA2-256 form (h<k>) is compared structurally with the identity-form id the handshake
                # derives: it never matches — for k != l the property demands the rejection, for k == l (same key, other
                # representation) the code rejects as well (observed; Props/C01 dialed_mismatch_any_address_family)
                mismatch = a["dialed"] not in ("none", a["l"])
                same_key_other_form = a["dialed"] == "h" + a["l"]
                tampered = "flip" in a
                if same_key_other_form and not tampered:
                    # the property allows both answers (the node proved the dialed KEY); only a foreign identity is wrong
                    if obs["D"][0] == "ok" and obs["D"][1] not in ("k" + a["l"], "h" + a["l"]):
                        v("wrong-identity", f"connection reported for {obs['D'][1]}, the listener proved k{a['l']}", i)
                elif mismatch or tampered:
                    for name, (st, p, own) in obs.items():
                        if st == "ok":
                            v("connection", f"{name} reported a connection ({o!r}) although "
                              f"{'the dialed peer differs' if mismatch else 'message 3 was altered'}", i)
                    if mismatch and not tampered and obs["D"][:2] != ("err", "peer-id-mismatch"):
                        v("error-class", f"dialer expected PeerIdMismatch, got {o!r}", i)
                else:
                    if obs["D"][:2] != ("ok", "k" + a["l"]) or obs["L"][:2] != ("ok", "k" + a["d"]):
                        v("reject-valid", f"honest connection with matching dialed peer failed: {o!r}", i)
            elif t[0] == "tp":
                a = kvs(t[1:])
                if not o.startswith("D=") or o[2:] in TP_ENV:
                    continue            # the sandbox could not resolve / reach / schedule: a distinct observation, no verdict
                first, _, epart = o[2:].partition(" ")
                what, _, rest = first.partition(":")
                connected = what in ("opened", "established")      # (the `ep=` part is C10's subject: tp_endpoint_oracle)
                where = f"TcpTransport::{a['via']} with a /{a['host']}/ address"
                if a["exp"] == "h" + a["l"]:
                    # same key, SHA2-256 representation: the property allows a rejection as well as a connection for that key
                    if connected and rest not in ("k" + a["l"], "h" + a["l"]):
                        v("wrong-identity", f"{where}: connection reported for {rest}, the listener is k{a['l']}", i)
                elif a["exp"] not in ("none", a["l"]):
                    if connected:
                        v("connection", f"{where} naming the peer of key {a['exp']} yielded a connection ({o!r}) although the "
                          f"node there proved the identity of key {a['l']}", i)
                    elif rest != "peer-id-mismatch":
                        v("error-class", f"{where}: expected PeerIdMismatch, got {o!r}", i)
                else:
                    if connected and rest != "k" + a["l"]:
                        v("wrong-identity", f"{where}: connection reported for {rest}, the listener is k{a['l']}", i)
                    elif not connected:
                        v("reject-valid", f"{where} {'naming the listener' if a['exp'] != 'none' else 'without /p2p'} failed: {o!r}", i)
        except (ValueError, IndexError, KeyError, TypeError):
            continue
    return bad


def stats(case, out, acc):
    tcp_poll.stats(case, out, acc)
    for op, o in zip(case, out):
        t = op.split("#")
        w = t[0].split()
        if not w:
            continue
        if w[0] == "pv":
            bump(acc, "pv:" + (t[1].strip() if len(t) > 1 else "?") + ":" + " ".join(o.split()[:2] if o.startswith("err") else o.split()[:1]))
        elif w[0] == "hs":
            a, acts = hs_args(w[1:])
            for k, x in acts.items():
                bump(acc, f"hs:m{k}:{x.split(':')[0]}")
            for x in o.split():
                bump(acc, "hs:" + x.split("=")[0][0] + ":" + x.split("=")[1].split("@")[0].split(":k")[0])
            if "d2" in a:
                bump(acc, "hs:two-sessions")
        elif w[0] == "rg":
            bump(acc, "rg:" + o.split()[0].split("@")[0].split(":k")[0])
        elif w[0] == "nc":
            bump(acc, "nc:" + " ".join(x.split("@")[0].split(":k")[0] for x in o.split()))
        elif w[0] == "tp":
            a = kvs(w[1:])
            exp = "none" if a.get("exp") == "none" else "listener" if a.get("exp") == a.get("l") else \
                "listener-sha256" if a.get("exp") == "h" + str(a.get("l")) else "other-sha256" if str(a.get("exp")).startswith("h") else "other"
            bump(acc, f"tp:{a.get('via')}:{a.get('host')}:exp-{exp}:" + o.split(":k")[0])
    bump(acc, "cases")


def nontrivial(case, out):
    return any(("ok " in o or "ok:" in o or "opened:" in o or "established:" in o) for o in out) and \
        any(("err" in o or "fail:" in o) for o in out)


def matches_known(k, v):
    return False
