"""C03 — multistream-select negotiation (models: Model/Mss/*.lean, adapter: src/verif/c03.rs)."""
ID = "C03"
AREA = "c03"
LEAN_PROPS = "Litep2pVerif.Props.C03"
THEOREMS = []
_P = "src/multistream_select/protocol.rs"
_L = "src/multistream_select/length_delimited.rs"
CONST_TABLE = [
    ("MSS_MAX_PROTOCOLS", _P, r"const MAX_PROTOCOLS: usize = ([^;]+);", 1000),
    ("MSS_MAX_LEN_BYTES", _L, r"const MAX_LEN_BYTES: u16 = ([^;]+);", 2),
    # MAX_FRAME_SIZE = (1 << (MAX_LEN_BYTES * 8 - MAX_LEN_BYTES)) - 1 : the anchor is the whole formula
    ("MSS_MAX_FRAME_SIZE_MINUS", _L,
     r"const MAX_FRAME_SIZE: u16 = \(1 << \(MAX_LEN_BYTES \* 8 - MAX_LEN_BYTES\)\) - ([^;]+);", 1),
]
