"""C03 — multistream-select negotiation (models: Model/Mss/*.lean, adapter: src/verif/c03.rs)."""
import random

from .common import bump

ID = "C03"
AREA = "c03"
LEAN_PROPS = "Litep2pVerif.Props.C03"
THEOREMS = ["msg_roundtrip", "varint_roundtrip", "framing_transparent", "framing_progress", "framing_writer_exact",
            "flush_reaches_peer", "flush_completes", "negotiate_terminates", "negotiate_confluent", "negotiate_agree", "into_inner_safe",
            "webrtc_safe", "webrtc_agree", "fallback_reported_as_main"]
CONSTS = ["MSS_MAX_PROTOCOLS", "MSS_MAX_LEN_BYTES", "MSS_MAX_FRAME_SIZE_MINUS", "MSS_MSG_MULTISTREAM_1_0",
          "MSS_MSG_PROTOCOL_NA", "MSS_MSG_LS", "MSS_PROTO_MULTISTREAM_1_0"]
_P = "src/multistream_select/protocol.rs"
_L = "src/multistream_select/length_delimited.rs"
CONST_TABLE = [
    ("MSS_MAX_PROTOCOLS", _P, r"const MAX_PROTOCOLS: usize = ([^;]+);", 1000),
    ("MSS_MAX_LEN_BYTES", _L, r"const MAX_LEN_BYTES: u16 = ([^;]+);", 2),
    # MAX_FRAME_SIZE = (1 << (MAX_LEN_BYTES * 8 - MAX_LEN_BYTES)) - 1 : the anchor is the whole formula
    ("MSS_MAX_FRAME_SIZE_MINUS", _L,
     r"const MAX_FRAME_SIZE: u16 = \(1 << \(MAX_LEN_BYTES \* 8 - MAX_LEN_BYTES\)\) - ([^;]+);", 1),
    # the literal byte strings of the protocol (fifth element: the group is a Rust byte-string literal)
    ("MSS_MSG_MULTISTREAM_1_0", _P, r'const MSG_MULTISTREAM_1_0: &\[u8\] = b"((?:[^"\\]|\\.)*)";',
     b"/multistream/1.0.0\n", "bytes"),
    ("MSS_MSG_PROTOCOL_NA", _P, r'const MSG_PROTOCOL_NA: &\[u8\] = b"((?:[^"\\]|\\.)*)";', b"na\n", "bytes"),
    ("MSS_MSG_LS", _P, r'const MSG_LS: &\[u8\] = b"((?:[^"\\]|\\.)*)";', b"ls\n", "bytes"),
    ("MSS_PROTO_MULTISTREAM_1_0", _P,
     r'const PROTO_MULTISTREAM_1_0: Protocol = Protocol\(Bytes::from_static\(b"((?:[^"\\]|\\.)*)"\)\);',
     b"/multistream/1.0.0", "bytes"),
]
MANIFEST = {
    "text": "Lean 4 theorems about executable models of the multistream-select code: Message encode/decode round trip "
            "(msg_roundtrip, varint_roundtrip); the LengthDelimited reader returns exactly the frames written and consumes "
            "exactly their bytes for every chunking and Pending placement, returns every frame once the carrier has made as "
            "many non-Pending deliveries as the frames have bytes (measure: frame bytes in flight), and the writer loses "
            "nothing (framing_transparent, framing_progress, framing_writer_exact); the carrier's write half has a staging "
            "buffer (write-behind transports such as a noise socket or a buffered websocket stream: bytes accepted by poll_write "
            "reach the peer only when the carrier's own poll_flush completes) and Sink::poll_flush of LengthDelimited "
            "(poll_write_buffer, then the inner poll_flush whose answer is returned) is modelled poll by poll: for every "
            "schedule of inner write choices and every schedule of Pending/Ready answers of the inner flush, from every state "
            "(including an empty write buffer with bytes still staged by an earlier Pending poll) and for any number of polls, "
            "Ready(Ok) means that every byte written before is visible to the peer, nothing is staged and the write buffer is "
            "empty (flush_reaches_peer), before that a write-behind carrier shows the peer nothing (framing_transparent), and a "
            "flush that is polled again returns Ready once the carrier takes the bytes and completes one flush (flush_completes, "
            "measure |write schedule| + |flush schedule|); the composition of DialerSelectFuture (V1 "
            "and V1Lazy, incl. Negotiated::expecting) and ListenerSelectFuture over two FIFO channels terminates under an "
            "explicit measure, is confluent, and every maximal execution ends with both sides reporting the dialer's first "
            "supported name or both failing (negotiate_terminates, negotiate_confluent, negotiate_agree, into_inner_safe; a "
            "flush step of the composition is the re-polled byte-level flush, which delivers everything at once on a "
            "write-behind carrier and is assumed to complete: flush_completes); the "
            "message-based pair WebRtcDialerState::{propose, propose_next_fallback, register_response} / "
            "webrtc_listener_negotiate ends, for every main name (<= MAX_FRAME_SIZE-23 bytes), fallback list (<= MAX_FRAME_SIZE-3 "
            "bytes each), listener list and every grouping of the messages into payloads, with Succeeded(p)/Accepted(p) for the "
            "first supported name in the order main, fallbacks as given, or with failure/never-accepted (webrtc_agree, by "
            "induction over the fallback list with encode/decode lemmas of the payload format), and for arbitrary malformed "
            "payloads the listener accepts only supported names and the dialer succeeds only on the name it proposes "
            "(webrtc_safe); ProtocolSet::new + report_substream_open report a fallback name to its main protocol with "
            "fallback=Some(name), a main name as itself, anything else as unsupported (fallback_reported_as_main). Tie: the "
            "real futures run against each other, against scripted raw peers and against the reference implementation "
            "multistream-select 0.13.0 in either role (both versions) over an in-memory duplex with scripted chunking/Pending, "
            "write-through or write-behind per direction (wb: written bytes are staged until a poll_flush of that end returns "
            "Ready; scripted Pending answers of the flush exactly at the negotiation frames), with test applications that "
            "close after writing, await the peer's payload before closing, or read the request first; the real LengthDelimited "
            "sink / LengthDelimitedReader is also driven poll by poll (sink) and compared with the byte-level model; "
            "the message-based functions and the real ProtocolSet::report_substream_open are driven through the adapter; all "
            "compared with the model; the literal byte strings (/multistream/1.0.0\\n, na\\n, ls\\n, the header protocol "
            "name) and the numeric limits are extracted from the Rust sources on every run.",
    "note": "Trusted: Lean kernel; axioms propext/Classical.choice/Quot.sound; the hand-written models and their tie (sampled "
            "differential runs through adapter src/verif/c03.rs and harness/src/local/c03ref.rs); the byte-level composition "
            "in Driver/C03.lean; wPair/the adapter's wpair as the rendering of transport/webrtc/connection.rs (that file is "
            "not compiled without the webrtc feature). A fallback name registered under two protocols is resolved by "
            "HashMap iteration order in ProtocolSet::new: excluded by hypothesis (and answered bad-op by the adapter).",
    "technique": "Lean 4 proof (invariant + confluence + measure + induction) + model/implementation correspondence check "
                 "+ reference-implementation differential run",
    "design_ref": "DESIGN.md §7 C03",
}
RULE = ("seeded cases of 1-6 operations: enc/dec of grammar-generated and mutated messages; negotiate (real dialer and listener "
        "futures against each other, V1 and V1Lazy, name lists from a grammar with disjoint/nested/long/duplicate/fallback/"
        "invalid names, random chunk sizes incl. 1-byte chunks and Pending injections on all four stream halves, random poll "
        "order, payloads written right after negotiation); every fifth case runs over a WRITE-BEHIND carrier on one or both "
        "directions (negotiate/refneg/dial/listen with dwb/lwb/wb=1: bytes accepted by poll_write are staged until a poll_flush "
        "of that end returns Ready) with flush scripts of 0-3 Pendings in front of each Ready, i.e. exactly at the flushes of the "
        "negotiation frames and of the payload, and with the applications awaiting the peer's payload before closing (wrx) or the "
        "listener reading the request first (rw); sink (the real LengthDelimited Sink and LengthDelimitedReader over the staging "
        "carrier poll by poll: start_send, poll_flush, poll_close, into_reader, poll_write; oracle: Ready(Ok) from a flush/close "
        "poll means every byte written before is visible to the peer, and the carrier got a prefix of what was written in "
        "order); dial/listen against a scripted raw peer (well-formed transcripts with "
        "trailing application bytes, and mutated/truncated ones); refneg (the real dialer resp. listener against the "
        "listener resp. dialer of multistream-select 0.13.0, same scripting); the message-based pair and its functions "
        "(names at the exact length bounds); report (real ProtocolSet with 0-4 protocols and 0-3 fallback names each, "
        "negotiated name main/fallback/foreign/unknown). A case is "
        "non-trivial if a negotiation succeeded or a message decoded; distinct = distinct (ops, observations) by SHA-256")
TRUSTED_BASE = ["Lean 4.33 kernel", "axioms: propext, Classical.choice, Quot.sound only",
                "hand-written models Model/Mss/{Message,Framing,Negotiate,WebRtc}.lean tied to the Rust code by this correspondence run",
                "adapter /repo/src/verif/c03.rs (in-memory duplex, hand-polled futures), harness (local area c03: "
                "harness/src/local/c03ref.rs with multistream-select 0.13.0 from the cargo registry), verif.py, checks/c03.py",
                "Driver/C03.lean byte-level composition (machines + specification-level frame parser + test application)",
                "unsigned-varint 0.8 decode!/encode modelled by hand (tied by dec/wlisten/wresp on malformed bytes)"]
ASSUMPTIONS = ["the carrier is a reliable FIFO byte stream that accepts or delivers at least one byte when it is not Pending",
               "the carrier may stage written bytes until its poll_flush completes (write-behind); a flush (or close) that is "
               "polled again after Pending eventually returns Ready, and a Pending registers a wake-up; closing a carrier "
               "flushes what it stages; bytes staged in an end that is dropped without a completed flush are lost",
               "V1Lazy: application data written before the confirmation does not itself parse as a multistream-select "
               "message (documented pitfall of Version::V1Lazy); such cases are compared with the model but not judged",
               "names given to the message-based functions, to ProtocolSet and to the reference implementation are UTF-8 "
               "(ProtocolName is a string type)",
               "a fallback name belongs to at most one installed protocol and installed main names are distinct "
               "(ProtocolSet::new collects into hash maps; otherwise iteration order decides)",
               "framing_progress: the carrier makes at least as many non-Pending deliveries (>= 1 byte each) as the frames "
               "have bytes, and the reader is polled again after every Pending",
               "a write to a peer that has dropped its end is accepted and discarded (as TCP does before the reset arrives)"]
KEEP_PREFIX = 0

MULTISTREAM = b"/multistream/1.0.0"
MAX_FRAME = 16383


def hx(b):
    return b.hex() if b else "-"


def hl(names):
    return ",".join(hx(n) for n in names) if names else "-"


def uvi(n):
    out = bytearray()
    while n >= 128:
        out.append(n % 128 + 128)
        n //= 128
    out.append(n)
    return bytes(out)


def frame(b):
    return uvi(len(b)) + b


def enc_msg(m):
    k = m[0]
    if k == "header":
        return MULTISTREAM + b"\n"
    if k == "ls":
        return b"ls\n"
    if k == "na":
        return b"na\n"
    if k == "proto":
        return m[1] + b"\n"
    return b"".join(uvi(len(p) + 1) + p + b"\n" for p in m[1]) + b"\n"


def show_msg(m):
    if m[0] in ("header", "ls", "na"):
        return m[0]
    if m[0] == "proto":
        return "proto:" + hx(m[1])
    return "protos:" + hl(m[1])


def valid_name(n):
    return n.startswith(b"/") and b"\n" not in n and n != MULTISTREAM and len(n) + 1 <= MAX_FRAME


BASE = [b"/a", b"/b", b"/c", b"/a/b", b"/a/b/c", b"/proto/1.0.0", b"/proto/1.0.0/x", b"/ipfs/kad/1.0.0",
        b"/net/req/1", b"/net/req/2", b"/net/req/legacy", b"/", b"//", b"/" + b"y" * 45, b"/" + b"z" * 126,
        b"/" + b"w" * 127, b"/x y", b"/na", b"/ls"]
LONG = [b"/" + b"L" * (MAX_FRAME - 2), b"/" + b"M" * (MAX_FRAME - 3), b"/" + b"N" * 300]
TOO_LONG = [b"/" + b"T" * (MAX_FRAME - 1)]
INVALID = [b"noslash", b"", b"/a\nb", MULTISTREAM, b"a/"]


def pick_name(rng):
    r = rng.random()
    if r < 0.86:
        return rng.choice(BASE[:11]) if rng.random() < 0.8 else rng.choice(BASE)
    if r < 0.92:
        return rng.choice(LONG)
    if r < 0.94:
        return rng.choice(TOO_LONG)
    if r < 0.97:
        return rng.choice(INVALID)
    return b"/" + bytes(rng.choice(b"abc/12.") for _ in range(rng.randrange(0, 6)))


def name_list(rng, lo, hi):
    return [pick_name(rng) for _ in range(rng.randrange(lo, hi + 1))]


def script(rng):
    r = rng.random()
    if r < 0.2:
        return "-"
    n = rng.randrange(1, 60)
    if r < 0.4:
        return ",".join("1" for _ in range(n))
    if r < 0.6:
        return ",".join(rng.choice(["0", "1"]) for _ in range(n))
    return ",".join(str(rng.choice([0, 0, 1, 1, 2, 3, 5, 17, 64, 20000])) for _ in range(n))


def payload(rng):
    r = rng.random()
    if r < 0.15:
        return b""
    if r < 0.25:
        return frame(rng.choice([b"ls\n", b"/b\n", b"/a\n", b"na\n", MULTISTREAM + b"\n"]))
    return bytes(rng.randrange(256) for _ in range(rng.randrange(1, 24)))


def first_common(dialer, listener):
    sup = [n for n in listener if n.startswith(b"/")]
    for p in dialer:
        if p in sup:
            return p
    return None


def op_negotiate(rng):
    ver = rng.choice(["v1", "lazy"])
    r = rng.random()
    dialer = name_list(rng, 0 if r < 0.05 else 1, 4)
    listener = name_list(rng, 0, 4)
    if rng.random() < 0.5 and dialer:
        listener.insert(rng.randrange(len(listener) + 1), rng.choice(dialer))
    if rng.random() < 0.15:
        dialer = dialer + [rng.choice(dialer)] if dialer else dialer
    order = "".join(rng.choice("dl") for _ in range(rng.randrange(1, 12)))
    return (f"negotiate ver={ver} dialer={hl(dialer)} listener={hl(listener)} dpay={hx(payload(rng))} lpay={hx(payload(rng))} "
            f"dr={script(rng)} dw={script(rng)} lr={script(rng)} lw={script(rng)} order={order}"
            + (" vec=1" if rng.random() < 0.3 else ""))      # application payload through vectored writes


REF_NAMES = [n for n in BASE if valid_name(n)] + [b"/" + b"N" * 300, b"/" + b"L" * (MAX_FRAME - 2)]


def op_refneg(rng):
    """The real litep2p dialer (listener) against the listener (dialer) of the reference implementation
    multistream-select 0.13.0 over the same scripted duplex. Names are valid UTF-8 names (the reference takes strings)."""
    role = rng.choice(["dial", "listen"])
    ver = rng.choice(["v1", "lazy"])
    pick = lambda: rng.choice(REF_NAMES[:11]) if rng.random() < 0.85 else rng.choice(REF_NAMES)
    dialer = [pick() for _ in range(rng.randrange(1, 5))]
    listener = [pick() for _ in range(rng.randrange(0, 5))]
    if rng.random() < 0.5:
        listener.insert(rng.randrange(len(listener) + 1), rng.choice(dialer))
    if rng.random() < 0.15:
        dialer = dialer + [rng.choice(dialer)]
    order = "".join(rng.choice("dl") for _ in range(rng.randrange(1, 12)))
    return (f"refneg role={role} ver={ver} dialer={hl(dialer)} listener={hl(listener)} dpay={hx(payload(rng))} "
            f"lpay={hx(payload(rng))} dr={script(rng)} dw={script(rng)} lr={script(rng)} lw={script(rng)} order={order}")


def op_scripted(rng):
    """Our side against a raw peer: a well-formed transcript (plus trailing application bytes), or a damaged one."""
    role = rng.choice(["dial", "listen"])
    ver = rng.choice(["v1", "lazy"])
    ours = [n for n in name_list(rng, 1, 4)]
    theirs = name_list(rng, 0, 3)
    if rng.random() < 0.6:
        theirs.append(rng.choice(ours))
    trailing = bytes(rng.randrange(256) for _ in range(rng.randrange(0, 12)))
    pay = payload(rng)
    good = all(valid_name(n) for n in ours) if role == "dial" else True
    if role == "dial":
        # the peer is a listener supporting `theirs`
        peer = frame(enc_msg(("header",)))
        expect = None
        for p in ours:
            if p in theirs:
                peer += frame(enc_msg(("proto", p)))
                expect = p
                break
            peer += frame(enc_msg(("na",)))
    else:
        # the peer is a dialer proposing `theirs` in order (it knows our answers in advance)
        sup = [n for n in ours if n.startswith(b"/")]
        theirs = [n for n in theirs if valid_name(n)]
        peer = frame(enc_msg(("header",)))
        expect = None
        for p in theirs:
            peer += frame(enc_msg(("proto", p)))
            if p in sup:
                expect = p
                break
    x = "none"
    if rng.random() < 0.35:
        # damage the transcript
        good = False
        k = rng.random()
        if k < 0.3 and peer:
            peer = peer[:rng.randrange(len(peer))]
        elif k < 0.6 and peer:
            i = rng.randrange(len(peer))
            peer = peer[:i] + bytes([rng.randrange(256)]) + peer[i + 1:]
        elif k < 0.8:
            i = rng.randrange(len(peer) + 1)
            peer = peer[:i] + frame(rng.choice([b"ls\n", b"na\n", b"\n", b"", MULTISTREAM + b"\n", b"\xff\xff"])) + peer[i:]
        else:
            peer = bytes(rng.randrange(256) for _ in range(rng.randrange(0, 30)))
    elif expect is not None and good:
        peer += trailing
        x = "ok:" + hx(expect) + ":" + hx(trailing)
    elif good:
        x = "fail"
    return (f"{role} ver={ver} protos={hl(ours)} peer={hx(peer)} pay={hx(pay)} r={script(rng)} w={script(rng)} x={x}")


def rand_msg(rng):
    k = rng.random()
    if k < 0.1:
        return ("header",)
    if k < 0.2:
        return ("ls",)
    if k < 0.3:
        return ("na",)
    if k < 0.65:
        return ("proto", pick_name(rng))
    if k < 0.68:
        return ("protos", [b"/p%d" % i for i in range(rng.choice([999, 1000, 1001]))])
    if k < 0.74:
        # names whose length (with and without the newline) sits on an unsigned-varint width boundary:
        # `encoded_len` and `encode` must agree there too (seeded change C19-c2)
        return ("protos", [b"/" + b"v" * (rng.choice([126, 127, 128, 16382, 16383, 16384]) - 1)
                           for _ in range(rng.choice([1, 1, 2, 3]))] + name_list(rng, 0, 2))
    return ("protos", name_list(rng, 0, 5))


def wf_msg(m):
    if m[0] == "proto":
        return m[1].startswith(b"/") and b"\n" not in m[1] and m[1] != MULTISTREAM
    if m[0] == "protos":
        return len(m[1]) <= 1000 and all(p.startswith(b"/") for p in m[1])
    return True


def constructible(m):
    if m[0] == "proto":
        return m[1].startswith(b"/")
    if m[0] == "protos":
        return all(p.startswith(b"/") for p in m[1])
    return True


ODD = [b"", b"\n", b"\x80", b"\xff" * 10 + b"\x01", b"\x80\x00/a\n\n", b"\x00\n", b"\x03/a\n", b"\x02a\n\n", b"/",
       b"/\n", b"\n\n", b"\x01\n\n", b"\xff" * 9 + b"\x7f/a\n\n", b"\xff" * 9 + b"\x01", b"\x83\x00/a\n\n",
       b"\x03/a\n\x03/b\n", b"/multistream/1.0.0\n\n", b"na\n\n", b"/a\n/b\n"]


def ops_codec(rng):
    m = rand_msg(rng)
    ops = [f"enc {show_msg(m)}"]
    if constructible(m):
        ops.append(f"dec {hx(enc_msg(m))}")
    k = rng.random()
    b = enc_msg(m)
    if k < 0.3 and b:
        i = rng.randrange(len(b))
        ops.append(f"dec {hx(b[:i] + bytes([rng.randrange(256)]) + b[i + 1:])}")
    elif k < 0.5:
        ops.append(f"dec {hx(b[:rng.randrange(len(b) + 1)])}")
    elif k < 0.7:
        ops.append(f"dec {hx(bytes(rng.randrange(256) for _ in range(rng.randrange(0, 16))))}")
    elif k < 0.8:
        ops.append(f"dec {hx(rng.choice(ODD))}")
    if rng.random() < 0.3 and constructible(m):
        ops.append(f"wenc {show_msg(m)} {rng.choice([0, 1])}")
    return ops


def wname(rng):
    r = rng.random()
    if r < 0.85:
        return rng.choice(BASE[:11])
    if r < 0.9:
        return rng.choice(LONG + TOO_LONG + [b"/" + b"q" * (MAX_FRAME - 25), b"/" + b"q" * (MAX_FRAME - 24), b"/" + b"q" * (MAX_FRAME - 5),
                           b"/" + b"q" * (MAX_FRAME - 23), b"/" + b"q" * (MAX_FRAME - 4)])
    if r < 0.95:
        return rng.choice([b"noslash", b"/a\nb", MULTISTREAM])
    return rng.choice(BASE)


def wmsgs(rng, msgs):
    return b"".join(frame(enc_msg(m)) for m in msgs)


def ops_webrtc(rng):
    main = wname(rng)
    fb = [wname(rng) for _ in range(rng.randrange(0, 4))]
    sup = [wname(rng) for _ in range(rng.randrange(0, 4))]
    if rng.random() < 0.5:
        sup.append(rng.choice([main] + fb))
    k = rng.random()
    if k < 0.5:
        return [f"wpair main={hx(main)} fb={hl(fb)} sup={hl(sup)} split={rng.randrange(0, 64)}"]
    if k < 0.75:
        choices = [[("header",), ("proto", main)], [("header",)], [("proto", main)], [("ls",)], [("na",)],
                   [("header",), ("ls",)], [("header",), ("proto", main), ("na",)], [("header",), ("header",)],
                   [("protos", [main])], []]
        p = wmsgs(rng, rng.choice(choices))
        r = rng.random()
        if r < 0.2 and p:
            p = p[:rng.randrange(len(p))]
        elif r < 0.3:
            p += bytes([rng.randrange(256)])
        elif r < 0.35:
            p = bytes(rng.randrange(256) for _ in range(rng.randrange(0, 12)))
        return [f"wlisten hr={rng.choice([0, 1])} sup={hl(sup)} payload={hx(p)}"]
    ops = [f"wpropose main={hx(main)} fb={hl(fb)}"]
    for _ in range(rng.randrange(1, 6)):
        if rng.random() < 0.3:
            ops.append("wnext")
        else:
            cur = rng.choice([main] + fb)
            near = rng.choice([cur[:max(1, len(cur) - 1)], cur + b"x", cur[:1], cur + b"/"])     # a prefix / an extension
            choices = [[("header",)], [("header",), ("proto", cur)], [("header",), ("na",)], [("proto", cur)], [("na",)],
                       [("ls",)], [("header",), ("header",)], [("proto", b"/other")], [("protos", [cur])], [],
                       [("header",), ("na",), ("proto", cur)], [("header",), ("proto", near)], [("proto", near)]]
            p = wmsgs(rng, rng.choice(choices))
            r = rng.random()
            if r < 0.1 and p:
                p = p[:rng.randrange(len(p))]
            elif r < 0.2:
                p += bytes(rng.randrange(256) for _ in range(rng.randrange(1, 4)))
            elif r < 0.25:
                p = bytes(rng.randrange(256) for _ in range(rng.randrange(0, 12)))
            ops.append(f"wresp {hx(p)}")
    return ops


def utf8_name(rng):
    r = rng.random()
    if r < 0.8:
        return rng.choice(BASE[:11])
    if r < 0.9:
        return rng.choice(BASE)
    return b"/" + bytes(rng.choice(b"abc/12.") for _ in range(rng.randrange(0, 4)))


def show_installed(installed):
    return ",".join(";".join(hx(n) for n in [m] + fbs) for m, fbs in installed) if installed else "-"


def ops_report(rng):
    """Install 0-4 protocols with 0-3 fallback names each and report substreams negotiated under main names,
    fallback names, names of other protocols and unknown names."""
    installed = []
    for _ in range(rng.randrange(0, 5)):
        installed.append((utf8_name(rng), [utf8_name(rng) for _ in range(rng.randrange(0, 4))]))
    r = rng.random()
    if r < 0.85:
        # the common configuration: distinct mains, a fallback name belongs to one protocol
        seen, clean = set(), []
        for m, fbs in installed:
            if m in seen:
                continue
            seen.add(m)
            clean.append((m, fbs))
        taken = set() if rng.random() < 0.2 else {m for m, _ in clean}    # sometimes a fallback = another main
        installed = []
        for m, fbs in clean:
            keep = []
            for f in fbs:
                if f not in taken:
                    keep.append(f)
            taken |= set(keep)
            installed.append((m, keep))
    ops = []
    names = [m for m, _ in installed] + [f for _, fbs in installed for f in fbs]
    for _ in range(rng.randrange(1, 5)):
        neg = rng.choice(names) if names and rng.random() < 0.8 else utf8_name(rng)
        ops.append(f"report protos={show_installed(installed)} neg={hx(neg)}")
    return ops


def flush_script(rng, flushes=None):
    """Answers of successive inner `poll_flush` calls: for each of the next few flush operations of an end, a run of
    0-3 `Pending`s (0) and then the `Ready` (1) — the Pendings sit exactly where the negotiation frames (and later the
    payload) are flushed; a caller that polls again consumes the run one by one."""
    out = []
    for _ in range(flushes if flushes is not None else rng.randrange(1, 7)):
        out += ["0"] * rng.choice([0, 1, 1, 1, 2, 3]) + ["1"]
    if rng.random() < 0.15:
        out = ["0"] * rng.randrange(1, 5) + out
    return ",".join(out)


def wb_args(rng, refneg_role=None):
    """Write-behind carrier on one or both directions, flush scripts for both ends, and the order in which the test
    applications read and write (the peer's payload awaited before closing / the listener reading the request first)."""
    which = rng.choice(["d", "l", "dl", "dl"])
    a = ""
    if "d" in which:
        a += " dwb=1"
    if "l" in which:
        a += " lwb=1"
    a += f" df={flush_script(rng)} lf={flush_script(rng)}"
    r = rng.random()
    # the reference side runs its own (write-first) application: modes only for the litep2p side
    dmodes = ["wrx"] if refneg_role in (None, "dial") else []
    lmodes = ["wrx", "rw"] if refneg_role in (None, "listen") else []
    if r < 0.6:
        if dmodes and rng.random() < 0.6:
            a += " dapp=" + rng.choice(dmodes)
        if lmodes and rng.random() < 0.6:
            a += " lapp=" + rng.choice(lmodes)
    return a


def calm(rng):
    """A write script for write-behind cases: often none, so that the flush answers alone decide."""
    return "-" if rng.random() < 0.5 else script(rng)


def op_negotiate_wb(rng):
    """`negotiate` over a write-behind carrier: short name lists (one to three rounds), Pending flushes at the frames."""
    ver = rng.choice(["v1", "lazy"])
    dialer = [rng.choice(BASE[:11]) for _ in range(rng.randrange(1, 4))]
    listener = [rng.choice(BASE[:11]) for _ in range(rng.randrange(0, 3))]
    if rng.random() < 0.7:
        listener.insert(rng.randrange(len(listener) + 1), rng.choice(dialer))
    if rng.random() < 0.1:
        dialer[rng.randrange(len(dialer))] = rng.choice(LONG)
    order = "".join(rng.choice("dl") for _ in range(rng.randrange(1, 12)))
    return (f"negotiate ver={ver} dialer={hl(dialer)} listener={hl(listener)} dpay={hx(payload(rng))} lpay={hx(payload(rng))} "
            f"dr={calm(rng)} dw={calm(rng)} lr={calm(rng)} lw={calm(rng)} order={order}"
            + (" vec=1" if rng.random() < 0.2 else "") + wb_args(rng))


def op_refneg_wb(rng):
    base = op_refneg(rng)
    role = kvs(base.split()[1:])["role"]
    return base + wb_args(rng, role)


def op_scripted_wb(rng):
    return op_scripted(rng) + f" wb=1 f={flush_script(rng)}"


def op_sink(rng):
    """The write half of LengthDelimited poll by poll over the (write-behind) carrier: frames, flush polls, optionally the
    conversion into a LengthDelimitedReader with application writes, flush and close polls."""
    ops = []
    r = rng.random()
    def fr():
        k = rng.random()
        if k < 0.1:
            return b""
        if k < 0.16:
            return bytes([rng.randrange(256)]) * rng.choice([MAX_FRAME, MAX_FRAME + 1, MAX_FRAME - 1, 200])
        return bytes(rng.randrange(256) for _ in range(rng.randrange(1, 24)))
    for _ in range(rng.randrange(1, 4)):
        for _ in range(rng.randrange(0, 3)):
            ops.append("s:" + fr().hex())
        ops += ["p"] * rng.randrange(1, 6)
    if r < 0.5:
        ops.append("r")
        for _ in range(rng.randrange(1, 4)):
            ops.append("w:" + bytes(rng.randrange(256) for _ in range(rng.randrange(0, 9))).hex())
            ops += ["p"] * rng.randrange(0, 4)
    if rng.random() < 0.5:
        ops += ["c"] * rng.randrange(1, 5)
    w = "-" if rng.random() < 0.4 else ",".join(str(rng.choice([0, 0, 1, 1, 2, 3, 5, 17, 20000])) for _ in range(rng.randrange(1, 12)))
    return f"sink wb={rng.choice([0, 1, 1])} w={w} f={flush_script(rng, rng.randrange(0, 5)) or '-'} ops={','.join(ops)}"


def gen_wb_case(rng):
    """Cases for the write-behind carrier (a transport that stages writes until its flush completes)."""
    k = rng.random()
    if k < 0.45:
        return [op_negotiate_wb(rng) for _ in range(rng.randrange(1, 3))]
    if k < 0.65:
        return [op_refneg_wb(rng) for _ in range(rng.randrange(1, 3))]
    if k < 0.78:
        return [op_scripted_wb(rng) for _ in range(rng.randrange(1, 3))]
    return [op_sink(rng) for _ in range(rng.randrange(1, 3))]


def gen_case(rng):
    k = rng.random()
    if k < 0.06:
        return ops_report(rng)
    if k < 0.20:
        return [op_refneg(rng) for _ in range(rng.randrange(1, 3))]
    if k < 0.45:
        return [op_negotiate(rng) for _ in range(rng.randrange(1, 3))]
    if k < 0.65:
        return [op_scripted(rng) for _ in range(rng.randrange(1, 3))]
    if k < 0.82:
        return ops_codec(rng)
    return ops_webrtc(rng)


def corpus():
    a, b, c, ab = b"/a", b"/b", b"/c", b"/a/b"
    one = ",".join(["1"] * 80)
    return [
        [f"negotiate ver=v1 dialer={hl([a, b])} listener={hl([b, c])} dpay=0102 lpay=0304 dr={one} dw={one} lr={one} lw={one} order=dl"],
        [f"negotiate ver=lazy dialer={hl([b])} listener={hl([b, c])} dpay=0102 lpay=0304 dr=0,1,0,1 dw=1,0,1 lr=0,0,1 lw=1,1 order=ddlld"],
        [f"negotiate ver=lazy dialer={hl([a])} listener={hl([b, c])} dpay=ffff lpay=0304"],
        [f"negotiate ver=v1 dialer={hl([a, ab])} listener={hl([ab])} dpay=- lpay=-"],
        [f"negotiate ver=v1 dialer={hl([LONG[0]])} listener={hl([LONG[0]])} dpay=01 lpay=02 dr=1,1,1,0,7 lw=3,0,1000"],
        [f"negotiate ver=v1 dialer=- listener={hl([a])}"],
        [f"wpair main={hx(a)} fb={hl([b, c])} sup={hl([c])} split=5"],
        [f"report protos={show_installed([(a, [b, c]), (ab, [])])} neg={hx(n)}" for n in (c, a, ab, b"/zz")],
        [f"refneg role={r} ver={v} dialer={hl([a, b])} listener={hl([b, c])} dpay=0102 lpay=0304 dr={one} dw={one} lr={one} lw={one} order=dl"
         for r in ("dial", "listen") for v in ("v1", "lazy")],
        [f"refneg role={r} ver={v} dialer={hl([a])} listener={hl([b, c])} dpay=ff lpay=0304" for r in ("dial", "listen") for v in ("v1", "lazy")],
        # write-behind carrier: the inner flush is Pending exactly when the negotiation frames are flushed
        [f"negotiate ver={v} dialer={hl([a, b])} listener={hl([b, c])} dpay=0102 lpay=0304 dwb=1 lwb=1 df=0,1,0,0,1 lf=0,1,0,1,0,1"
         for v in ("v1", "lazy")],
        [f"negotiate ver={v} dialer={hl([b])} listener={hl([b, c])} dpay=0102 lpay=0304 dwb=1 lwb=1 df=0,1 lf=0,0,1 dapp=wrx lapp={m}"
         for v in ("v1", "lazy") for m in ("wrx", "rw")],
        [f"refneg role={r} ver={v} dialer={hl([a, b])} listener={hl([b, c])} dpay=0102 lpay=0304 dwb=1 lwb=1 df=0,1,0,1 lf=0,1,0,1"
         for r in ("dial", "listen") for v in ("v1", "lazy")],
        ["sink wb=1 w=1,1,0,5 f=0,0,1 ops=s:0708,p,p,p,p,p,s:09,p,p,c", "sink wb=1 w=- f=0,1 ops=s:0708,r,w:aabb,p,p,c",
         "sink wb=0 w=2,0 f=0 ops=s:0708,p,p,p"],
    ]


def gen_cases(rng, tier):
    n = {"quick": 700, "thorough": 40000, "search": 3000}[tier]
    # the write-behind cases draw from their own stream (derived from the seed without consuming from `rng`), so that
    # the cases of `gen_case` — shared with C19's `extra_cases` — are the same sequence as before
    wb_rng = random.Random(repr(rng.getstate()[1][:8]))
    for i in range(n):
        yield gen_case(rng)
        if i % 4 == 3:
            yield gen_wb_case(wb_rng)


def mutate_case(rng, case, n):
    for _ in range(n):
        c = list(case)
        i = rng.randrange(len(c))
        t = c[i].split()
        if len(t) > 1 and rng.random() < 0.7:
            j = rng.randrange(1, len(t))
            if "=" in t[j] and t[j].split("=")[0] in ("dr", "dw", "lr", "lw", "r", "w"):
                t[j] = t[j].split("=")[0] + "=" + script(rng)
            elif "=" in t[j] and t[j].split("=")[0] in ("df", "lf", "f"):
                t[j] = t[j].split("=")[0] + "=" + (flush_script(rng) or "-")
            elif t[j].split("=")[0] in ("dwb", "lwb", "wb"):
                t[j] = t[j].split("=")[0] + "=" + rng.choice(["0", "1"])
            elif t[j].startswith("ver="):
                t[j] = "ver=" + rng.choice(["v1", "lazy"])
            c[i] = " ".join(t)
        else:
            c[i] = gen_case(rng)[0]
        yield c


def kvs(tokens):
    return dict(t.split("=", 1) for t in tokens if "=" in t)


def unhl(s):
    return [] if s in ("-", "") else [bytes.fromhex(x) if x != "-" else b"" for x in s.split(",")]


def unhx(s):
    return b"" if s == "-" else bytes.fromhex(s)


def first_frame_is_message(b):
    """Does `b` start with a complete frame holding an `ls` request or a protocol line?"""
    if not b:
        return False
    if b[0] < 128:
        n, off = b[0], 1
    elif len(b) >= 2 and b[1] < 128:
        n, off = (b[0] & 0x7F) | (b[1] << 7), 2
    else:
        return False
    body = b[off:off + n]
    if len(body) < n:
        return False
    return body == b"ls\n" or (body.startswith(b"/") and body.endswith(b"\n"))


def oracle(case, out):
    bad = []
    wcur, wrest = None, []       # the message-based dialer of the case: name being proposed, fallbacks left

    def v(kind, msg, i):
        bad.append({"kind": kind, "msg": msg, "step": i, "op": case[i][:300], "out": (out[i] if i < len(out) else None)})

    for i, op in enumerate(case):
        if i >= len(out):
            break
        o = out[i]
        t = op.split()
        if o == "skipped":
            break
        if o.startswith("panic"):
            v("panic", f"panic in {t[0]}: {o[:200]}", i)
            break
        a = kvs(t[1:])
        if t[0] in ("negotiate", "refneg"):
            r = kvs(o.split())
            dialer, listener = unhl(a.get("dialer", "-")), unhl(a.get("listener", "-"))
            dpay, lpay = a.get("dpay", "-"), a.get("lpay", "-")
            if r.get("d") == "stuck" or r.get("l") == "stuck":
                v("no-termination", f"negotiation did not terminate: d={r.get('d')} l={r.get('l')}", i)
                continue
            if not all(valid_name(n) for n in dialer):
                continue            # outside the quantifier (valid dialer names)
            want = first_common(dialer, listener)
            if want is not None:
                ok = "ok:" + hx(want)
                if r.get("d") != ok or r.get("l") != ok:
                    v("disagree", f"first common name is {want!r}: dialer reports {r.get('d')}, listener {r.get('l')}", i)
                    continue
                if r.get("lread") != dpay:
                    v("payload", f"dialer wrote {dpay} after negotiation, listener read {r.get('lread')}", i)
                if r.get("dread") != lpay:
                    v("payload", f"listener wrote {lpay} after negotiation, dialer read {r.get('dread')}", i)
            else:
                if a.get("ver") == "lazy" and first_frame_is_message(unhx(dpay)):
                    continue        # documented V1Lazy pitfall, outside the property
                if not (r.get("d", "").startswith("err") and r.get("l", "").startswith("err")):
                    v("disagree", f"no common name: dialer reports {r.get('d')}, listener {r.get('l')}", i)
        elif t[0] in ("dial", "listen"):
            r = kvs(o.split())
            if r.get("r") == "stuck":
                v("no-termination", "negotiation against a finished peer did not terminate", i)
                continue
            x = a.get("x", "none")
            if x.startswith("ok:"):
                _, name, trailing = x.split(":")
                if r.get("r") != "ok:" + name:
                    v("disagree", f"well-formed peer transcript selecting {name}: we report {r.get('r')}", i)
                elif r.get("read") != trailing:
                    v("payload", f"peer sent {trailing} after negotiation, application read {r.get('read')}", i)
            elif x == "fail":
                if not r.get("r", "").startswith("err:"):
                    v("disagree", f"well-formed transcript without a common name: we report {r.get('r')}", i)
            if r.get("r", "").startswith("ok:"):
                name = unhx(r["r"][3:])
                if name not in unhl(a.get("protos", "-")):
                    v("disagree", f"reported a protocol that was never offered: {r.get('r')}", i)
                elif frame(name + b"\n") not in unhx(a.get("peer", "-")):
                    v("disagree", f"reported {r.get('r')} although the peer never sent that name", i)
        elif t[0] == "sink":
            if o == "bad-op":
                continue
            obs = o.split()[0]
            r = kvs(o.split()[1:])
            ops = [x for x in a.get("ops", "-").split(",") if x and x != "-"]
            res = [] if obs == "-" else obs.split(",")
            sent = b""          # what the writer has been given so far: frames submitted, application bytes accepted
            flagged = False
            for x, y in zip(ops, res):
                if x.startswith("s:") and y == "ok":
                    sent += frame(bytes.fromhex(x[2:]))
                elif x.startswith("w:") and y.startswith("W"):
                    sent += bytes.fromhex(x[2:])[:int(y[1:].split("/")[0])]
                elif x in ("p", "c") and y.startswith("R/") and int(y[2:]) != len(sent) and not flagged:
                    flagged = True
                    v("flush", f"poll_{'flush' if x == 'p' else 'close'} returned Ready(Ok) with {y[2:]} bytes visible to the peer, "
                               f"{len(sent)} were written before", i)
            vis, acc = unhx(r.get("vis", "-")), unhx(r.get("acc", "-"))
            if not (sent.startswith(acc) and acc.startswith(vis)):
                v("payload", f"the carrier got {hx(acc)[:80]} (visible {hx(vis)[:80]}), the writer was given {hx(sent)[:80]}", i)
        elif t[0] == "wpropose":
            if o.startswith("ok:"):
                m_ = unhl(a.get("main", "-"))
                wcur, wrest = (m_[0] if m_ else b""), unhl(a.get("fb", "-"))
        elif t[0] == "wnext":
            if (o.startswith("some:") or o.startswith("err:")) and wrest:
                wcur, wrest = wrest[0], wrest[1:]
        elif t[0] == "wresp":
            if o.startswith("succeeded:") and wcur is not None:
                got = unhx(o.split(":", 1)[1])
                pay = unhx(t[1]) if len(t) > 1 else b""
                if got != wcur:
                    v("webrtc-unsafe", f"dialer proposing {wcur!r} reports success for {got!r}", i)
                elif frame(wcur + b"\n") not in pay:
                    v("webrtc-unsafe", f"dialer proposing {wcur!r} reports success although the peer never confirmed that name", i)
        elif t[0] == "wlisten":
            if o.startswith("accepted:"):
                got = unhx(o.split(":")[1])
                if got not in unhl(a.get("sup", "-")):
                    v("webrtc-unsafe", f"listener accepted {got!r}, which it does not support", i)
                elif frame(got + b"\n") not in unhx(a.get("payload", "-")):
                    v("webrtc-unsafe", f"listener accepted {got!r}, which was never proposed", i)
        elif t[0] == "report":
            if o == "bad-op":
                continue
            pr = a.get("protos", "-")
            installed = [] if pr in ("-", "") else [[unhx(x) for x in e.split(";")] for e in pr.split(",")]
            neg = unhx(a.get("neg", "-"))
            mains = [e[0] for e in installed]
            owners = [e[0] for e in installed if neg in e[1:]]
            r = kvs(o.split())
            if len(set(mains)) != len(mains) or len(set(owners)) > 1:
                continue            # ambiguous configuration: outside the property
            if owners:
                want = f"ok to={mains.index(owners[0])} main={hx(owners[0])} fb={hx(neg)}"
                if not o.startswith(want + " "):
                    v("fallback-mapping", f"{neg!r} is a fallback name of {owners[0]!r}: want '{want}', got '{o}'", i)
            elif neg in mains:
                want = f"ok to={mains.index(neg)} main={hx(neg)} fb=none"
                if not o.startswith(want + " "):
                    v("fallback-mapping", f"{neg!r} is a main name: want '{want}', got '{o}'", i)
            elif not o.startswith("err:not-supported"):
                v("fallback-mapping", f"{neg!r} is not installed but the report says '{o}'", i)
            offered = len(set(mains) | {f for e in installed for f in e[1:]})
            if r.get("n") != str(offered):
                v("fallback-mapping", f"the connection offers {r.get('n')} names, installed are {offered}", i)
        elif t[0] == "wpair":
            main, fb, sup = unhl(a["main"]), unhl(a.get("fb", "-")), unhl(a.get("sup", "-"))
            names = main + fb
            # the hypotheses of webrtc_agree: main ≤ MAX − 23 bytes (header frame in front), fallbacks ≤ MAX − 3
            if not (all(valid_name(n) for n in names) and len(main) == 1 and len(main[0]) + 23 <= MAX_FRAME
                    and all(len(n) + 3 <= MAX_FRAME for n in fb)):
                continue
            want = next((p for p in names if p in sup), None)
            if want is not None:
                exp = f"d=succeeded:{hx(want)} l=accepted:{hx(want)}"
            else:
                exp = "d=err:failed l=none"
            if o != exp:
                v("webrtc-disagree", f"message-based pair: want {exp}, got {o}", i)
        elif t[0] == "enc" and i + 1 < len(case) and i + 1 < len(out) and case[i + 1].startswith("dec "):
            m = t[1]
            if m.startswith("proto:") or m.startswith("protos:"):
                names = unhl(m.split(":", 1)[1])
                msg = ("proto", names[0]) if m.startswith("proto:") and names else ("protos", names)
                if m.startswith("proto:") and not names:
                    continue
            else:
                msg = (m,)
            if not wf_msg(msg) or o.startswith("err:"):
                continue
            if o != hx(enc_msg(msg)):
                v("encode", f"encoding of {m[:60]} is {o[:80]}, specification says {hx(enc_msg(msg))[:80]}", i)
            elif case[i + 1] == "dec " + o and out[i + 1] != show_msg(msg):
                v("roundtrip", f"decode(encode({m[:60]})) = {out[i + 1][:80]}", i + 1)
    return bad


def stats(case, out, acc):
    for op, o in zip(case, out):
        t = op.split()
        bump(acc, "op:" + t[0])
        if t[0] in ("negotiate", "refneg"):
            r = kvs(o.split())
            a = kvs(t[1:])
            if t[0] == "refneg" and (a.get("dwb") == "1" or a.get("lwb") == "1"):
                bump(acc, "refneg:write-behind")
            if t[0] == "refneg":
                bump(acc, f"refneg:litep2p-{a.get('role')}:{a.get('ver')}:d={r.get('d', '?')[:3]}:l={r.get('l', '?')[:3]}")
                continue
            bump(acc, f"negotiate:{a.get('ver')}:d={r.get('d', '?')[:3]}:l={r.get('l', '?')[:3]}")
            if a.get("dwb") == "1" or a.get("lwb") == "1":
                bump(acc, "negotiate:write-behind")
                if "0" in (a.get("df", "-") + "," + a.get("lf", "-")).split(","):
                    bump(acc, "negotiate:write-behind:flush-pending")
            for k in ("dr", "dw", "lr", "lw"):
                s = a.get(k, "-")
                if s != "-" and set(s.split(",")) <= {"1"}:
                    bump(acc, "script:all-1-byte")
                if "0" in s.split(","):
                    bump(acc, "script:pending-injected")
            if any(len(n) > 10000 for n in unhl(a.get("dialer", "-"))):
                bump(acc, "negotiate:long-name")
        elif t[0] in ("dial", "listen"):
            bump(acc, f"{t[0]}:{kvs(o.split()).get('r', '?')[:6]}")
        elif t[0] == "sink":
            bump(acc, "sink:" + ("ready" if "R/" in o else "pending-only"))
        elif t[0] == "dec":
            bump(acc, "dec:" + o.split(":")[0][:12])
        elif t[0].startswith("w"):
            bump(acc, f"{t[0]}:{o.split(':')[0][:16]}")
        if o.startswith("panic"):
            bump(acc, "panic")


def nontrivial(case, out):
    return any(" l=ok:" in o or "r=ok:" in o or "R/" in o or o.startswith("proto") or "succeeded" in o or o.startswith("accepted")
               or o.startswith("ok to=") for o in out)


def matches_known(k, v):
    return False


# ---------------------------------------------------------------- real nodes through the public API (engine: extra_cases)
# Which names a protocol proposes, and in which ORDER of preference (main name first, then the fallback names as
# configured), is fixed where `Litep2p::new` (src/lib.rs) registers the protocols: the negotiation can only agree on
# "the dialer's most preferred supported name" if the registered order is the configured one. The `node` area builds
# real nodes and compares the registration record (main and fallback names per protocol, in order) with the wiring model
# (static cases only here; seeded change C03-g1: Kademlia's fallback names reordered for three or more names).
from . import node as _node  # noqa: E402
_node.install(globals())
