"""C10 — Peer address book stays bounded, attributable and dialable.

Model: lean/Litep2pVerif/Model/Addr/{Multiaddr,Filter,Store,Manager}.lean; adapter: src/verif/c10.rs
(child module of transport::manager::handle).  Addresses in the ops are multiaddr strings with `P<n>`
for peer ids (`P0` = the local peer)."""
import re
from .common import bump

ID = "C10"
AREA = "c10"
LEAN_PROPS = "Litep2pVerif.Props.C10"
THEOREMS = ["remembered_only_if", "supported_implies_parse", "store_bounded", "evict_min", "rescore_exact",
            "dial_result_rescores_used_address", "rediscovery_keeps_score", "dial_order",
            "listen_address_roundtrip", "listener_binds_only_sockets", "reported_dialable_and_local", "local_dial_sound",
            "lookup_respects_dns_type", "public_addresses_name_local", "handle_dial_guarded",
            "dial_failure_rescored_in_every_state", "endpoint_address_is_dialed_address",
            "established_dial_scores_dialed_address", "service_add_known_address_keeps_attribution"]
CONSTS = ["ADDR_MAX_ADDRESSES", "ADDR_CONNECTION_ESTABLISHED", "ADDR_CONNECTION_FAILURE_NEG",
          "ADDR_PUBLIC_ADDRESS_BONUS", "ADDR_FAILURE_IS_I32_MIN"]
_A = "src/transport/manager/address.rs"
CONST_TABLE = [
    ("ADDR_MAX_ADDRESSES", _A, r"const MAX_ADDRESSES: usize = ([^;]+);", 64),
    ("ADDR_CONNECTION_ESTABLISHED", _A, r"pub const CONNECTION_ESTABLISHED: i32 = ([0-9_]+)i32;", 100),
    # magnitude of the (negative) failure score
    ("ADDR_CONNECTION_FAILURE_NEG", _A, r"pub const CONNECTION_FAILURE: i32 = -([0-9_]+)i32;", 100),
    ("ADDR_PUBLIC_ADDRESS_BONUS", _A, r"pub const PUBLIC_ADDRESS_BONUS: i32 = ([0-9_]+)i32;", 1),
    # anchor only: ADDRESS_FAILURE must be i32::MIN (the extractor handles numbers only, so the group is the bonus
    # that follows it in the source; losing the anchor breaks the tie for C10)
    ("ADDR_FAILURE_IS_I32_MIN", _A,
     r"pub const ADDRESS_FAILURE: i32 = i32::MIN;[^;]*?pub const PUBLIC_ADDRESS_BONUS: i32 = ([0-9_]+)i32;", 1),
]
MANIFEST = {
    "text": "Lean 4 theorems about an executable model of the address filter (supported_transport, is_local_address, "
            "add_known_address), the TCP address parser, AddressStore (insert with saturating public bonus, eviction of a "
            "minimum, rediscovery rule, addresses(limit)) and the manager's score-update and dial-selection paths, proved "
            "for every hash-map iteration order and every operation history; plus a seeded correspondence run of the real "
            "TransportManagerHandle / AddressStore / TransportManager code against the model (checker mode for hash-order "
            "dependent choices) and a specification-level oracle. Coverage round: SocketListener::new::<TcpAddress> (which "
            "configured addresses are bound, interface expansion of unspecified binds, DNS/malformed rejection, the reported "
            "listen addresses and DialAddresses), local_dial_address, AddressType::lookup_ip (A/AAAA filtering per "
            "/dns,/dns4,/dns6), PublicAddresses, the guards of TransportManagerHandle::dial/dial_address and the bulk "
            "constructors of AddressStore are modelled with the operating system / resolver as inputs, proved "
            "(listen_address_roundtrip, listener_binds_only_sockets, reported_dialable_and_local, local_dial_sound, "
            "lookup_respects_dns_type, public_addresses_name_local, handle_dial_guarded) and driven on the real code "
            "(real sockets on loopback and the machine's interfaces; a scripted UDP name server for the real hickory resolver). "
            "Coverage round mgr2: dial_failure_rescored_in_every_state — over the FULL connection-manager model (Model/Manager/Dial.lean, "
            "every PeerState incl. Connected with the dial parked as secondary record = the remote's connection won the "
            "simultaneous-dial race, Disconnected with a dial record, Opening) a DialFailure re-scores exactly the failed address to "
            "error_score(e) and touches no other record, for EVERY manager state; manager-level histories (c05 area: the real "
            "TransportManager behind a scripted transport) run as extra cases with the address store printed before and after every "
            "dial outcome, judged by an oracle on the scores (not-rescored / other-address-rescored). Round tcp3: the address a "
            "successful dial is credited to is the one the TCP TRANSPORT reports (endpoint address rebuilt by "
            "TcpConnection::negotiate_connection from the parsed AddressType): endpoint_address_is_dialed_address (every host kind "
            "ip4/ip6/dns/dns4/dns6, with or without /p2p, through dial and open: endpoint address = dialed /host/tcp/port) and "
            "established_dial_scores_dialed_address (the record scored CONNECTION_ESTABLISHED is the dialed multiaddress) over the "
            "transport model Model/Noise/Identity.lean; tied by the c01 area's `tp` op (two real TcpTransports; endpoint address "
            "printed next to the dialed one) and by real nodes dialing /dns|dns4|dns6/localhost/tcp/<listening port> successfully "
            "with the address book compared before and after (phantom-address / success-not-credited / bystander-rescored). "
            "Round gsvc: the protocol-facing entry point TransportService::add_known_address (Model/Service/Known.lean: append "
            "/p2p/<peer> iff the address has no trailing /p2p, otherwise pass it on unchanged) composed with the handle's filter: "
            "service_add_known_address_keeps_attribution (what reaches the peer table is admissible for the peer and is an offered "
            "address naming it or an offered address without trailing id with the id appended; an address naming somebody else is "
            "never rewritten into one of the peer); tied by the c08 area's `known` op (real TransportService + TCP-enabled manager "
            "handle; kinds: no id / own id / foreign id / two ids / relay shapes; the peer's address book printed after every call) "
            "run as extra cases, judged by an oracle (foreign-address-remembered / undialable-address-remembered).",
    "note": "Trusted: Lean kernel; axioms propext/Classical.choice/Quot.sound; the hand-written model and its tie (sampled "
            "differential runs through src/verif/c10.rs); multiaddr text parsing and IpNetwork::is_global outside the model "
            "(attributes are data); PeerState reduced to Disconnected/Opening/Dialing in the c10 area — the score updates of the "
            "other states are driven and proved over C05's full machine (c05 area, extra cases).",
    "technique": "Lean 4 proof (invariants over all histories and all iteration orders) + model/implementation "
                 "correspondence check in checker mode",
    "design_ref": "DESIGN.md §7 C10",
}
RULE = ("seeded operation histories (cfg tcp/maxout/cap; listen; supported/parse/islocal over an address grammar with "
        "ip4/ip6/dns/dns4/dns6 hosts, unspecified/loopback/private/global IPs, missing/foreign/duplicate/trailing /p2p, "
        "ws/wss/quic/udp/other components; addknown with 1-4 addresses; raw insert with tie/extreme scores; list; "
        "scorefail/established/opened/openfail/dialfailed; dial with limited outbound capacity; more distinct addresses "
        "than the capacity; bind over ip4/ip6/unspecified/dns/malformed addresses with OS-chosen and shared ports and "
        "port reuse, localdial for loopback/global/v4/v6 remotes, accept on every reported address; dns scripts with "
        "A-only/AAAA-only/both/empty/failing names and resolve of /dns,/dns4,/dns6 + socket + malformed addresses; "
        "hdial/hdialaddr through the handle, pubadd/pubrm, listening, bulk store constructors) run on the real code "
        "and on the Lean model; non-trivial = at least one address stored and "
        "one refused or evicted; distinct = distinct (ops, observations) transcripts by SHA-256; plus ~220 manager-level "
        "histories in the c05 area (scripted shapes: dial outcome arriving in Dialing / Opening / Connected~Dialing (race) / "
        "Disconnected-with-record / Connected+secondary, failure kinds t/a/n, open failures with partial error lists; and "
        "closed-loop random histories) with `scores <peer>` around every outcome; 10 `tp` operations (c01 area: open/dial x 5 host "
        "kinds); 13 `dnsdial` node cases (real nodes, /dns*/localhost towards the other node's listening port, by address and "
        "by peer id); ~125 `known` histories in the c08 area (3-12 calls of TransportService::add_known_address for 3 peers with "
        "address kinds tcp/tcpp (legitimate) and wrong/two/twow/relay/circ (foreign id, two ids, relay shapes; mostly on ports no "
        "legitimate offer uses) and udp/unspec, interleaved with dial by peer id + mgr_recv)")
TRUSTED_BASE = ["Lean 4.33 kernel", "axioms: propext, Classical.choice, Quot.sound only",
                "hand-written models Model/Addr/*.lean tied to handle.rs/address.rs/mod.rs/listener.rs by this correspondence run",
                "adapter /repo/src/verif/c10.rs, harness, verif.py, checks/c10.py, Driver/C10.lean (address text parser, "
                "IP attribute computation, permutation search of checker mode)",
                "multiaddr crate (text <-> components), ip_network::is_global, std is_unspecified/is_loopback: attributes are "
                "inputs of the model",
                "HashMap/HashSet iteration order modelled as an arbitrary permutation",
                "Model/Service/Known.lean (the closure of TransportService::add_known_address) tied by the c08 area: adapter "
                "/repo/src/verif/c08.rs (`known`: one address per call, 10.0.0.1, peers p / p+100), Driver/C08.lean (kindAddr, showStored)",
                "every /p2p component of a Multiaddr converts to a litep2p PeerId (C18 accepts_eq_reference)",
                "listener part: the operating system (socket/bind/listen results, local_addr, NetworkInterface::show) and "
                "the hickory resolver are inputs of the model, read off the observation (bound=…, ifaces=…, ans=…); the "
                "adapter's scripted name server (src/verif/c10_listener.rs) and the canonical `@k` port naming; the order "
                "of the interface enumeration (differs from call to call) is canonicalised by sorting each listener's group"]
ASSUMPTIONS = ["listen addresses are registered before addresses are learned (remembered_only_if is stated for a fixed "
               "listen set)",
               "dial results reported by the TCP transport concern addresses handed to it by dial(peer) "
               "(DialFailure/OpenFailure carry the dialed address; ConnectionOpened/Established carry host + tcp of it: modelled and "
               "proved since round tcp3 for the host KIND — name and port are copied verbatim by the code and compared by the `tp` op "
               "and the node-level oracle, not modelled)",
               "`localhost` resolves to 127.0.0.1 without network (hickory reads the hosts file); when it does not, the dial fails and "
               "is judged as a failure of the dialed address",
               "PeerState beyond Disconnected/Opening/Dialing is outside the c10 area; the re-scoring in those states is checked "
               "in the c05 area (extra cases) while the scripted transport keeps the Transport contract",
               "local_addr() of a socket bound to (ip, p) is (ip, p') (p' = p unless p = 0); no interface address is the "
               "unspecified address (hypothesis of reported_dialable_and_local)",
               "TransportManager::dial_address (which also stores the dialed address) is property C05's; here only the "
               "handle's PeerIdMissing guard is driven"]
KEEP_PREFIX = 1



def _max_addresses():
    """MAX_ADDRESSES of the tree under test (the oracle judges the bound the code declares)."""
    import os
    repo = os.environ.get("VERIF_REPO", os.path.normpath(os.path.join(os.path.dirname(os.path.abspath(__file__)), "..", "..", "repo")))
    try:
        m = re.search(CONST_TABLE[0][2], open(os.path.join(repo, _A)).read())
        return int(m.group(1).replace("_", ""))
    except Exception:
        return 64


MAXA = _max_addresses()
I32_MAX, I32_MIN = 2**31 - 1, -2**31

IP4 = ["0.0.0.0", "127.0.0.1", "127.0.0.2", "10.0.0.1", "192.168.1.7", "172.16.0.9", "8.8.8.8", "1.2.3.4",
       "100.64.0.1", "169.254.1.1", "198.51.100.1", "203.0.113.5", "240.0.0.1", "255.255.255.255", "192.0.0.9",
       "9.9.9.9", "198.18.0.1"]
IP6 = ["::", "::1", "2001:db8::1", "2a00:1450::1", "fe80::1", "fc00::1", "fd12::5", "ff0e::1", "ff02::1", "2606:4700::6810"]
HOSTS = ["example.com", "node-1.polkadot.io", "localhost"]
PORTS = [30333, 30334, 1, 65535, 0, 443]
TAILS = ["ws", "wss", "quic-v1", "p2p-circuit", "http", "tls", "udp/9", "tcp/9", "sctp/5", "memory/7"]


def gen_host(rng):
    r = rng.random()
    if r < 0.45:
        return "/ip4/" + rng.choice(IP4)
    if r < 0.70:
        return "/ip6/" + rng.choice(IP6)
    k = rng.choice(["dns", "dns4", "dns6"])
    return f"/{k}/{rng.choice(HOSTS)}"


def gen_addr(rng, peer, valid=0.6):
    """An address offered for `peer`: mostly the accepted shape, otherwise one of the interesting deviations."""
    host = gen_host(rng)
    port = rng.choice(PORTS)
    if rng.random() < valid:
        return f"{host}/tcp/{port}/p2p/P{peer}"
    r = rng.random()
    other = rng.choice([p for p in range(0, 6) if p != peer])
    if r < 0.12:
        return f"{host}/tcp/{port}"                                   # missing peer id
    if r < 0.24:
        return f"{host}/tcp/{port}/p2p/P{other}"                      # foreign peer id
    if r < 0.34:
        return f"{host}/tcp/{port}/p2p/P{peer}/p2p/P{peer}"           # duplicate peer id
    if r < 0.44:
        return f"{host}/tcp/{port}/p2p/P{other}/p2p/P{peer}"          # foreign then own
    if r < 0.54:
        return f"{host}/tcp/{port}/p2p/P{peer}/{rng.choice(TAILS)}"   # trailing component
    if r < 0.64:
        return f"{host}/tcp/{port}/{rng.choice(['ws', 'wss'])}/p2p/P{peer}"
    if r < 0.72:
        return f"{host}/udp/{port}/quic-v1/p2p/P{peer}"
    if r < 0.78:
        return f"{host}/udp/{port}/p2p/P{peer}"
    if r < 0.84:
        return f"{host}/p2p/P{peer}"                                  # no transport
    if r < 0.89:
        return f"/tcp/{port}/p2p/P{peer}"                             # no host
    if r < 0.91:
        return f"/p2p/P{peer}"
    if r < 0.93:
        return host                                                    # host only
    if r < 0.97:
        return f"/{rng.choice(TAILS)}{host}/tcp/{port}/p2p/P{peer}"   # leading junk
    return f"{host}/tcp/{port}/{rng.choice(TAILS)}"


def good_addr(rng, peer, i):
    """The i-th distinct accepted address for `peer` (distinct ports on a few hosts)."""
    hosts = ["/ip4/10.0.0.1", "/ip4/8.8.8.8", "/ip6/2a00:1450::1", "/dns/example.com", "/ip4/192.168.1.7", "/ip6/fd12::5"]
    return f"{hosts[i % len(hosts)]}/tcp/{1000 + i // len(hosts)}/p2p/P{peer}"


def endpoint_form(a):
    """What the TCP transport reports for a dialed address: its first two components (host, tcp), no /p2p."""
    comps = split_addr(a)[:2]
    return "".join(f"/{t}" + (f"/{x}" if x is not None else "") for t, x in comps)


def gen_score(rng):
    return rng.choice([0, 0, 0, 1, 1, -1, 2, 5, 5, 100, -100, "max", "min", I32_MAX - 1, I32_MIN + 1, 7])


def gen_case(rng, n_ops):
    tcp = 0 if rng.random() < 0.08 else 1
    maxout = rng.choice(["none", "none", 0, 1, 2, 3, 5])
    cap = rng.choice(["default", 1, 2, 3, 3, 4, 5, 8])
    ops = [f"cfg tcp={tcp} maxout={maxout} cap={cap}"]
    listening = []
    for _ in range(rng.choice([0, 1, 1, 2])):
        h = rng.choice(["/ip4/0.0.0.0", "/ip4/127.0.0.1", "/ip6/::", "/ip6/::1", "/ip4/10.0.0.1", "/ip4/8.8.8.8",
                        "/dns/example.com"])
        listening.append(f"{h}/tcp/{rng.choice(PORTS)}")
        ops.append(f"listen {listening[-1]}")
    pool = {}            # peer -> addresses used so far (for rediscovery / dial results)
    conns = []
    counter = [0]

    def some_addr(peer):
        r = rng.random()
        if pool.get(peer) and r < 0.35:
            return rng.choice(pool[peer])
        if r < 0.7:
            counter[0] += 1
            a = good_addr(rng, peer, rng.randrange(0, 14) if rng.random() < 0.7 else counter[0])
        else:
            a = gen_addr(rng, peer)
        pool.setdefault(peer, []).append(a)
        return a

    for _ in range(n_ops):
        peer = rng.choice([1, 1, 1, 2, 2, 3, 5])
        r = rng.random()
        if r < 0.02 and listening:
            # a listen address with other components around it: not the exact address, same ip and port
            l = rng.choice(listening)
            ops.append("islocal " + rng.choice([f"{l}/{rng.choice(TAILS)}", f"{l}/{rng.choice(TAILS)}/p2p/P{peer}", f"{l}/p2p/P{peer}",
                                                l.replace("/tcp/", "/udp/"), l.replace("/tcp/", "/udp/") + "/quic-v1"]))
        elif r < 0.10:
            ops.append(f"{rng.choice(['supported', 'parse', 'islocal'])} {gen_addr(rng, peer, 0.4)}")
        elif r < 0.38:
            k = rng.choice([1, 1, 1, 2, 2, 3, 4])
            ops.append(f"addknown P{peer} " + " ".join(some_addr(peer) for _ in range(k)))
        elif r < 0.55:
            ops.append(f"insert P{peer} {some_addr(peer)} {gen_score(rng)}")
        elif r < 0.62:
            ops.append(f"list P{peer} {rng.choice([0, 1, 2, 3, 'max', 64, 100])}")
        elif r < 0.70:
            ops.append(f"scorefail {some_addr(peer)} {rng.choice(['timeout', 'timeout', 'addrerr'])}")
        elif r < 0.77:
            a = some_addr(peer)
            if rng.random() < 0.7:
                a = endpoint_form(a)
            ops.append(f"established P{peer} {a} {rng.choice(['dialer', 'dialer', 'listener'])}")
        elif r < 0.88:
            ops.append(f"dial P{rng.choice([peer, peer, peer, 0, 4])}")
            conns.append(len(conns))
        elif r < 0.92:
            c = rng.choice(conns) if conns and rng.random() < 0.9 else rng.randrange(0, 4)
            ops.append(f"opened c{c} {endpoint_form(some_addr(peer))}")
        elif r < 0.95:
            c = rng.choice(conns) if conns and rng.random() < 0.9 else rng.randrange(0, 4)
            ops.append(f"openfail c{c}")
        elif r < 0.97:
            c = rng.choice(conns) if conns and rng.random() < 0.9 else rng.randrange(0, 4)
            ops.append(f"dialfailed c{c}")
        elif r < 0.99:
            ops.append("occupy")
        else:
            ops.append(rng.choice(["frobnicate", "insert P1", "list", "addknown", "dial Q1", "insert P1 /ip4/1.2.3.4/tcp/1 x"]))
    for p in (1, 2, 3, 5):
        ops.append(f"store P{p}")
    ops.append(f"list P1 {rng.choice([1, 2, 'max'])}")
    ops.append("dial P1")
    return ops


def gen_fill(rng):
    """More than MAX_ADDRESSES distinct addresses for one peer through the real add_known_address, with dial
    results and rediscovery in between, on the default capacity."""
    ops = [f"cfg tcp=1 maxout={rng.choice(['none', 3, 70])} cap=default"]
    n = rng.choice([MAXA - 1, MAXA, MAXA + 1, MAXA + 6])
    for i in range(n):
        a = good_addr(rng, 1, i)
        if rng.random() < 0.8:
            ops.append(f"addknown P1 {a}")
        else:
            ops.append(f"insert P1 {a} {gen_score(rng)}")
        if rng.random() < 0.15:
            b = good_addr(rng, 1, rng.randrange(0, i + 1))
            ops.append(rng.choice([f"scorefail {b} timeout", f"scorefail {b} addrerr",
                                   f"established P1 {endpoint_form(b)} dialer", f"addknown P1 {b}"]))
    ops.append(f"addknown P1 {good_addr(rng, 1, n + 1)} {good_addr(rng, 1, n + 2)} {good_addr(rng, 1, 0)}")
    ops += ["store P1", f"list P1 {rng.choice([3, 64, 'max'])}", "dial P1"]
    return ops


# ------------------------------------------------------------------ listener / DNS / handle families (coverage round)

L4 = ["127.0.0.1", "127.0.0.1", "127.0.0.2", "0.0.0.0", "0.0.0.0", "192.0.2.2", "8.8.8.8", "10.0.0.1"]
L6 = ["::1", "::1", "::", "::", "fd00::2", "2a00:1450::1"]
REMOTES = ["127.0.0.1", "127.0.0.9", "8.8.8.8", "10.0.0.1", "192.0.2.2", "0.0.0.0", "::1", "2a00:1450::1", "fd00::2", "::",
           "fe80::1"]


def gen_bind_addr(rng, known_ports):
    port = "0" if (not known_ports or rng.random() < 0.6) else "@%d" % rng.randrange(0, known_ports + (1 if rng.random() < 0.05 else 0))
    r = rng.random()
    if r < 0.50:
        return f"/ip4/{rng.choice(L4)}/tcp/{port}"
    if r < 0.76:
        return f"/ip6/{rng.choice(L6)}/tcp/{port}"
    if r < 0.85:
        return f"/{rng.choice(['dns', 'dns4', 'dns6'])}/{rng.choice(['localhost', 'a.test'])}/tcp/{port}"
    h = rng.choice(["/ip4/127.0.0.1", "/ip6/::1", "/ip4/0.0.0.0"])
    return rng.choice([f"{h}/udp/{port}", f"{h}", f"/tcp/{port}", f"{h}/tcp/{port}/ws", f"{h}/tcp/{port}/p2p/P1",
                       f"{h}/tcp/{port}/p2p/P1/p2p/P2", f"{h}/udp/{port}/quic-v1", f"/p2p/P1{h}/tcp/{port}",
                       f"{h}/tcp/{port}/tls"])


def gen_listener(rng):
    """SocketListener::new over every address family (ports chosen by the OS, `@k` = k-th such port), interface
    expansion, DNS/malformed addresses, port reuse; local dial addresses; accepting on every reported address."""
    ops = []
    known = 0
    if rng.random() < 0.85:
        ops.append(f"bind reuse={rng.choice([0, 1])} nodelay={rng.choice([0, 1])} /ip4/127.0.0.1/tcp/0")
        known = 1
    for _ in range(rng.choice([1, 1, 2, 3])):
        n = rng.choice([0, 1, 2, 3, 4, 6])
        addrs = [gen_bind_addr(rng, known) for _ in range(n)]
        if rng.random() < 0.3 and known:
            addrs += ["/ip4/127.0.0.1/tcp/@0", "/ip6/::1/tcp/@0"]          # dual stack on one port
        ops.append(f"bind reuse={rng.choice([0, 1, 1])} nodelay={rng.choice([0, 1])} " + " ".join(addrs))
        for _ in range(rng.choice([1, 2, 4])):
            ops.append(f"localdial {rng.choice(REMOTES)}")
        for _ in range(rng.choice([0, 1, 2, 3])):
            ops.append(f"accept {rng.choice([0, 0, 1, 2, 3, 4, 7])}")
        if rng.random() < 0.04:
            ops.append(rng.choice(["bind", "bind reuse=1", "localdial", "localdial example.com", "accept x", "bind reuse=1 nodelay=1 /ip4/300.1.1.1/tcp/0"]))
    return ops


ZONES = {
    "a.test": ("1.2.3.4,5.6.7.8", "-"),
    "b.test": ("-", "2a00:1450::1"),
    "c.test": ("9.9.9.9", "2a00:1450::2,fd00::7"),
    "e.test": ("-", "-"),
}


def gen_dns(rng):
    """AddressType::lookup_ip against the scripted name server: A/AAAA filtering per /dns, /dns4, /dns6."""
    ops = []
    names = list(ZONES)
    rng.shuffle(names)
    for nm in names[:rng.choice([2, 3, 4])]:
        a, aaaa = ZONES[nm]
        ops.append(f"dns {nm} {a} {aaaa}")
    if rng.random() < 0.6:
        ops.append("dns d.test fail")
    for _ in range(rng.choice([3, 5, 8])):
        r = rng.random()
        name = rng.choice(list(ZONES) + ["d.test", "nx.test", "localhost"])
        kind = rng.choice(["dns", "dns4", "dns6"])
        port = rng.choice([30333, 1, 443, 65535])
        if r < 0.7:
            a = f"/{kind}/{name}/tcp/{port}"
        elif r < 0.8:
            a = f"/{kind}/{name}/tcp/{port}/p2p/P{rng.randrange(1, 4)}"
        elif r < 0.9:
            a = rng.choice([f"/ip4/{rng.choice(IP4)}/tcp/{port}", f"/ip6/{rng.choice(IP6)}/tcp/{port}"])
        else:
            a = rng.choice([f"/{kind}/{name}/udp/{port}", f"/{kind}/{name}", f"/{kind}/{name}/tcp/{port}/ws", f"/tcp/{port}"])
        ops.append(f"resolve {a}")
    if rng.random() < 0.3:
        nm = rng.choice(list(ZONES))
        ops.append(f"dns {nm} 7.7.7.7 -")                                     # re-scripted name
        ops.append(f"resolve /{rng.choice(['dns', 'dns4', 'dns6'])}/{nm}/tcp/9")
    if rng.random() < 0.05:
        ops.append(rng.choice(["dns", "dns x", "dns x.test 1.2.3 -", "resolve", "resolve x"]))
    return ops


def gen_handle(rng):
    """Dial requests through TransportManagerHandle, the public address set, listen-address reporting and the bulk
    constructors of AddressStore."""
    tcp = 0 if rng.random() < 0.1 else 1
    ops = [f"cfg tcp={tcp} maxout={rng.choice(['none', 'none', 0, 1, 2])} cap={rng.choice(['default', 2, 3])}"]
    for _ in range(rng.choice([0, 1, 2])):
        ops.append(f"listen {rng.choice(['/ip4/127.0.0.1', '/ip4/0.0.0.0', '/ip6/::1', '/ip4/10.0.0.1'])}/tcp/{rng.choice(PORTS)}")
    pubs = []
    for _ in range(rng.choice([6, 12, 20])):
        peer = rng.choice([1, 1, 2, 3])
        r = rng.random()
        if r < 0.25:
            ops.append(f"addknown P{peer} " + " ".join(good_addr(rng, peer, rng.randrange(0, 8)) for _ in range(rng.choice([1, 2, 3]))))
        elif r < 0.50:
            ops.append(f"hdial P{rng.choice([peer, peer, peer, 0, 4])}")
        elif r < 0.58:
            ops.append(f"hdialaddr {gen_addr(rng, peer, 0.5)}")
        elif r < 0.75:
            a = rng.choice([gen_addr(rng, 0, 0.5), gen_addr(rng, peer, 0.5), "-", f"/ip4/1.2.3.4/tcp/{rng.choice(PORTS)}"] + pubs)
            pubs.append(a)
            ops.append(f"pubadd {a}")
        elif r < 0.82:
            a = rng.choice(pubs + [f"/ip4/1.2.3.4/tcp/30333/p2p/P0", "-"])
            ops.append(f"pubrm {a if rng.random() < 0.5 or a == '-' or '/p2p/' in a else a + '/p2p/P0'}")
        elif r < 0.86:
            ops.append("listening")
        elif r < 0.90:
            ops.append(rng.choice([f"openfail c{rng.randrange(0, 3)}", f"dialfailed c{rng.randrange(0, 3)}", "occupy"]))
        else:
            kind = rng.choice(["multiaddr", "record", "raw", "ref"])
            items = []
            for _ in range(rng.choice([0, 1, 3, 6])):
                a = rng.choice([good_addr(rng, peer, rng.randrange(0, 5)), gen_addr(rng, peer, 0.5)])
                items.append(a if rng.random() < 0.3 else f"{a}={gen_score(rng)}")
            ops.append(f"bulk {kind} " + " ".join(items))
    ops += ["listening", "hdial P1", "store P1"]
    return ops


def gen_cases(rng, tier):
    n = {"quick": 700, "thorough": 30000, "search": 3000}[tier]
    nf = {"quick": 12, "thorough": 300, "search": 40}[tier]
    nl = {"quick": 60, "thorough": 1500, "search": 150}[tier]
    nd = {"quick": 30, "thorough": 600, "search": 60}[tier]
    nh = {"quick": 120, "thorough": 4000, "search": 400}[tier]
    for i in range(n):
        yield gen_case(rng, rng.choice([5, 10, 20, 35, 60]))
    for i in range(nf):
        yield gen_fill(rng)
    for i in range(nl):
        yield gen_listener(rng)
    for i in range(nd):
        yield gen_dns(rng)
    for i in range(nh):
        yield gen_handle(rng)


def mutate_case(rng, case, n):
    for _ in range(n):
        c = list(case)
        for _ in range(rng.randrange(1, 4)):
            i = rng.randrange(1, len(c))
            if rng.random() < 0.5:
                del c[i]
            else:
                c.insert(i, rng.choice(case[1:]))
        yield c


def model_lines(case, impl):
    """Checker mode: hand the implementation's observation to the driver for the ops whose outcome may depend on
    hash-map iteration order."""
    if impl is None:
        return case
    res = []
    for i, op in enumerate(case):
        o = impl[i] if i < len(impl) else None
        w = op.split()[0] if op.split() else ""
        if o and w in ("addknown", "insert", "list", "scorefail", "established", "dial", "opened", "bind", "resolve", "hdial") \
                and not o.startswith(("panic", "skipped", "bad-op")) and " -> " not in op:
            res.append(op + " -> " + o)
        else:
            res.append(op)
    return res


# ------------------------------------------------------------------ oracle (independent of the Lean model)

def split_addr(a):
    """Textual multiaddr -> list of (tag, arg) using the fixed arity of the generator's grammar."""
    toks = a.split("/")[1:]
    comps, i = [], 0
    with_arg = {"ip4", "ip6", "dns", "dns4", "dns6", "tcp", "udp", "p2p", "sctp", "memory"}
    while i < len(toks):
        t = toks[i]
        if t in with_arg and i + 1 < len(toks):
            comps.append((t, toks[i + 1]))
            i += 2
        else:
            comps.append((t, None))
            i += 1
    return comps


def ip_unspecified(tag, ip):
    return (tag == "ip4" and ip == "0.0.0.0") or (tag == "ip6" and ip == "::")


def ip_loopback(tag, ip):
    return (tag == "ip4" and ip.startswith("127.")) or (tag == "ip6" and ip == "::1")


def dialable_shape(comps):
    """The property's "can be parsed and dialed by an enabled transport" for a TCP-only node: host, tcp, p2p."""
    return (len(comps) == 3 and comps[0][0] in ("ip4", "ip6", "dns", "dns4", "dns6") and comps[1][0] == "tcp"
            and comps[2][0] == "p2p" and not ip_unspecified(*comps[0]))


def is_listen(listens, comps):
    """Specification of "one of the node's own listen addresses" (exact, or same port and same ip / loopback
    reaching a wildcard or loopback listener)."""
    base = []
    for c in comps:
        if c[0] == "p2p":
            break
        base.append(c)
    if base in listens:
        return True
    if len(base) < 2 or base[0][0] not in ("ip4", "ip6") or base[1][0] not in ("tcp", "udp"):
        return False
    for l in listens:
        if len(l) >= 2 and l[0][0] in ("ip4", "ip6") and l[1][0] in ("tcp", "udp") and l[1][1] == base[1][1]:
            if l[0] == base[0]:
                return True
            if ip_loopback(*base[0]) and (ip_unspecified(*l[0]) or ip_loopback(*l[0])):
                return True
    return False


def parse_store(s):
    s = s.strip()
    if s in ("none", "-"):
        return None
    inner = s[1:-1]
    res = {}
    if inner:
        for item in inner.split(","):
            a, sc = item.rsplit("=", 1)
            res[a] = sc
    return res


def parse_list(s):
    inner = s.strip()[1:-1]
    return inner.split(",") if inner else []


def to_int(sc):
    return I32_MAX if sc == "max" else I32_MIN if sc == "min" else int(sc)


# ---- listener / DNS / public-address rules (specification level, independent of the Lean model)

LISTENER_OPS = ("bind", "localdial", "accept", "dns", "resolve")


def parse_sock(x):
    """`1.2.3.4:@0` / `[::1]:@0` -> (family, ip, port token)."""
    if x.startswith("["):
        ip, _, port = x[1:].partition("]:")
        return ("ip6", ip, port)
    ip, _, port = x.partition(":")
    return ("ip4", ip, port)


def link_local6(ip):
    try:
        import ipaddress
        return ipaddress.IPv6Address(ip) in ipaddress.IPv6Network("fe80::/10")
    except Exception:
        return False


def same_ip(a, b):
    import ipaddress
    try:
        return ipaddress.ip_address(a) == ipaddress.ip_address(b)
    except Exception:
        return a == b


def socket_shape(comps):
    """What a TCP listener can bind: ip4|ip6, tcp, then nothing or a peer id."""
    return (len(comps) >= 2 and comps[0][0] in ("ip4", "ip6") and comps[1][0] == "tcp"
            and (len(comps) == 2 or comps[2][0] == "p2p"))


def obs_fields(o):
    return dict(f.split("=", 1) for f in o.split(" ") if "=" in f)


def items_of(x):
    x = x.strip()
    if not (x.startswith("[") and x.endswith("]")):
        return None
    return [y for y in x[1:-1].split(",") if y]


def oracle_listener(v, i, t, o, lst):
    if t[0] == "bind":
        f = obs_fields(o)
        if not all(k in f for k in ("bound", "listen", "back", "dial", "ifaces")):
            v("bind-observation", f"unreadable observation {o!r}", i)
            return
        flags = dict(x.split("=", 1) for x in t[1:] if "=" in x and not x.startswith("/"))
        inputs = [split_addr(x) for x in t[1:] if x.startswith("/")]
        bound = [parse_sock(x) for x in items_of(f["bound"]) or []]
        listen = items_of(f["listen"]) or []
        back = items_of(f["back"]) or []
        ifaces = items_of(f["ifaces"])
        sockety = [c for c in inputs if socket_shape(c)]
        if len(bound) > len(sockety):
            v("bind-extra", f"{len(bound)} listeners for {len(sockety)} bindable addresses", i)
        for fam, ip, port in bound:
            if not any(c[0][0] == fam and same_ip(c[0][1], ip) and (c[1][1] == "0" or c[1][1] == port) for c in sockety):
                v("bind-unconfigured", f"listener on {ip}:{port} was not configured (dns and malformed addresses must not bind)", i)
        socks = []
        for k, a in enumerate(listen):
            c = split_addr(a)
            if not (len(c) == 2 and c[0][0] in ("ip4", "ip6") and c[1][0] == "tcp"):
                v("listen-shape", f"reported listen address {a} is not ip/tcp", i)
                continue
            fam, ip, port = c[0][0], c[0][1], c[1][1]
            socks.append((fam, ip, port))
            if k >= len(back) or parse_sock(back[k]) != (fam, ip, port):
                v("listen-roundtrip", f"the transport's parser maps {a} to {back[k] if k < len(back) else None}", i)
            if ip_unspecified(fam, ip):
                v("listen-unspecified", f"unspecified address {a} reported as listen address", i)
            ok = False
            for bf, bip, bport in bound:
                if bf == fam and bport == port and (same_ip(bip, ip) or (ip_unspecified(bf, bip) and ifaces is not None
                                                                         and any(same_ip(ip, x) for x in ifaces))):
                    ok = True
            if not ok:
                v("listen-unbound", f"reported listen address {a} does not lead to any bound socket {bound}", i)
        for bf, bip, bport in bound:
            if not ip_unspecified(bf, bip):
                if (bf, bip, bport) not in socks and not any(x[0] == bf and x[2] == bport and same_ip(x[1], bip) for x in socks):
                    v("listen-missing", f"bound socket {bip}:{bport} is not reported as listen address", i)
            elif ifaces is not None:
                for x in ifaces:
                    xf = "ip6" if ":" in x else "ip4"
                    if xf == bf and not (xf == "ip6" and link_local6(x)) and not ip_unspecified(xf, x):
                        if not any(y[0] == bf and y[2] == bport and same_ip(y[1], x) for y in socks):
                            v("listen-missing-iface", f"wildcard listener on port {bport} does not report interface address {x}", i)
        want_reuse = flags.get("reuse") == "1"
        if want_reuse:
            d = items_of(f["dial"][len("reuse:"):]) if f["dial"].startswith("reuse:") else None
            if d is None:
                v("dial-addresses", f"port reuse requested but DialAddresses = {f['dial']}", i)
            elif sorted(d) != sorted(back):
                v("dial-addresses", f"DialAddresses {d} differ from the listen addresses {back}", i)
        elif f["dial"] != "noreuse":
            v("dial-addresses", f"no port reuse requested but DialAddresses = {f['dial']}", i)
        lst["socks"] = socks
        lst["back"] = back
        lst["reuse"] = want_reuse
    elif t[0] == "localdial":
        remote = t[1]
        fam = "ip6" if ":" in remote else "ip4"
        cands = [x for x in lst.get("socks", []) if x[0] == fam and ip_loopback(*x[:2]) == ip_loopback(fam, remote)]
        if not lst.get("reuse"):
            if o != "ok none":
                v("localdial", f"no port reuse, but local dial address {o}", i)
        elif o == "err":
            if cands:
                v("localdial", f"no local dial address for {remote} although {cands[0]} listens", i)
        elif o.startswith("ok ") and o != "ok none":
            f2, ip, port = parse_sock(o[3:])
            if f2 != fam or not ip_unspecified(f2, ip):
                v("localdial", f"local dial address {o[3:]} for remote {remote} is not the unspecified address of its family", i)
            if not any(x[2] == port for x in cands):
                v("localdial", f"local dial port {port} is not the port of a listen address of the kind of {remote}", i)
        else:
            v("localdial", f"port reuse configured, but answer {o!r}", i)
    elif t[0] == "accept":
        back = lst.get("back", [])
        k = int(t[1]) if t[1].isdigit() else None
        if k is None:
            return
        if k >= len(back):
            if o != "none":
                v("accept", f"accept on a non-existent listen address answered {o!r}", i)
        elif o != f"ok {back[k]} peer=1":
            v("accept-roundtrip", f"connecting to listen address #{k} ({back[k]}) gave {o!r}", i)
    elif t[0] == "dns":
        if o == "ok":
            if len(t) == 3 and t[2] == "fail":
                lst.setdefault("zones", {})[t[1].lower()] = None
            elif len(t) == 4:
                lst.setdefault("zones", {})[t[1].lower()] = ([] if t[2] == "-" else t[2].split(","),
                                                             [] if t[3] == "-" else t[3].split(","))
    elif t[0] == "resolve":
        comps = split_addr(t[1])
        hosty = len(comps) >= 2 and comps[0][0] in ("ip4", "ip6", "dns", "dns4", "dns6") and comps[1][0] == "tcp" \
            and (len(comps) == 2 or comps[2][0] == "p2p")
        if not hosty:
            if o != "err parse":
                v("resolve-parse", f"malformed address answered {o!r}", i)
            return
        if o == "err parse":
            v("resolve-parse", "well-formed address refused by the parser", i)
            return
        kind, port = comps[0][0], comps[1][1]
        res = o.split(" ", 2)[2] if o.count(" ") >= 2 else o
        if kind in ("ip4", "ip6"):
            want = f"ok {comps[0][1]}:{port}" if kind == "ip4" else f"ok [{comps[0][1]}]:{port}"
            if res != want and not (res.startswith("ok ") and same_ip(parse_sock(res[3:])[1], comps[0][1]) and parse_sock(res[3:])[2] == port):
                v("resolve-socket", f"socket address resolved to {res!r}", i)
            return
        zone = lst.get("zones", {}).get(comps[0][1].lower(), "unknown")
        scripted = comps[0][1].lower().endswith(".test")
        if res.startswith("ok "):
            fam, ip, p = parse_sock(res[3:])
            if p != port:
                v("resolve-port", f"port {port} resolved to {p}", i)
            if (kind == "dns4" and fam != "ip4") or (kind == "dns6" and fam != "ip6"):
                v("resolve-family", f"/{kind} resolved to the {fam} address {ip}", i)
            if scripted:
                if zone in (None, "unknown"):
                    v("resolve-foreign", f"{comps[0][1]} has no records but resolved to {ip}", i)
                elif not any(same_ip(ip, x) for x in (zone[0] if fam == "ip4" else zone[1])):
                    v("resolve-foreign", f"{ip} is not a record of {comps[0][1]}", i)
        elif res == "err mismatch":
            if scripted and zone not in (None, "unknown"):
                has = zone[0] if kind == "dns4" else zone[1] if kind == "dns6" else zone[0] + zone[1]
                if has:
                    v("resolve-mismatch", f"{comps[0][1]} has the {kind} records {has} but IpVersionMismatch was returned", i)
        elif res == "err resolve":
            if scripted and zone not in (None, "unknown") and (zone[0] or zone[1]):
                v("resolve-failed", f"{comps[0][1]} has records {zone} but ResolveError was returned", i)
        else:
            v("resolve-observation", f"unreadable observation {o!r}", i)


def oracle(case, out):
    bad = []

    def v(kind, msg, i):
        bad.append({"kind": kind, "msg": msg, "step": i, "op": case[i], "out": out[i] if i < len(out) else None})

    cfg = None
    listens = []
    stores = {}          # peer -> {addr: score string} last observed
    caps = {}
    unknown = set()      # peers whose store content is not known to the oracle (attribution lost)
    conn_owner = {}
    used = 0
    lst = {}             # listener part: last bind, DNS script
    public = set()       # public address set as last observed
    for i, op in enumerate(case):
        if i >= len(out):
            break
        o = out[i]
        t = op.split()
        if not t:
            continue
        if o.startswith("panic"):
            legit = (t[0] == "opened") or (t[0] == "listen" and "/p2p" in op)
            if not legit:
                v("panic", f"panic in {t[0]}: {o}", i)
            break
        if o in ("skipped", "bad-op"):
            if o == "skipped":
                break
            continue
        if t[0] in LISTENER_OPS:
            oracle_listener(v, i, t, o, lst)
            continue
        if t[0] == "cfg":
            kvs = dict(x.split("=") for x in t[1:])
            cfg = kvs
            public = set()
            listens = []
            maxout = None if kvs["maxout"] == "none" else int(kvs["maxout"])
            for p in (1, 2, 3, 4):
                if kvs["cap"] != "default":
                    caps[p] = int(kvs["cap"])
                    stores[p] = {}
            continue
        if cfg is None:
            continue
        peer = None
        store_txt = None
        if " | " in o:
            head, store_txt = o.split(" | ", 1)
        else:
            head = o
        if t[0] == "hdial":
            # `<handle result> <what the manager did>`
            if head.startswith("ok "):
                head = head[3:]
                if head == "idle":
                    head = "inprogress"
            elif head.endswith(" idle"):
                head = head[:-5]
            else:
                v("handle-dial", f"the handle refused ({head}) but the manager dialed", i)
            t = ["dial"] + t[1:]
            if len(t) > 1 and t[1] == "P0" and head != "err self":
                v("handle-dial", f"dialing the local peer through the handle answered {head!r}", i)
        if t[0] in ("pubadd", "pubrm"):
            new_pub = set(parse_list(store_txt)) if store_txt is not None else None
            if new_pub is not None:
                for a in new_pub:
                    if not a.endswith("/p2p/P0") or a.count("/p2p/") < 1:
                        v("public-foreign", f"public address {a} does not name the local peer", i)
                offered = "" if t[1] == "-" else t[1]
                oc = split_addr(offered) if offered else []
                names_other = bool(oc) and oc[-1][0] == "p2p" and oc[-1][1] != "P0"
                if t[0] == "pubadd":
                    if head.startswith("err") and new_pub != public:
                        v("public-changed", f"refused address changed the public set: {sorted(public)} -> {sorted(new_pub)}", i)
                    if (names_other or not offered) and not head.startswith("err"):
                        v("public-accepted", f"address {t[1]} accepted as public address ({head})", i)
                    if head.startswith("ok") and not (new_pub - public <= {offered, offered + "/p2p/P0"}):
                        v("public-unoffered", f"public set gained {sorted(new_pub - public)} for offered {offered}", i)
                    if head == "ok new" and len(new_pub) != len(public) + 1:
                        v("public-count", "`true` returned but the set did not grow by one", i)
                    if offered and not names_other and head.startswith("err"):
                        v("public-refused", f"own address {offered} refused: {head}", i)
                else:
                    if not (new_pub <= public) or len(public - new_pub) > 1:
                        v("public-remove", f"remove changed the set {sorted(public)} -> {sorted(new_pub)}", i)
                public = new_pub
            continue
        if t[0] == "listening":
            got = set(parse_list(o))
            for l in listens:
                a = "".join(f"/{x}" + (f"/{y}" if y is not None else "") for x, y in l)
                if a not in got or a + "/p2p/P0" not in got:
                    v("listen-unreported", f"registered listen address {a} is not reported by the handle", i)
            continue
        if t[0] == "bulk":
            st = parse_store(o.rsplit(" ord=", 1)[0])
            if st is not None and len(st) > MAXA:
                v("bound", f"bulk-built store holds {len(st)} addresses, bound {MAXA}", i)
            if not o.endswith(" ord=1"):
                v("record-order", "AddressRecord comparison is not the comparison of scores", i)
            if st is not None and len(t) > 1 and t[1] == "multiaddr":
                for a in st:
                    if split_addr(a)[-1][0] != "p2p":
                        v("remembered-foreign", f"{a} stored without a peer id", i)
            continue
        if t[0] == "hdialaddr":
            c = split_addr(t[1])
            has_peer = bool(c) and c[-1][0] == "p2p"
            if has_peer != o.startswith("ok ") or ("queued=1" in o) != has_peer:
                v("handle-dial-address", f"dial_address({t[1]}) through the handle answered {o!r}", i)
            continue
        if t[0] == "listen":
            c = split_addr(t[1])
            listens.append(c)
        elif t[0] == "occupy":
            if maxout is not None:
                used += 1
        elif t[0] in ("addknown", "insert", "established", "dial", "store"):
            peer = int(t[1][1:]) if re.fullmatch(r"P\d+", t[1]) else None
            if t[0] == "store":
                store_txt = o
        elif t[0] == "scorefail":
            c = split_addr(t[1])
            peer = int(c[-1][1][1:]) if c and c[-1][0] == "p2p" else None
        elif t[0] == "opened":
            m = re.fullmatch(r"c(\d+)", t[1])
            peer = conn_owner.get(int(m.group(1))) if m else None
            if peer is None and store_txt not in (None, "-"):
                unknown.update(range(0, 10))      # cannot attribute the change
        if t[0] == "dial" and peer is not None:
            m = re.match(r"(?:open|noopen) c(\d+)", head)
            if m:
                conn_owner[int(m.group(1))] = peer
        # ---- the store after this op
        new = parse_store(store_txt) if store_txt is not None else None
        if peer is not None and new is not None and peer in unknown:
            unknown.discard(peer)
            stores[peer] = new
            if len(new) > caps.get(peer, MAXA):
                v("bound", f"{len(new)} addresses remembered for P{peer}, bound {caps.get(peer, MAXA)}", i)
        elif peer is not None and new is not None:
            old = stores.get(peer, {})
            cap = caps.get(peer, MAXA)
            # bound
            if len(new) > cap:
                v("bound", f"{len(new)} addresses remembered for P{peer}, bound {cap}", i)
            added = [a for a in new if a not in old]
            gone = [a for a in old if a not in new]
            if t[0] == "addknown":
                offered = t[2:]
                for a in added:
                    # remembered only if: offered (possibly with the id appended), names the peer, not a listen
                    # address, dialable by TCP
                    src = [x for x in offered if x == a or x + f"/p2p/P{peer}" == a]
                    comps = split_addr(a)
                    if not src:
                        v("remembered-unoffered", f"{a} remembered for P{peer} but never offered", i)
                    elif comps[-1] != ("p2p", f"P{peer}"):
                        v("remembered-foreign", f"{a} remembered for P{peer} but does not name it", i)
                    elif cfg["tcp"] != "1" or not dialable_shape(comps):
                        v("remembered-undialable", f"{a} remembered for P{peer} but no enabled transport can dial it", i)
                    elif is_listen(listens, comps):
                        v("remembered-local", f"{a} remembered for P{peer} but is one of the node's listen addresses", i)
                # rediscovery must not change scores of known addresses (if the op could displace addresses, a known
                # one may have been displaced and learned afresh within this one observation: not judged)
                fresh = {x if split_addr(x)[-1][0] == "p2p" else x + f"/p2p/P{peer}" for x in offered} - set(old)
                pressure = len(old) + len(fresh) > cap
                for a in old:
                    if a in new and new[a] != old[a] and not pressure:
                        v("rediscovery-rescored", f"add_known_address changed the score of {a}: {old[a]} -> {new[a]}", i)
            # eviction: only when full, only a minimum, and newcomers are not worse than what they displaced
            if gone:
                if len(new) < cap:
                    v("evict-not-full", f"{gone} dropped although the store holds {len(new)} < {cap} afterwards", i)
                # (an address whose score changed was displaced and learned afresh inside this observation)
                kept_old_min = min([int(old[a]) for a in old if a in new and new[a] == old[a]], default=None)
                for a in gone:
                    if kept_old_min is not None and int(old[a]) > kept_old_min:
                        v("evict-not-min", f"{a} (score {old[a]}) displaced while {kept_old_min} was kept", i)
                g = sorted((int(old[a]) for a in gone), reverse=True)
                n = sorted((int(new[b]) for b in added), reverse=True)
                if any(x > y for x, y in zip(g, n)):
                    v("evict-by-worse", f"addresses of scores {g} displaced by newcomers of scores {n}", i)
                if len(gone) > len(added):
                    v("evict-extra", f"{len(gone)} addresses dropped for {len(added)} added", i)
            # re-scoring: a dial result / raw insert touches only the address it names
            if t[0] in ("scorefail", "established", "insert", "opened"):
                target = t[1] if t[0] == "scorefail" else t[2]
                names = {target, target + f"/p2p/P{peer}"}
                for a in old:
                    if a in new and new[a] != old[a] and a not in names:
                        v("rescore-other", f"{t[0]} on {target} changed the score of {a}: {old[a]} -> {new[a]}", i)
                if t[0] == "scorefail":
                    if target in old and not (target in new and int(new[target]) < 0):
                        v("rescore-missing", f"dial failure on {target} left score {new.get(target)}", i)
                if (t[0] == "established" and t[3] == "dialer") or (t[0] == "opened" and head == "ok"):
                    key = target if split_addr(target)[-1][0] == "p2p" else target + f"/p2p/P{peer}"
                    if key in old and not (key in new and int(new[key]) > 0):
                        v("rescore-missing", f"successful dial of {key} left score {new.get(key)}", i)
                if t[0] == "insert" and to_int(t[3]) == 0 and t[2] in old and new.get(t[2]) != old[t[2]]:
                    v("rediscovery-rescored", f"re-adding {t[2]} with score 0 changed {old[t[2]]} -> {new.get(t[2])}", i)
            if t[0] == "dial" and (added or gone or any(new[a] != old.get(a) for a in new)):
                v("dial-changed-store", "dial(peer) changed the address store", i)
            stores[peer] = new
        # ---- selections
        if t[0] == "list" and o != "none":
            peer = int(t[1][1:])
            check_selection(v, i, parse_list(o), stores.get(peer), None if t[2] == "max" else int(t[2]), "addresses(limit)")
        if t[0] == "dial" and head.startswith("open "):
            sel = parse_list(head.split(" ", 2)[2])
            free = None if maxout is None else maxout - used
            check_selection(v, i, sel, stores.get(peer), free, "dial(peer)")
            if not sel:
                v("dial-empty", "open() called with no address", i)
        if t[0] == "dial" and head == "err no-address" and stores.get(peer) and (maxout is None or maxout - used > 0):
            v("dial-no-address", f"NoAddressAvailable with {len(stores[peer])} addresses remembered", i)
    return bad


def check_selection(v, i, sel, store, limit, what):
    if limit is not None and len(sel) > limit:
        v("select-limit", f"{what} returned {len(sel)} addresses, limit {limit}", i)
    if len(set(sel)) != len(sel):
        v("select-dup", f"{what} returned an address twice", i)
    if store is None:
        return
    missing = [a for a in sel if a not in store]
    if missing:
        v("select-unknown", f"{what} returned {missing[0]} which is not in the store", i)
        return
    sc = [int(store[a]) for a in sel]
    if any(a < b for a, b in zip(sc, sc[1:])):
        v("select-unsorted", f"{what} not in non-increasing score order: {sc}", i)
    want = len(store) if limit is None else min(limit, len(store))
    if len(sel) < want:
        v("select-short", f"{what} returned {len(sel)} of {want} available addresses", i)
    rest = [int(store[a]) for a in store if a not in sel]
    if sel and rest and max(rest) > min(sc):
        v("select-not-best", f"{what} skipped an address of score {max(rest)} but returned one of score {min(sc)}", i)


def stats(case, out, acc):
    for op, o in zip(case, out):
        t = op.split()[0] if op.split() else "?"
        bump(acc, "op:" + t)
        if t in ("supported", "islocal"):
            bump(acc, f"{t}:{o}")
        if t == "parse":
            bump(acc, "parse:" + " ".join(o.split()[:2]))
        if t == "addknown":
            bump(acc, "addknown:n=" + o.split()[0])
        if t == "dial":
            bump(acc, "dial:" + " ".join(o.split(" | ")[0].split()[:2 if o.startswith("err") else 1]))
        if t == "bind" and "listen=[" in o:
            f = obs_fields(o)
            bump(acc, "bind:listeners=%d" % len(items_of(f.get("bound", "[]")) or []))
            if any(x.startswith(("0.0.0.0", "[::]")) for x in items_of(f.get("bound", "[]")) or []):
                bump(acc, "bind:wildcard")
            bump(acc, "bind:" + f.get("dial", "?").split(":")[0])
        if t in ("localdial", "accept"):
            bump(acc, f"{t}:" + " ".join(o.split()[:1]) + (" none" if o == "ok none" else ""))
        if t == "resolve":
            w = o.split(" ")
            bump(acc, "resolve:" + (w[0] + " " + (w[2] if w[2] == "ok" else " ".join(w[2:4])) if len(w) >= 3 else o))
        if t in ("hdial", "pubadd", "hdialaddr"):
            bump(acc, f"{t}:" + " ".join(o.split(" | ")[0].split()[:2]))
        if o.startswith("panic"):
            bump(acc, "panic")
    sizes = [len(parse_store(o.split(" | ", 1)[1]) or {}) for op, o in zip(case, out)
             if " | " in o and not o.endswith("-") and not op.startswith("pub")]
    if sizes:
        bump(acc, "max-store:%d" % (10 * (max(sizes) // 10)))
    bump(acc, "case-len:%d" % (10 * (len(case) // 10)))


def nontrivial(case, out):
    stored = any(" | [/" in o for o in out)
    refused = any(op.startswith("addknown") and o.startswith("0 ") for op, o in zip(case, out)) or \
        any(o == "false" for o in out)
    if stored and refused:
        return True
    # listener / DNS / handle families: something reported or resolved, and something refused
    good = any(" listen=[/" in o or " ok " in o and op.startswith("resolve") or o.startswith("ok new") or " open c" in o
               for op, o in zip(case, out))
    bad = any((op.startswith("bind") and any(x in op for x in ("/dns", "/udp", "/ws"))) or " err " in o or o.startswith("err")
              for op, o in zip(case, out))
    return good and bad


# ---------------------------------------------------------------- manager-level histories (engine: extra_cases)
# The c10 area reduces PeerState to Disconnected/Opening/Dialing. "Dial successes and failures re-score exactly the
# address used" must hold in EVERY state the manager can be in when the outcome arrives (Connected with the dial parked
# as secondary record — the simultaneous-dial race —, Disconnected with a dial record, Opening superseded by an inbound
# connection, ...): those histories run in the c05 area (the real TransportManager behind a scripted transport, model
# Model/Manager/Dial.lean) with `scores <p>` around every outcome, judged by `mgr_common.oracle_scores`.
def extra_cases(rng, tier):
    from . import mgr_common, c01
    yield "C05", list(mgr_common.gen_score_cases(rng, tier))
    # The address the manager scores on ConnectionEstablished is the one the TRANSPORT reports: the c01 area's `tp` op dials
    # through two real TcpTransports (open / dial x every host kind) and prints the endpoint address next to the dialed one.
    ops = [f"tp via={via} host={host} d={d} l={l} exp={e}"
           for via in ("open", "dial") for host in c01.HOSTS
           for (d, l) in [tuple(rng.sample(range(8), 2))] for e in [rng.choice([l, "none"])]]
    if tier == "thorough":
        ops = ops * 3
    yield "C01", c01.chunks(ops, 5)
    # What PROTOCOLS offer goes through `TransportService::add_known_address` before it reaches the handle's filter: the
    # c08 area's `known <p> <kind> <port>` op calls it on a real service with a TCP-enabled manager handle and prints the
    # peer's address book afterwards (kinds: no id / the peer's id / another peer's id / two ids / relay shapes).
    from . import c08
    yield "C08", c08.gen_known_cases(rng, tier)


def oracle_extra(xpid, case, out):
    from . import mgr_common, c01
    if xpid == "C08":
        from . import c08
        return [dict(v, msg="(real TransportService + manager handle, c08 area) " + v["msg"]) for v in c08.oracle_known(case, out)]
    if xpid == "C01":
        res = []
        for i in range(min(len(case), len(out))):
            res += c01.tp_endpoint_oracle(case, out, i)
        return [dict(v, msg="(real TcpTransports, c01 area) " + v["msg"]) for v in res]
    return [dict(v, msg="(real TransportManager, c05 area) " + v["msg"]) for v in mgr_common.oracle_scores(case, out)]


def stats_extra(xpid, case, out, acc):
    from . import mgr_common, c01
    if xpid == "C08":
        from . import c08
        return c08.stats_known(case, out, acc)
    if xpid == "C01":
        return c01.stats(case, out, acc)
    mgr_common.stats_scores(case, out, acc)


def matches_known(k, v):
    return False

# ---------------------------------------------------------------- real nodes through the public API (engine: extra_cases)
# `Litep2p::new` (src/lib.rs), `ConfigBuilder` (src/config.rs) and the protocol / transport `Config` builders hand every
# constructed object its configuration; the `node` area (checks/node.py) builds real nodes, compares what the CONSTRUCTED
# objects hold (and what a connection's `ProtocolSet` answers per main / fallback name) with the wiring model
# (Model/Node/Wiring.lean) and judges this property's real-time scenario (dial by peer id through the real TCP transport with one
# dial slot: attempts in non-increasing score order) at node level.
from . import node as _node  # noqa: E402
_node.install(globals())
