"""Coordinator-level routing-table histories (c16 area, `t` box: the real `Kademlia` event loop with dictated
Kademlia keys; model: Model/Kad/TableWiring.lean over Model/Kad/Table.lean). Used by C14 (`extra_cases`) for the
coordinator-level reading of "a connected peer is never displaced", and by C16's own run for the tie."""
from .common import bump

BITS = 256


def hx(n):
    return "%064x" % n


def key_in_bucket(rng, local, i):
    return local ^ ((1 << i) | (rng.getrandbits(i) if i else 0))


class W:
    def __init__(self, rng):
        self.rng = rng
        r = rng.random()
        self.local = 0 if r < 0.1 else rng.getrandbits(BITS)
        self.bucket = rng.choice([8, 8, 100, 200, 255, rng.randrange(6, BITS)])
        self.ops = ["t new " + hx(self.local)]
        self.used = {self.local}
        self.n = 0

    def peer(self, bucket=None):
        b = self.bucket if bucket is None else bucket
        for _ in range(50):
            k = key_in_bucket(self.rng, self.local, b)
            if k not in self.used:
                break
        self.used.add(k)
        self.n += 1
        self.ops.append(f"t peer {self.n} {hx(k)}")
        return self.n

    def op(self, s):
        self.ops.append("t " + s)


def stale_dialfail_case(rng):
    """The victim is in the table and connected; a `DialFailure` for it arrives (before / right after / long after the
    connection came up, with or without a `PeerContext`); its bucket fills up with connected peers; newcomers of the
    same bucket are added."""
    w = W(rng)
    rngc = rng.choice
    v = w.peer()
    others = [w.peer() for _ in range(rng.choice([19, 19, 20, 22]))]
    new = [w.peer() for _ in range(rng.choice([1, 2, 3]))]
    far = w.peer(rng.randrange(0, BITS))
    order = rngc(["add-est-fail", "add-est-fail", "add-fail-est", "est-add-fail", "fill-then-fail"])
    dialer = rngc("01")
    ctx = rng.random() < 0.3

    def fail():
        w.op(f"dialfail {v} {rngc([0, 1, 1, 2])}")
        w.op(f"table {v}")

    def fill():
        for q in others:
            w.op(f"add {q} {rngc([1, 1, 2])}")
            if rng.random() < 0.9:
                w.op(f"est {q} {rngc('01')}")
            if rng.random() < 0.1:
                w.op(f"dialfail {q} {rngc([0, 1])}")

    if order == "add-est-fail":
        w.op(f"add {v} 1"); w.op(f"est {v} {dialer}")
        if ctx:
            w.op(f"inbound {v}")
        fail(); fill()
    elif order == "add-fail-est":
        w.op(f"add {v} 1"); fail(); w.op(f"est {v} {dialer}"); fill()
    elif order == "est-add-fail":
        # unknown to the table when it connects; an inbound substream gives it a PeerContext, so the add is `Connected`
        w.op(f"est {v} {dialer}"); w.op(f"inbound {v}"); w.op(f"add {v} 1"); fail(); fill()
    else:
        w.op(f"add {v} 1"); w.op(f"est {v} {dialer}")
        if ctx:
            w.op(f"inbound {v}")
        fill(); fail()
    w.op(f"add {far} 1")
    w.op(f"dialfail {far} 1")
    for q in new:
        w.op(f"add {q} 1")
        w.op(f"table {v} {q}")
        if rng.random() < 0.5:
            w.op(f"est {q} 1")
    if rng.random() < 0.4:
        # the legitimate way out: the connection closes, then the slot may be reused
        w.op(f"closed {v}")
        extra = w.peer()
        w.op(f"add {extra} 1")
        w.op(f"table {v} {extra}")
    w.op("dump")
    return w.ops


def random_wire_case(rng, size):
    w = W(rng)
    peers = [w.peer() for _ in range(rng.choice([5, 21, 24]))] + [w.peer(rng.randrange(0, BITS)) for _ in range(3)]
    known = rng.random() < 0.25       # without the known finding: no `add` for a connected peer without PeerContext
    up, ctx = set(), set()
    for _ in range(size):
        p = rng.choice(peers)
        r = rng.random()
        if r < 0.30:
            if p in up and p not in ctx and not known:
                w.op(f"inbound {p}")
                ctx.add(p)
            w.op(f"add {p} {rng.choice([0, 1, 1, 1, 2])}")
        elif r < 0.55:
            w.op(f"est {p} {rng.choice('01')}")
            up.add(p)
        elif r < 0.65:
            w.op(f"closed {p}")
            up.discard(p); ctx.discard(p)
        elif r < 0.80:
            w.op(f"dialfail {p} {rng.choice([0, 1, 2])}")
        elif r < 0.88:
            w.op(f"inbound {p}")
            if p in up:
                ctx.add(p)
        elif r < 0.96:
            w.op("table " + " ".join(map(str, rng.sample(peers, min(3, len(peers))))))
        else:
            w.op("dump")
    w.op("dump")
    return w.ops


def malformed(rng):
    ops = ["t add 1 1", "t new zz", "t peer 1 12", "t peer 0 " + hx(5), "t peer 1 " + hx(5), "t peer 1 " + hx(6),
           "t est 1 2", "t est 2 1", "t add 1 9", "t table", "t table 7", "t frob", "t closed 1", "t inbound 1", "t dump",
           "net g g", "x tick 1"]
    rng.shuffle(ops)
    return ["t new " + hx(rng.getrandbits(BITS))] + ops


def gen_wire_cases(rng, tier):
    n_stale, n_rand = {"quick": (40, 40), "thorough": (3000, 3000), "search": (150, 150)}[tier]
    for _ in range(n_stale):
        yield stale_dialfail_case(rng)
    for _ in range(n_rand):
        yield random_wire_case(rng, rng.choice([30, 80, 150]))
    yield malformed(rng)


# ------------------------------------------------------------------------------------------ oracle

def parse_bucket(s):
    idx, rest = s.split(":", 1)
    rest = rest.strip()[1:-1]
    nodes = []
    if rest:
        for item in rest.split(","):
            p, c, a = item.split("/")
            nodes.append((None if p == "j" else int(p), c, a == "1"))
    return int(idx), nodes


def oracle_wire(case, out):
    """C14 at coordinator level, on the implementation's observations only: every peer sits in the bucket of its
    dictated key, a bucket never holds more than 20 nodes, and a peer whose connection is open (ConnectionEstablished
    delivered, ConnectionClosed not) is `Connected` in the table and keeps its slot."""
    bad = []
    local = None
    keys = {}
    up = set()          # open connections
    ctx = set()         # peers with an inbound substream since their connection came up (they have a PeerContext)
    slot = {}           # open peer -> (bucket, slot) where it was last seen
    muted = set()       # peers already reported in this connection episode

    def v(kind, msg, i, **kw):
        bad.append(dict({"kind": kind, "msg": msg, "step": i, "op": case[i], "out": out[i] if i < len(out) else None}, **kw))

    def check_bucket(idx, nodes, i, t):
        if len(nodes) > 20:
            v("bucket-bound", f"bucket {idx} holds {len(nodes)} nodes", i)
        real = [p for p, _, _ in nodes if p is not None]
        if len(real) != len(set(real)):
            v("stored-twice", f"a peer is stored twice in bucket {idx}", i)
        for s, (p, c, a) in enumerate(nodes):
            if p is None or p not in keys:
                continue
            d = keys[p] ^ local
            if d == 0:
                v("local-stored", f"peer {p} has the local key and is stored", i)
            elif d.bit_length() - 1 != idx:
                v("placement", f"peer {p} stored in bucket {idx}, its key belongs to bucket {d.bit_length() - 1}", i)
            if p in up and p not in muted:
                if c != "c":
                    muted.add(p)
                    v("open-peer-not-connected", f"peer {p} has an open connection but its routing-table entry is "
                      f"'{c}' after `{case[i]}` (a replaceable entry is overwritten by the next peer of a full bucket)", i,
                      cause=t[1], same_peer=len(t) > 2 and t[2] == str(p), had_context=p in ctx, peer=p)
                else:
                    slot[p] = (idx, s)
        for p, (b, s) in list(slot.items()):
            if b == idx and p in up and p not in muted and (s >= len(nodes) or nodes[s][0] != p):
                muted.add(p)
                v("open-peer-displaced", f"peer {p} has an open connection and was stored in bucket {b} slot {s}; after "
                  f"`{case[i]}` that slot holds {nodes[s][0] if s < len(nodes) else 'nothing'}", i, peer=p, cause=t[1])

    for i, op in enumerate(case):
        if i >= len(out):
            break
        o = out[i]
        t = op.split()
        if o.startswith("panic"):
            v("panic", f"panic: {o}", i)
            break
        if o in ("skipped", "bad-op", "<missing>", "ok", "noop", ""):
            if o == "skipped":
                break
            if o == "ok" and len(t) == 3 and t[1] == "new":
                try:
                    local = int(t[2], 16)
                except ValueError:
                    pass
            if o == "ok" and len(t) == 4 and t[1] == "peer":
                try:
                    keys[int(t[2])] = int(t[3], 16)
                except ValueError:
                    pass
            continue
        if len(t) < 2 or t[0] != "t" or local is None:
            continue
        try:
            if t[1] in ("add", "est", "closed", "dialfail", "inbound"):
                p = int(t[2])
                if t[1] == "est":
                    up.add(p); ctx.discard(p); muted.discard(p); slot.pop(p, None)
                elif t[1] == "closed":
                    up.discard(p); ctx.discard(p); muted.discard(p); slot.pop(p, None)
                elif t[1] == "inbound":
                    ctx.add(p)
                if o != "local":
                    idx, nodes = parse_bucket(o)
                    check_bucket(idx, nodes, i, t)
            elif t[1] == "dump":
                for part in ([] if o == "-" else o.split(";")):
                    idx, nodes = parse_bucket(part)
                    check_bucket(idx, nodes, i, t)
            elif t[1] == "table":
                for item in o.split():
                    if item.startswith("P["):
                        continue
                    p, e = item.split("=")
                    p = int(p)
                    if e == "-":
                        if p in slot and p in up and p not in muted:
                            muted.add(p)
                            v("open-peer-displaced", f"peer {p} has an open connection and was stored in bucket "
                              f"{slot[p][0]} slot {slot[p][1]}; it is no longer in the table", i, peer=p, cause=t[1])
                        continue
                    b, s, c = e.split(".")
                    if p in up and p not in muted:
                        if c != "c":
                            muted.add(p)
                            v("open-peer-not-connected", f"peer {p} has an open connection but its routing-table entry "
                              f"is '{c}'", i, cause=t[1], same_peer=False, had_context=p in ctx, peer=p)
                        elif p in slot and slot[p] != (int(b), int(s)):
                            muted.add(p)
                            v("open-peer-displaced", f"peer {p} moved from {slot[p]} to {(int(b), int(s))}", i, peer=p,
                              cause=t[1])
        except (ValueError, IndexError):
            v("unparsable", f"unparsable observation {o!r}", i)
            break
    return bad


def stats_wire(case, out, acc):
    for op, o in zip(case, out):
        t = op.split()
        bump(acc, "wire-op:" + (t[1] if len(t) > 1 else "?"))
        if o.count("/") >= 40 and len(t) > 1 and t[1] != "dump":
            bump(acc, "wire:bucket-full")
        if len(t) > 1 and t[1] == "dialfail" and "/c/" in o and f"{t[2]}/c/" in o.replace("[", ",").replace(":", ""):
            bump(acc, "wire:dialfail-for-connected-peer")
        if o == "noop":
            bump(acc, "wire:noop")
