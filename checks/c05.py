"""C05 — Every dial attempt ends in exactly one outcome and never wedges the peer
(model: Model/Manager/*.lean, adapter: src/verif/c05.rs, shared with C06)."""
from . import mgr_common as M
from .mgr_common import parse_obs, Ghost, stats, model_lines, mutate_case, last_peer, base_op  # noqa: F401 (engine hooks)

ID = "C05"
AREA = M.AREA
LEAN_PROPS = "Litep2pVerif.Props.C05"
CONST_TABLE = [
    ("DIAL_DEADLINE_MULTIPLIER", "src/transport/mod.rs", r"const DIAL_DEADLINE_MULTIPLIER: u32 = ([^;]+);", 2),
]
THEOREMS = ["no_dup_outcome", "dial_ledger", "quiescent_dialable", "addr_total", "dial_address_parses_for_tcp",
            "dial_address_peers_agree", "transport_dial_total_on_accepted_shapes", "protocol_dial_ledger", "protocol_dial_joins",
            "protocol_notified_despite_full_channel", "facade_reports_every_outcome",
            "poll_next_reports_every_ready_result", "executor_collects_every_due_event", "queued_dial_failure_is_due",
            "open_deadline_reports_failure"]
MANIFEST = {
    "text": "Lean 4 theorems about an executable operational model of the connection manager with a ghost ledger of accepted "
            "dial attempts: no_dup_outcome, dial_ledger (outcome + inflight = 1 for every attempt in every reachable state), "
            "quiescent_dialable, addr_total (every multiaddress shape), for all histories in which the transport keeps the "
            "Transport-trait contract (stated as an executable predicate) and all limit configurations. Findings (d) and (f) "
            "were repaired by two fix: commits and the theorems are proved for the repaired code. Protocol level "
            "(Model/Manager/Proto.lean): bounded event channel per installed protocol, the command channel, the DialPeer / "
            "DialAddress arms of next() (incl. the DialFailure reports of the two fixes for failing queued commands), every site where protocols are "
            "told a dial failure (try_send, then a blocking send that suspends next()) or a connection; protocol_dial_ledger "
            "(every accepted request is queued or processed once; a processed one started an attempt whose single report "
            "reaches every protocol, or got exactly one failure report, or joined; delivery = taken out ++ still buffered), "
            "protocol_dial_joins, protocol_notified_despite_full_channel (a full channel delays, never loses), for every "
            "number/order of protocols, every capacity and every interleaving; a failed queued DialAddress gets exactly one "
            "DialFailure{peer, [address]} per protocol and no processed request ends with a merely logged error (the former "
            "finding 'queued DialAddress failure is silent' is repaired by a fix: commit; the handle only queues addresses "
            "ending in /p2p). Facade level (Model/Manager/Facade.lean): Litep2p::dial / dial_address forward to the manager and "
            "the match of Litep2p::next_event over every TransportEvent shape (facadeEvent; none = the `_ => {}` arm); "
            "facade_reports_every_outcome: every attempt the facade accepted and the manager concluded has exactly one user "
            "event (uoutcome + inflight = 1), it is ConnectionEstablished / DialFailure / ListDialFailures carrying exactly what "
            "the manager reported — an OpenFailure with an EMPTY error list (TcpTransport's overall dial deadline) included — "
            "no event the manager can return falls into the dropping arm, one user event per manager event. Tie: seeded differential run "
            "of the real TransportManager (scripted Transport, real protocol contexts with small channels, requests through "
            "the real TransportManagerHandle, connections reported by the real ProtocolSet; in 30 % of the histories the manager sits inside a real Litep2p object, the dials go through "
            "Litep2p::dial / dial_address and every operation polls Litep2p::next_event to quiescence, printing the "
            "Litep2pEvents the user sees) against the model, plus an outcome-ledger oracle per attempt and per protocol, at the "
            "facade level on the user events (failure reports carry no connection id: each concluded attempt is owed exactly "
            "one report naming what the transport reported; never silence at quiescence, never a report nobody is owed). "
            "Coverage round mgr2: the scripted transport owns a REAL TcpTransport (built from the real transport_handle, never "
            "polled) and returns the Result of its real synchronous dial/open; transport_dial_total_on_accepted_shapes: every "
            "address dial_address / dial hand to the transport passes the synchronous part of TcpTransport::dial/open (the "
            "address parser, nothing else) — ports 0/65535, unspecified/broadcast/loopback/multicast hosts included — so the `?` "
            "after Transport::dial that would leave the peer Dialing forever is never taken; a synchronous refusal added to the "
            "real transport is a disagreement with the model and an `error-changes-state`/`wedged` verdict of the oracle. "
            "Round tcp3: the TCP transport's own event stream (Model/Tcp/Poll.lean = impl Stream for TcpTransport as 'drain "
            "until an event or nothing ready'): poll_next_reports_every_ready_result (Pending => no ready result is left in the "
            "listener, pending_raw_connections or pending_connections: the waker contract), executor_collects_every_due_event (an "
            "executor that re-polls after every item and stops at Pending collects exactly the events the queued results stand "
            "for), queued_dial_failure_is_due; tied by the c01 area's `pn` op: a real TcpTransport with scripted ready results "
            "in its private queues (failed inbound negotiations, failed/successful dials, open results with live/aborted/missing "
            "cancel handles, in every order; real inbound sockets in the accept queue) polled through Stream::poll_next with a "
            "counting waker; oracle: every queued outcome reported exactly once without an outside wake-up. Round gtcp: the future "
            "TcpTransport::open queues (openRun / openFuture: attempts one at a time, stalled attempts cost connection_open_timeout, "
            "the exhausted list and the overall deadline DIAL_DEADLINE_MULTIPLIER * connection_open_timeout resolve to Failed, only "
            "Transport::cancel yields Canceled): open_deadline_reports_failure (without a cancel exactly one of OpenFailure / "
            "ConnectionOpened reaches the executor, never silence; no answering address => OpenFailure); tied by the c01 area's `dl` "
            "op: a real TcpTransport with a 200-400 ms connection_open_timeout and one dial slot opens loopback addresses that "
            "accept-and-never-speak / refuse / answer and its event stream is polled in real time past the deadline; oracle verdict "
            "open-deadline-silent.",
    "note": "Trusted: Lean kernel; axioms propext/Quot.sound/Classical.choice; the model and its sampled tie; the environment "
            "contract `allowed` (events only for outstanding obligations, accept succeeds, dial/open/negotiate return Ok — "
            "proved for dial via dial_address_parses_for_tcp, read off tcp/mod.rs for open/negotiate); TcpTransport's poll_next "
            "bookkeeping is modelled separately (Model/Tcp/Poll.lean: ready results only — FuturesUnordered / tokio wake a "
            "future's task when it becomes ready) and not composed with the manager model; an accepted connection reports itself to the protocols only "
            "when every protocol channel has room (the blocking broadcast of ProtocolSet::report_connection_established is "
            "C09's subject), the command channel (256) never fills up.",
    "technique": "Lean 4 proof (ghost-ledger invariant by induction over all contract-abiding histories) + model/implementation correspondence check",
    "design_ref": "DESIGN.md §7 C05, §8 (d)-(g)",
}
RULE = ("closed-loop seeded histories (limit configs none/0/1/2/(3,2)/mixed; 2-3 peers x 3 addresses; dial, dial_address, "
        "add_known_address, open/negotiate success and failure, simultaneous inbound connections, limit rejections, accept "
        "results, closures; <= 25 events; 5-15 % of cases with contract-breaking events) plus a stream of adversarial "
        "multiaddress shapes for dial_address incl. boundary targets (port 0 / 65535, unspecified, broadcast, loopback, "
        "multicast, link-local hosts; also through add_known_address + dial = Transport::open); in half of the histories 1-3 protocols with event channels of capacity 1-3 "
        "are installed, dial by peer id / address through the manager handle (limit configs under which queued dials fail), "
        "their channels are filled before and drained after outcomes are delivered (manager blocked inside next()), "
        "application calls are tried while it is blocked; open failures carry one error per address, a subset, or NO error "
        "(overall dial deadline); 30 % of the histories run at the facade level (`facade`, fdial/fdialaddr = Litep2p::dial/"
        "dial_address, observation = Litep2p::next_event polled to quiescence, `fnext` polls again); run on the real TransportManager and on the Lean model; non-trivial = at least "
        "one dial attempt started and concluded; distinct = distinct (ops, observations) transcripts by SHA-256; plus (c01 area) 31 `pn` "
        "operations per quick run: 13 fixed queue shapes with event-less results ahead of a dial/open outcome and 18 random "
        "multisets of up to 8 ready results with 0-3 waiting inbound sockets; `dl`: 10 fixed + 4 random address lists "
        "(stall/refuse/answer, 1-4 addresses, timeout 200-400 ms, optional cancel at 50/100 ms) per quick run")
TRUSTED_BASE = ["Lean 4.33 kernel", "axioms: propext, Quot.sound, Classical.choice only",
                "hand-written model Model/Manager/{PeerState,Limits,Dial}.lean tied to manager/{peer_state,limits,mod}.rs by this correspondence run",
                "the environment contract `allowed` of Model/Manager/Dial.lean (what a Transport may report)",
                "facade translation Model/Manager/Facade.lean tied to Litep2p::next_event (src/lib.rs) by the facade-level runs "
                "(the Litep2p object is assembled field by field as Litep2p::new does, around the scripted transport)",
                "adapter /repo/src/verif/c05.rs (scripted Transport delegating the synchronous part of dial/open/cancel to a real, never "
                "polled TcpTransport; connection ids of inbound connections through the real TransportHandle::next_connection_id; "
                "next() / next_event() polled to quiescence per op; a next() future that is "
                "pending inside an arm is kept and resumed, recognised by a second poll that does not reach the transport), "
                "harness, verif.py, checks/c05.py, checks/mgr_common.py",
                "tokio mpsc semantics (bounded channel, a blocked send() is served before later try_send()s)",
                "TcpTransport::poll_next model Model/Tcp/Poll.lean tied by the `pn` op of the c01 area (adapter /repo/src/verif/c01_tcp.rs, "
                "checks/tcp_poll.py); futures::FuturesUnordered hands out ready futures in push order and registers the task's waker "
                "for the others; tokio::select! fairness",
                "`dl` (round gtcp): real time on loopback — a listener socket that is never accept()ed completes the TCP handshake "
                "(kernel backlog) and stays silent; attempts are modelled for max_parallel_dials = 1 only; shapes whose outcome hinges "
                "on a race between an attempt's timeout and the deadline are not generated"]
ASSUMPTIONS = ["default feature set: TCP is the only SupportedTransport",
               "the transport keeps the Transport-trait contract: one terminal event per dial/open/negotiate unless cancelled, "
               "reported peer = the /p2p it parsed, accept succeeds for a connection it has just reported",
               "addresses in a peer's address store have the TCP shape and end in that peer's /p2p (add_known_address filter, C10)",
               "fewer than 64 addresses per peer in a case",
               "protocol level: the application does not call the manager and the environment delivers nothing while next() "
               "is blocked on a full protocol channel; a connection's accept future runs when every protocol channel has room; "
               "fewer than 256 queued commands"]
KEEP_PREFIX = 1


def gen_cases(rng, tier):
    return M.gen_cases(rng, tier, share_addr=0.2, share_proto=0.5, share_facade=0.3)


PROTO_CORPUS = [
    # a protocol dials, its channel is full when the open failure is delivered: the manager waits for it
    ["limits none none", "protocols 2 cap=1", "addknown 1 ip4.11/tcp.1001/p2p.1", "pdial 0 1", "pfill 0", "pfill 1",
     "ev openfail q1 errs=ip4.11/tcp.1001/p2p.1=t", "dial 1", "pdial 1 1", "pdrain 0", "pdrain 1", "pdrain 0", "pdrain 1"],
    # queued DialPeer at the outgoing-connection limit: DialFailure{peer, []} (fix e94cf63), also through a full channel
    ["limits none 0", "protocols 1 cap=2", "addknown 1 ip4.11/tcp.1001/p2p.1", "pdial 0 1", "pfill 0", "pdial 0 1",
     "pdrain 0", "pdrain 0"],
    # negotiation failure and limit rejection of a connection dialed for a protocol
    ["limits none 1", "protocols 2 cap=2", "addknown 1 ip4.11/tcp.1001/p2p.1", "addknown 2 ip4.12/tcp.1002/p2p.2",
     "pdial 0 1", "pdial 1 2", "ev opened q1 ip4.11/tcp.1001/p2p.1", "ev opened q2 ip4.12/tcp.1002/p2p.2", "pfill 1",
     "ev established 1 q1 ip4.11/tcp.1001/p2p.1 dialer", "ev established 2 q2 ip4.12/tcp.1002/p2p.2 dialer",
     "pdrain 1", "accepted q1 ok", "pdrain 0", "pdrain 1"],
    # former finding (r), repaired: a queued DialAddress that fails was only logged; now DialFailure{peer, [address]}
    ["limits none 0", "protocols 1 cap=2", "pdialaddr 0 ip4.11/tcp.1001/p2p.1", "pdrain 0"],
    # ... also through a full channel, and for an unsupported transport; /p2p not last is refused by the handle
    ["limits none none", "protocols 2 cap=1", "pfill 1", "pdialaddr 0 ip4.11/tcp.1001/ws/p2p.1", "pdialaddr 1 ip4.11/tcp.1001/p2p.1/ws",
     "pdrain 1", "pdrain 0", "pdrain 1"],
]


FACADE_CORPUS = [
    # every TransportEvent shape through Litep2p::next_event: open failure with 0 (overall dial deadline), 2 and 1
    # errors, dial failure, connection established / closed, a limit-rejected dialed connection
    ["limits none none", "facade", "addknown 1 ip4.11/tcp.1001/p2p.1,dns.1/tcp.3001/p2p.1", "fdial 1 as=c1",
     "ev openfail c1", "fnext", "fdial 1 as=c2",
     "ev openfail c2 errs=ip4.11/tcp.1001/p2p.1=t,dns.1/tcp.3001/p2p.1=a", "fdial 1 as=c5", "ev openfail c5 errs=dns.1/tcp.3001/p2p.1=t",
     "fdialaddr ip4.12/tcp.1002/p2p.2 as=c3", "ev dialfail c3 ip4.12/tcp.1002/p2p.2 t",
     "fdialaddr ip4.12/tcp.1002/p2p.2 as=c4", "ev established 2 c4 ip4.12/tcp.1002/p2p.2 dialer", "accepted c4 ok",
     "ev closed 2 c4", "fnext"],
    ["limits none 1", "facade", "fdialaddr ip4.11/tcp.1001/p2p.1 as=c1", "fdialaddr ip4.12/tcp.1002/p2p.2 as=c2",
     "ev established 1 c1 ip4.11/tcp.1001/p2p.1 dialer", "ev established 2 c2 ip4.12/tcp.1002/p2p.2 dialer",
     "accepted c1 ok", "ev pendingin c3", "ev established 1 c3 ip4.51/tcp.4000 listener", "fnext"],
    # opened with partial errors, then the negotiation fails; an opening attempt superseded by an inbound connection
    ["limits none none", "facade", "addknown 1 ip4.11/tcp.1001/p2p.1,ip4.301/tcp.2001/p2p.1", "fdial 1 as=c1",
     "ev opened c1 ip4.301/tcp.2001/p2p.1 errs=ip4.11/tcp.1001/p2p.1=t", "ev dialfail c1 ip4.301/tcp.2001/p2p.1 n",
     "fdial 1 as=c2", "ev established 1 c3 ip4.51/tcp.4000 listener", "accepted c3 ok", "ev closed 1 c3", "fdial 1 as=c4",
     "ev openfail c4"],
    # facade level with protocols: the manager is suspended inside Litep2p::next_event on a full channel
    ["limits none none", "facade", "protocols 2 cap=1", "addknown 1 ip4.11/tcp.1001/p2p.1", "fdial 1 as=c1", "pfill 1",
     "ev openfail c1", "pdrain 1", "pdrain 0", "pdrain 1", "fnext"],
]


def corpus():
    return [list(c) for c in M.CORPUS] + [list(c) for c in PROTO_CORPUS] + [list(c) for c in FACADE_CORPUS]


def nontrivial(case, out):
    started = concluded = False
    for o in out:
        ob = parse_obs(o)
        if ob:
            started |= any(c[0] in ("dial", "open") for c in ob["calls"])
            concluded |= any(e["k"] in ("est", "dialfail", "openfail", "udialfail", "ulist") for e in ob["events"])
    return started and concluded


class Protocols:
    """Protocol-level ledger, from the operations and observations only: what every installed
    protocol must have been told (`exp`: one report per concluded dial attempt, one per failed
    request) against what it took out of its channel (`recv`) and what still sits there."""

    def __init__(self, n, cap):
        self.n, self.cap = n, cap
        self.recv = [[] for _ in range(n)]
        self.buf = [[] for _ in range(n)]       # symbolic content of each channel: "fill" | "?"
        self.exp = []                           # (kind, peer, conn-or-None, addrs-or-None, step)
        self.queue = []                         # accepted requests whose command is still queued
        self.requests = 0


def oracle(case, out):
    """Outcome ledger per accepted dial attempt, evaluated on the observations while the environment
    keeps its contract: exactly one of connection / failure once the transport owes nothing for the
    attempt, never two reports, never silence; a peer with nothing in flight and no open connection
    is Disconnected and a dial is really attempted; dial_address never panics and an error leaves
    every peer's state untouched. With protocols installed: every protocol is told every outcome
    exactly once (a full channel may delay it while the manager waits), and every dial request of a
    protocol that was accepted is concluded by an attempt's outcome, by the dial or connection it
    joined, or by a failure report of its own."""
    bad = []
    t0 = case[0].split()
    if t0[0] != "limits" or len(t0) != 3:
        return bad
    g = Ghost(t0[1], t0[2])
    pr = None
    facade = False      # the node is polled through Litep2p::next_event: failure reports carry no connection id
    due = []            # facade level: failure reports the user is owed (attempt concluded, nothing reported yet)

    def v(kind, msg, i):
        bad.append({"kind": kind, "msg": msg, "step": i, "op": case[i], "out": out[i] if i < len(out) else None})

    for i, op in enumerate(case):
        if i == 0 or i >= len(out):
            continue
        o = out[i]
        t = base_op(op.split(" -> ")[0]).split()
        if o == "skipped" or o == "bad-op":
            break
        if o == "busy" or M.is_aux(op):
            continue
        if t[0] == "facade":
            if o == "ok":
                facade = True
                continue
            break
        if t[0] == "protocols":
            if o.startswith("ok") and len(t) == 3 and t[1].isdigit() and t[2].startswith("cap=") and t[2][4:].isdigit():
                pr = Protocols(int(t[1]), int(t[2][4:]))
                continue
            break
        if o.startswith("panic"):
            if t[0] in ("dial", "dialaddr", "addknown", "pdial", "pdialaddr", "pfill", "pdrain", "fnext"):
                v("panic", f"{t[0]} panicked: {o}", i)
            elif g.contract and g.allowed(t):
                v("panic", f"panic on an event the transport contract allows: {o}", i)
            break
        obs = parse_obs(o)
        if obs is None:
            break
        prev = g.prev
        busy_before = {p: (g.owed_of(p), g.live_of(p)) for p in range(0, 8)}
        nled = len(g.ledger)
        inflight_before = {a["conn"]: a["carrier"] in g.owed for a in g.ledger}
        g.update(i, op, obs)
        if not g.contract or g.clash:
            break          # the environment broke its contract: nothing more to say about this history
        suspended = obs["susp"] == "y"
        if facade or any(e["k"] in ("udialfail", "ulist") for e in obs["events"]):
            facade_reports(g, t, obs, inflight_before, due, i, v)
        # --- API answers
        if t[0] in ("dial", "dialaddr"):
            target = int(t[1]) if t[0] == "dial" else last_peer(t[1])
            started = [c for c in obs["calls"] if c[0] in ("dial", "open")]
            if obs["res"].startswith("err"):
                if obs["calls"] or obs["events"]:
                    v("error-with-effects", f"{t[0]} returned {obs['res']} but made calls {obs['calls']}", i)
                if prev is not None and (obs["st"] != prev["st"] or obs["pend"] != prev["pend"]):
                    v("error-changes-state", f"{t[0]} returned {obs['res']} and changed a peer state", i)
                if obs["res"] == "err:connected" and target is not None and not busy_before.get(target, ([], []))[1]:
                    v("phantom-connection", f"peer {target} reported as connected with no open connection", i)
            elif obs["res"] == "ok" and target is not None:
                owed_before, live_before = busy_before.get(target, ([], []))
                if not started and not owed_before:
                    v("silent-dial", f"{t[0]} accepted for peer {target} but nothing was started and nothing is in flight", i)
                if len(started) > 1:
                    v("double-start", f"{t[0]} started {len(started)} attempts", i)
                if started and t[0] == "dialaddr":
                    a = started[0][2][0] if started[0][2] else "-"
                    if M.tcp_peer(a) != target:
                        v("peer-mismatch", f"record kept for peer {target}, transport asked to dial {a}", i)
        # --- ledger (the events of a step the manager is still blocked in have not been returned yet)
        for a in g.ledger:
            n = len(a["reports"])
            inflight = 1 if a["carrier"] in g.owed else 0
            if n > 1:
                v("duplicate-outcome", f"attempt {a['conn']} of peer {a['peer']} got {n} reports {a['reports']}", i)
            elif n + inflight != 1 and not g.acceptfail and not suspended:
                what = "no report and nothing in flight (silence)" if n == 0 else "a report while still in flight"
                if n == 0 and a.get("missing"):
                    what += f": Litep2p::next_event never returned the {a['missing']}"
                v("ledger", f"attempt {a['conn']} of peer {a['peer']}: {what}", i)
        # --- quiescence: nothing owed for p, no open connection with p => Disconnected
        for p, stv in obs["st"].items():
            if not g.owed_of(p) and not g.live_of(p) and not g.acceptfail:
                v("wedged", f"peer {p} is {stv} although nothing is in flight and no connection is open", i)
        # --- protocols
        if pr is not None and obs["ch"] is not None and len(obs["ch"]) == pr.n:
            protocol_ledger(pr, g, t, obs, prev, busy_before, nled, i, v)
        if bad:
            break
    return bad


def facade_reports(g, t, obs, inflight_before, due, i, v):
    """Facade level of the ledger. `Litep2pEvent::DialFailure{address, error}` and
    `ListDialFailures{errors}` name no connection, so they are attributed here: an attempt that the
    transport's failure event of this step concluded (its carrier left `owed`: `ev dialfail`, `ev openfail`,
    or a dialed connection the manager rejected) is owed exactly one failure report naming what the
    transport reported — the failed address, or the list of (address, error) pairs, WHATEVER ITS LENGTH
    (an empty list is a report too). Every failure event the user is handed must be one that is owed (else
    it is a duplicate or names something nobody dialed); the attributed reports then go through the same
    per-attempt ledger as the manager-level events (`duplicate-outcome`, `ledger`: silence)."""
    if t[0] == "ev" and len(t) > 2 and t[1] in ("dialfail", "openfail", "established"):
        for a in g.ledger:
            if inflight_before.get(a["conn"]) and a["carrier"] not in g.owed and not a["reports"]:
                if t[1] == "dialfail" and len(t) > 3:
                    due.append({"a": a, "k": "udialfail", "addr": t[3], "step": i})
                elif t[1] == "openfail":
                    errs = next((x[5:] for x in t[3:] if x.startswith("errs=")), "")
                    due.append({"a": a, "k": "ulist", "addrs": [x.split("=")[0] for x in errs.split(",") if x], "step": i})
                elif t[1] == "established" and len(t) > 4 and not any(c[0] == "accept" for c in obs["calls"]):
                    due.append({"a": a, "k": "udialfail", "addr": t[4], "step": i})
    for e in obs["events"]:
        if e["k"] not in ("udialfail", "ulist"):
            continue
        # (a single failed address may be reported either way: DialFailure{a} or ListDialFailures{[a]} name the same thing)
        named = [e["addr"]] if e["k"] == "udialfail" else e["addrs"]
        hit = next((d for d in due if d["k"] == e["k"] and named == ([d["addr"]] if d["k"] == "udialfail" else d["addrs"])), None) or \
            next((d for d in due if d["k"] != e["k"] and named == ([d["addr"]] if d["k"] == "udialfail" else d["addrs"])), None)
        shown = e["addr"] if e["k"] == "udialfail" else "[" + ",".join(e["addrs"]) + "]"
        if hit is None:
            known = any(shown in (x.get("addr"), "[" + ",".join(x.get("addrs", ["?"])) + "]") for x in g.facade_done)
            v("duplicate-outcome" if known else "unowed-report",
              f"the user was handed a failure report {e['k']} {shown} that no concluded attempt is waiting for "
              f"({'a second report for an attempt already reported' if known else 'nothing of that kind was dialed and failed'})", i)
            continue
        due.remove(hit)
        g.facade_done.append(hit)
        hit["a"]["reports"].append((i, e["k"]))
        e["conn"] = hit["a"]["conn"]
    if obs["susp"] != "y":
        for d in due:
            # (the per-attempt ledger below reports the silence; this names what is missing)
            d["a"].setdefault("missing", f"{d['k']} for the failure of step {d['step']}")


def protocol_ledger(pr, g, t, obs, prev, busy_before, nled, i, v):
    j = int(t[1]) if t[0] in ("pdial", "pdialaddr", "pfill", "pdrain") and t[1].isdigit() and int(t[1]) < pr.n else None
    # what the protocol took out of its channel
    if t[0] == "pdrain" and j is not None:
        got = [] if obs["res"] == "got=-" else obs["res"][4:].split(",")
        if len(got) != len(pr.buf[j]) or any((x == "fill") != (b == "fill") for x, b in zip(got, pr.buf[j])):
            v("channel-content", f"protocol {j} took {got} out of a channel that held {pr.buf[j]}", i)
        pr.recv[j] += [x for x in got if x != "fill"]
        pr.buf[j] = []
    if t[0] == "pfill" and j is not None and obs["res"].startswith("n="):
        pr.buf[j] += ["fill"] * int(obs["res"][2:])
    # a request of a protocol: refused, joined to the dial in progress, or queued
    if t[0] in ("pdial", "pdialaddr") and j is not None and obs["res"] == "ok":
        peer = int(t[2]) if t[0] == "pdial" else last_peer(t[2])
        was = (prev["st"].get(peer, "") if prev else "") if peer is not None else ""
        pr.requests += 1
        if t[0] == "pdial" and was[:1] in ("G", "O", "D"):
            pass                       # a dial of that peer is in progress: its outcome is told to every protocol
        else:
            pr.queue.append({"kind": t[0], "peer": peer, "proto": j, "step": i, "addr": t[2]})
    # outcomes the manager returned in this step (those of a step it was blocked in come first): every
    # protocol must have been told before
    for e in obs["events"]:
        if e["k"] == "est":
            pr.exp.append(("est", e["peer"], e["conn"], None, i))
        elif e["k"] in ("dialfail", "udialfail"):
            pr.exp.append(("df", last_peer(e["addr"]), None, [e["addr"]], i))
        elif e["k"] in ("openfail", "ulist"):
            who = next((a["peer"] for a in g.ledger if a["conn"] == e.get("conn")), None)
            pr.exp.append(("df", who, None, None, i))
    # commands the manager got to in this step, in order
    done = max(0, len(pr.queue) - obs["cmd"])
    new_attempts = list(g.ledger[nled:])
    seen_busy = dict(busy_before)
    for r in pr.queue[:done]:
        p = r["peer"]
        mine = next((a for a in new_attempts if a["peer"] == p), None)
        if mine is not None:
            new_attempts.remove(mine)      # the request started this attempt: concluded by the attempt's outcome
            seen_busy[p] = ([mine["conn"]], seen_busy.get(p, ([], []))[1])
            continue
        owed_before, live_before = seen_busy.get(p, ([], []))
        addrs = [] if r["kind"] == "pdial" else [r["addr"]]
        if owed_before or live_before:
            # joined the dial in progress / the peer is connected: concluded by that dial's or connection's
            # report; the queued dial may also have failed on its own (e.g. connection limit checked first), then
            # one failure report of its own is legitimate
            pr.exp.append(("df", p, None, addrs, i, True))
            continue
        # the request failed: DialFailure{peer, []} / DialFailure{peer, [address]}
        pr.exp.append(("df", p, None, addrs, i))
    pr.queue = pr.queue[done:]
    if obs["susp"] == "y":
        # blocked on a full channel: some protocols have the report, the others get it after the drain
        for jj in range(pr.n):
            while len(pr.buf[jj]) < obs["ch"][jj]:
                pr.buf[jj].append("?")
        return
    for jj in range(pr.n):
        if obs["ch"][jj] < len(pr.buf[jj]):
            v("channel-content", f"channel of protocol {jj} shrank from {len(pr.buf[jj])} to {obs['ch'][jj]} without a drain", i)
            pr.buf[jj] = pr.buf[jj][:obs["ch"][jj]]
        while len(pr.buf[jj]) < obs["ch"][jj]:
            pr.buf[jj].append("?")
        told = len(pr.recv[jj]) + sum(1 for x in pr.buf[jj] if x != "fill")
        due = [e for e in pr.exp if len(e) == 5]
        if told < len(due):
            kinds = [f"{e[0]}:{e[1]}" for e in due]
            v("protocol-silence", f"protocol {jj} was told {told} outcomes, {len(due)} were due ({kinds}): "
              f"a report was lost", i)
        elif told > len(pr.exp):
            v("protocol-duplicate", f"protocol {jj} was told {told} outcomes, only {len(pr.exp)} were due", i)
        elif not pr.buf[jj]:
            # everything was taken out: the reports themselves, one by one (optional ones may be absent)
            have = []
            for x in pr.recv[jj]:
                f = x.split(":")
                have.append((f[0], int(f[1]) if f[1].isdigit() else -1, f[2] if f[0] == "est" else None,
                             None if f[0] == "est" else ([] if f[2] == "-" else f[2].split("|"))))
            def fits(e, h):
                k, p, c, addrs = e[:4]
                return k == h[0] and (p is None or p == h[1]) and (k != "est" or c == h[2]) and \
                    (k != "df" or addrs is None or addrs == h[3])

            # reach[x] = set of numbers of received reports the first x outcomes can account for
            reach = {0}
            for e in pr.exp:
                nxt = set()
                for hi in reach:
                    if hi < len(have) and fits(e, have[hi]):
                        nxt.add(hi + 1)
                    if len(e) == 6:
                        nxt.add(hi)        # an optional report that was not sent
                reach = nxt
                if not reach:
                    break
            if len(have) not in reach:
                v("protocol-report", f"protocol {jj} was told {have}, the outcomes due are "
                  f"{[e[:4] + (('optional',) if len(e) == 6 else ()) for e in pr.exp]}", i)


def matches_known(k, v):
    return False


# ---------------------------------------------------------------- the real TCP transport's event stream (engine: extra_cases)
# The manager's ledger theorems assume one terminal event per obligation from the transport. For the TCP transport that
# rests on `TcpTransport::poll_next` (a dial's outcome is a ready result queued next to results that yield no event): the
# c01 area's `pn` op fills the real transport's queues and polls it with a counting waker (checks/tcp_poll.py,
# Model/Tcp/Poll.lean); judged here: every queued outcome is reported exactly once without an outside wake-up.
from . import tcp_poll as _tcp_poll  # noqa: E402


def extra_cases(rng, tier):
    yield "C01", _tcp_poll.gen_cases(rng, tier)


def oracle_extra(xpid, case, out):
    if xpid != "C01":
        return []
    return [dict(v, msg="(real TcpTransport, c01 area) " + v["msg"]) for v in _tcp_poll.oracle(case, out)]


def stats_extra(xpid, case, out, acc):
    if xpid == "C01":
        _tcp_poll.stats(case, out, acc)


# ---------------------------------------------------------------- real nodes through the public API (engine: extra_cases)
# `Litep2p::new` (src/lib.rs) and `ConfigBuilder` (src/config.rs) hand every protocol its configuration; the `node` area
# (checks/node.py) builds real nodes, compares the registration record with the wiring model (Model/Node/Wiring.lean)
# and judges this property's real-time scenarios at node level.
from . import node as _node  # noqa: E402
_node.install(globals())
