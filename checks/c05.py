"""C05 — Every dial attempt ends in exactly one outcome and never wedges the peer
(model: Model/Manager/*.lean, adapter: src/verif/c05.rs, shared with C06)."""
from . import mgr_common as M
from .mgr_common import parse_obs, Ghost, stats, model_lines, mutate_case, last_peer  # noqa: F401 (engine hooks)

ID = "C05"
AREA = M.AREA
LEAN_PROPS = "Litep2pVerif.Props.C05"
THEOREMS = ["no_dup_outcome", "dial_ledger", "quiescent_dialable", "addr_total", "dial_address_parses_for_tcp",
            "dial_address_peers_agree"]
MANIFEST = {
    "text": "Lean 4 theorems about an executable operational model of the connection manager with a ghost ledger of accepted "
            "dial attempts: no_dup_outcome, dial_ledger (outcome + inflight = 1 for every attempt in every reachable state), "
            "quiescent_dialable, addr_total (every multiaddress shape), for all histories in which the transport keeps the "
            "Transport-trait contract (stated as an executable predicate) and all limit configurations. Findings (d) and (f) "
            "were repaired by two fix: commits and the theorems are proved for the repaired code. Tie: seeded differential run "
            "of the real TransportManager (scripted Transport) against the model, plus an outcome-ledger oracle.",
    "note": "Trusted: Lean kernel; axioms propext/Quot.sound/Classical.choice; the model and its sampled tie; the environment "
            "contract `allowed` (events only for outstanding obligations, accept succeeds, dial/open/negotiate return Ok — "
            "proved for dial via dial_address_parses_for_tcp, read off tcp/mod.rs for open/negotiate); TcpTransport's own "
            "cancel/poll_next bookkeeping is outside the model.",
    "technique": "Lean 4 proof (ghost-ledger invariant by induction over all contract-abiding histories) + model/implementation correspondence check",
    "design_ref": "DESIGN.md §7 C05, §8 (d)-(g)",
}
RULE = ("closed-loop seeded histories (limit configs none/0/1/2/(3,2)/mixed; 2-3 peers x 3 addresses; dial, dial_address, "
        "add_known_address, open/negotiate success and failure, simultaneous inbound connections, limit rejections, accept "
        "results, closures; <= 25 events; 5-15 % of cases with contract-breaking events) plus a stream of adversarial "
        "multiaddress shapes for dial_address, run on the real TransportManager and on the Lean model; non-trivial = at least "
        "one dial attempt started and concluded; distinct = distinct (ops, observations) transcripts by SHA-256")
TRUSTED_BASE = ["Lean 4.33 kernel", "axioms: propext, Quot.sound, Classical.choice only",
                "hand-written model Model/Manager/{PeerState,Limits,Dial}.lean tied to manager/{peer_state,limits,mod}.rs by this correspondence run",
                "the environment contract `allowed` of Model/Manager/Dial.lean (what a Transport may report)",
                "adapter /repo/src/verif/c05.rs (scripted Transport, one next() poll to quiescence per op), harness, verif.py, checks/c05.py, checks/mgr_common.py",
                "TcpTransport internals (cancel/poll_next bookkeeping), tokio::select! fairness"]
ASSUMPTIONS = ["default feature set: TCP is the only SupportedTransport",
               "the transport keeps the Transport-trait contract: one terminal event per dial/open/negotiate unless cancelled, "
               "reported peer = the /p2p it parsed, accept succeeds for a connection it has just reported",
               "addresses in a peer's address store have the TCP shape and end in that peer's /p2p (add_known_address filter, C10)",
               "fewer than 64 addresses per peer in a case"]
KEEP_PREFIX = 1


def gen_cases(rng, tier):
    return M.gen_cases(rng, tier, share_addr=0.25)


def corpus():
    return [list(c) for c in M.CORPUS]


def nontrivial(case, out):
    started = concluded = False
    for o in out:
        ob = parse_obs(o)
        if ob:
            started |= any(c[0] in ("dial", "open") for c in ob["calls"])
            concluded |= any(e["k"] in ("est", "dialfail", "openfail") for e in ob["events"])
    return started and concluded


def oracle(case, out):
    """Outcome ledger per accepted dial attempt, evaluated on the observations while the environment
    keeps its contract: exactly one of connection / failure once the transport owes nothing for the
    attempt, never two reports, never silence; a peer with nothing in flight and no open connection
    is Disconnected and a dial is really attempted; dial_address never panics and an error leaves
    every peer's state untouched."""
    bad = []
    t0 = case[0].split()
    if t0[0] != "limits" or len(t0) != 3:
        return bad
    g = Ghost(t0[1], t0[2])

    def v(kind, msg, i):
        bad.append({"kind": kind, "msg": msg, "step": i, "op": case[i], "out": out[i] if i < len(out) else None})

    for i, op in enumerate(case):
        if i == 0 or i >= len(out):
            continue
        o = out[i]
        t = op.split()
        if o == "skipped" or o == "bad-op":
            break
        if o.startswith("panic"):
            if t[0] in ("dial", "dialaddr", "addknown"):
                v("panic", f"{t[0]} panicked: {o}", i)
            elif g.contract and g.allowed(t):
                v("panic", f"panic on an event the transport contract allows: {o}", i)
            break
        obs = parse_obs(o)
        if obs is None:
            break
        prev = g.prev
        busy_before = {p: (g.owed_of(p), g.live_of(p)) for p in range(0, 8)}
        g.update(i, op, obs)
        if not g.contract or g.clash:
            break          # the environment broke its contract: nothing more to say about this history
        # --- API answers
        if t[0] in ("dial", "dialaddr"):
            target = int(t[1]) if t[0] == "dial" else last_peer(t[1])
            started = [c for c in obs["calls"] if c[0] in ("dial", "open")]
            if obs["res"].startswith("err"):
                if obs["calls"] or obs["events"]:
                    v("error-with-effects", f"{t[0]} returned {obs['res']} but made calls {obs['calls']}", i)
                if prev is not None and (obs["st"] != prev["st"] or obs["pend"] != prev["pend"]):
                    v("error-changes-state", f"{t[0]} returned {obs['res']} and changed a peer state", i)
                if obs["res"] == "err:connected" and target is not None and not busy_before.get(target, ([], []))[1]:
                    v("phantom-connection", f"peer {target} reported as connected with no open connection", i)
            elif obs["res"] == "ok" and target is not None:
                owed_before, live_before = busy_before.get(target, ([], []))
                if not started and not owed_before:
                    v("silent-dial", f"{t[0]} accepted for peer {target} but nothing was started and nothing is in flight", i)
                if len(started) > 1:
                    v("double-start", f"{t[0]} started {len(started)} attempts", i)
                if started and t[0] == "dialaddr":
                    a = started[0][2][0] if started[0][2] else "-"
                    if M.tcp_peer(a) != target:
                        v("peer-mismatch", f"record kept for peer {target}, transport asked to dial {a}", i)
        # --- ledger
        for a in g.ledger:
            n = len(a["reports"])
            inflight = 1 if a["carrier"] in g.owed else 0
            if n > 1:
                v("duplicate-outcome", f"attempt {a['conn']} of peer {a['peer']} got {n} reports {a['reports']}", i)
            elif n + inflight != 1 and not g.acceptfail:
                what = "no report and nothing in flight (silence)" if n == 0 else "a report while still in flight"
                v("ledger", f"attempt {a['conn']} of peer {a['peer']}: {what}", i)
        # --- quiescence: nothing owed for p, no open connection with p => Disconnected
        for p, stv in obs["st"].items():
            if not g.owed_of(p) and not g.live_of(p) and not g.acceptfail:
                v("wedged", f"peer {p} is {stv} although nothing is in flight and no connection is open", i)
        if bad:
            break
    return bad


def matches_known(k, v):
    return False
