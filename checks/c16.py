"""C16 — every Kademlia operation ends with exactly one terminal event
(model: Model/Kad/Coordinator.lean, adapter: src/verif/c16.rs)."""
import re
from .common import bump

ID = "C16"
AREA = "c16"
LEAN_PROPS = "Litep2pVerif.Props.C16"
THEOREMS = ["terminal_once", "terminal_accounted", "waiting_owned", "occupied_unreachable",
            "terminal_once_at_quiescence", "put_quorum_sound", "quorum_clamp_rule", "settle_covers_timeouts",
            "executor_exactly_one_result", "executor_results_allowed", "every_query_terminates",
            "manual_validation_never_stores", "inbound_answered_per_kind", "manual_update_never_adds",
            "terminal_event_never_dropped", "try_send_drops_witness", "every_query_terminates_when_user_reads"]
CONSTS = ["KAD_READ_TIMEOUT_SECS", "KAD_WRITE_TIMEOUT_SECS", "KAD_EVENT_CHANNEL_SIZE"]
_EXE = "src/protocol/libp2p/kademlia/executor.rs"
CONST_TABLE = [
    ("KAD_READ_TIMEOUT_SECS", _EXE, r"const READ_TIMEOUT: Duration = Duration::from_secs\(([^)]+)\);", 15),
    ("KAD_WRITE_TIMEOUT_SECS", _EXE, r"const WRITE_TIMEOUT: Duration = Duration::from_secs\(([^)]+)\);", 15),
    ("KAD_EVENT_CHANNEL_SIZE", "src/lib.rs", r"const DEFAULT_CHANNEL_SIZE: usize = (\d+)usize;", 4096),
]
MANIFEST = {
    "text": "Lean 4 theorems about an executable model of the Kademlia coordinator (pending dials, pending substreams, "
            "per-peer pending actions, executor futures, the PUT_VALUE/ADD_PROVIDER tracker with its quorum clamping, and the "
            "iterative lookups abstracted to their pending sets), for every schedule of commands, engine actions, transport "
            "events and executor results: terminal_once, terminal_accounted (live xor exactly one terminal event), "
            "waiting_owned (the ownership invariant: every peer a live query waits for is owned by an outstanding dial, "
            "tracked substream open or executor future - proved by induction over the transition system together with "
            "`peers` keys being connected peers and substream ids being unique), occupied_unreachable (the Entry::Occupied "
            "branch of on_connection_established is dead), terminal_once_at_quiescence (full strength: once every "
            "obligation is discharged and the engine drained, no query is live and every started operation has exactly "
            "one terminal event), put_quorum_sound (a reported success counted the clamped quorum of distinct peers, each "
            "backed by a send-success result of a PUT_VALUE/ADD_PROVIDER future - never of a lookup-phase request of the "
            "same query id, by the invariants `at most one record per lookup query and peer` and `no request future in "
            "flight for a peer the tracker waits for`), quorum_clamp_rule; the ownership predicate is additionally "
            "re-evaluated on every state of every validated trace (guarding the tie, not a hypothesis); "
            "plus a trace-validated correspondence run of the real Kademlia "
            "event loop (paused clock, in-memory substreams, scripted transport events and remote peers) against the model, "
            "and a property-level oracle (per query exactly one terminal event once the environment has discharged every "
            "obligation; success of a put/announce only with enough peers that received the data). "
            "Executor (Model/Kad/Executor.lean, every script of the substream and every tick schedule): "
            "executor_exactly_one_result (a submitted future is pending or was yielded exactly once, with a result its method "
            "can produce, no later than WRITE_TIMEOUT + READ_TIMEOUT after submission; afterwards it is not pending), "
            "executor_results_allowed (the coordinator model's result table is the executor's), every_query_terminates (one "
            "allowed result per outstanding future discharges the executor obligation; with dials and opens discharged and "
            "the engine drained every started operation has exactly one terminal event) - tied to the real QueryExecutor "
            "driven on scripted substreams with the paused clock. Serving side (Model/Kad/Serve.lean, every history): "
            "manual_validation_never_stores (Manual mode: every stored key was stored by the user; Automatic: an acceptable "
            "inbound record is stored), inbound_answered_per_kind (FIND_NODE/GET_VALUE/PUT_VALUE/GET_PROVIDERS answered, "
            "ADD_PROVIDER/key-less/undecodable not, whatever the configuration), manual_update_never_adds - tied to the real "
            "Kademlia serving scripted inbound substreams under the ConfigBuilder options. Event channel "
            "(Model/Kad/Events.lean, every capacity and every schedule of sends, suspensions and reads): "
            "terminal_event_never_dropped (read ++ queued ++ held by the suspended send ++ not yet sent = emitted, in order; "
            "a user who keeps reading has read exactly the emitted sequence), try_send_drops_witness (the contrast), "
            "every_query_terminates_when_user_reads (exactly one terminal event per started operation is READ however "
            "often the channel was full) - tied by bursts of more than DEFAULT_CHANNEL_SIZE operations / events of every "
            "kind while the user does not read the real handle.",
    "note": "Trusted: Lean kernel; axioms propext/Classical.choice/Quot.sound; the hand-written model and its tie (sampled "
            "trace validation through adapter src/verif/c16.rs and its three trace points in kademlia/mod.rs); the iterative "
            "lookups are abstract (hypotheses: a lookup with no pending peer acts; no peer is queried twice; fan-out targets "
            "answered) — their internals are C15; the transport manager and TransportService ordering guarantees are "
            "environment hypotheses (C05/C08); bounded time is proved for the executor (logical seconds of the paused tokio "
            "clock, one poll per second) and argued for dials/opens; std::time::Instant based expiry (record/provider TTL) is "
            "only exercised with TTL 0 and the defaults; routing-table buckets never fill up in the check (at most 8 peers), "
            "`closest` on a table larger than the replication factor is accepted in checker mode.",
    "technique": "Lean 4 proof (ownership invariant over a labelled transition system) + trace validation of the real event loop",
    "design_ref": "DESIGN.md §7 C16",
}
RULE = ("seeded scenarios on networks of 2-5 remote peers (address kinds dialable / only-undialable / none): every "
        "operation x quorum {One, N(2), All} x fault placement (no address, dial failure, connection dead or clogged at "
        "establishment, disconnect before/after the request, substream open failure, silent peer + timeouts, undecodable "
        "or wrong reply), cooperative and random schedules, each ending with `settle` (the environment discharges every "
        "obligation); run on the real Kademlia event loop and validated step by step against the Lean model; non-trivial = "
        "at least one terminal event and one engine action; distinct = distinct transcripts by SHA-256; plus S2 scenarios on "
        "real Litep2p nodes over loopback TCP (local node, healthy peer G, fault target F: healthy / only an address of a "
        "transport that is not enabled / closed TCP port / local node at its outgoing-connection limit) x {put to [G,F], "
        "find_node, start_providing} x quorum, real clock, deadline 75 s (12 s where nothing but the missing event is "
        "awaited), no timing compared; the model predicts the terminal kind from the tracker's clamping rule; "
        "executor cases: 2-12 futures of the five QueryExecutor methods on scripted substreams (writable at once / never / "
        "at 1..40 s incl. exactly at the 15 s deadline, reset, reply / EOF / oversized frame at 0..40 s, oversized request), "
        "ticks of 1..31 s, final tick 31 s, every result compared with its second; serving cases: random configuration "
        "(validation mode, update mode, record ttl 0, max record size / count, max message size, provider refresh 30-100 s, "
        "provider ttl 0, known peers, protocol names, Config::default) x inbound FIND_NODE / GET_VALUE / PUT_VALUE (sizes "
        "around the bounds) / ADD_PROVIDER (own / foreign provider) / GET_PROVIDERS / key-less / undecodable / silent / "
        "closing requesters x store_record / put_record / get_record / start_providing / stop_providing (try_ and awaiting "
        "handle variants) x lookups answered with peer lists x clock advances across the refresh interval, ending with "
        "`settle`; nine fixed cases (one per newly driven region) at every seed; event-channel cases (13 per seed): "
        "`burst n <op>` = n in 4097..4296 operations of every kind back to back while the user does not read, `hold` .. "
        "`release <op>` with the channel exactly full / one or two short when one RoutingTableUpdate + FindNodeSuccess / "
        "network partial result / IncomingRecord / IncomingProvider / PutRecordSuccess is due, 4100+ inbound PUT_VALUEs; "
        "after a release / burst the user reads one event per scheduling round; routing-table wiring histories "
        "(checks/kadwire.py, `t` box) for the tie of Model/Kad/TableWiring.lean")
TRUSTED_BASE = ["Lean 4.33 kernel", "axioms: propext, Classical.choice, Quot.sound only",
                "hand-written model Model/Kad/Coordinator.lean tied to kademlia/mod.rs by trace validation",
                "adapter /repo/src/verif/c16.rs (+ c16_engine.rs, c16_manager.rs), three trace points in kademlia/mod.rs, "
                "harness, verif.py, checks/c16.py",
                "iterative lookups (FindNode/GetRecord/GetProviders contexts) abstracted to their pending set; their progress "
                "and no-requery contracts are hypotheses (C15)",
                "transport manager played by the adapter (dial accepted => later ConnectionEstablished or DialFailure); "
                "TransportService event ordering (C08)",
                "tokio paused clock for the 15 s executor timeouts; in-memory yamux substreams",
                "adapter src/verif/c16_exec.rs: the real QueryExecutor on Substreams over scripted in-memory pipes "
                "(src/verif/io.rs), polled once per logical second",
                "hand-written models Model/Kad/Executor.lean and Model/Kad/Serve.lean tied by the same differential run",
                "Model/Kad/Events.lean: tokio's bounded mpsc channel as FIFO + one suspended sender (the coordinator is the "
                "only sender of the event channel); tied by the burst / hold / release cases",
                "adapter src/verif/c16_table.rs (`t` box, dictated keys) for the routing-table wiring model"]
ASSUMPTIONS = ["every accepted dial is concluded, every accepted substream open is answered, every executor future completes "
               "(by reply, close or its timeout) - the real transport manager breaks the first one when the node is at its "
               "outgoing-connection limit (defect dial-at-connection-limit-never-concluded, repaired by a fix: commit; S2 witness in the corpus)",
               "ConnectionEstablished is only delivered for a peer without connection, substream events only for open connections",
               "query ids are unique (shared atomic counter of the handle)",
               "a lookup whose pending set is empty yields an action (C15 terminates)",
               "wall-clock expiry (std::time::Instant) does not elapse during a case except for TTL 0; k-buckets do not fill up"]
KEEP_PREFIX = 1

OPS = ["find_node", "put_record", "put_record_to", "get_record", "start_providing", "get_providers"]
QUORUMS = ["one", "n2", "all"]
TERMINALS = {
    "find_node": {"FindNodeSuccess", "QueryFailed"},
    "put_record": {"PutRecordSuccess", "QueryFailed"},
    "put_record_to": {"PutRecordSuccess", "QueryFailed"},
    "get_record": {"GetRecordSuccess", "QueryFailed"},
    "start_providing": {"AddProviderSuccess", "QueryFailed"},
    "get_providers": {"GetProvidersSuccess", "QueryFailed"},
}


# ------------------------------------------------------------------ generator

class Gen:
    def __init__(self, rng):
        self.rng = rng
        self.key = 0

    def start(self, n, op=None, quorum=None):
        rng = self.rng
        op = op or rng.choice(OPS)
        quorum = quorum or rng.choice(QUORUMS)
        self.key += 1
        k = self.key
        if op == "find_node":
            return f"find_node {rng.randrange(1, 9)}"
        if op == "put_record":
            return f"put_record {k} {quorum}"
        if op == "put_record_to":
            m = rng.randrange(0, min(n, 4) + 1)
            peers = [rng.randrange(1, n + 1) for _ in range(m)] if rng.random() < 0.15 else rng.sample(range(1, n + 1), m)
            return f"put_record_to {k} {','.join(map(str, peers)) or '-'} {quorum}"
        if op == "get_record":
            # sometimes a key that an earlier put_record stored locally
            kk = rng.randrange(1, k + 1) if rng.random() < 0.3 else k
            return f"get_record {kk} {quorum}"
        if op == "start_providing":
            return f"start_providing {k} {quorum}"
        return f"get_providers {k}"

    def nodes(self, n):
        rng = self.rng
        m = rng.choice([0, 1, 2, 2, 3, n])
        return ",".join(map(str, rng.sample(range(0, n + 1), min(m, n + 1)))) or "-"

    def env_op(self, n):
        rng = self.rng
        r = rng.random()
        p = rng.randrange(1, n + 1)
        if r < 0.17:
            return f"established {p}" + rng.choice(["", "", "", "", " cap1", " cap2", " dead"])
        if r < 0.25:
            return f"closed {p}"
        if r < 0.33:
            return f"dialfail {p}"
        if r < 0.55:
            return f"subopen #{rng.randrange(0, 3)}" + (" dead" if rng.random() < 0.1 else "")
        if r < 0.61:
            return f"subfail #{rng.randrange(0, 3)}"
        if r < 0.82:
            extra = rng.choice(["", "", " value", " value", " garbage", " addprov"])
            return f"reply #{rng.randrange(0, 3)} nodes={self.nodes(n)}{extra}"
        if r < 0.87:
            return f"close #{rng.randrange(0, 3)}"
        if r < 0.93:
            return f"advance {rng.choice([1000, 6000, 16000])}"
        if r < 0.96:
            return f"mgr {p} {rng.choice('dic')}"
        return "settle"

    def net(self):
        rng = self.rng
        n = rng.randrange(2, 6)
        kinds = [rng.choice("gggggbbn") for _ in range(n)]
        repl = rng.choice([20, 20, 3, 2, 1])
        return n, kinds, f"net {' '.join(kinds)} repl={repl}"

    def random_case(self):
        rng = self.rng
        n, kinds, net = self.net()
        ops = [net]
        for p in range(1, n + 1):
            if rng.random() < 0.8:
                ops.append(f"add_known_peer {p}")
        for p in range(1, n + 1):
            if rng.random() < 0.3:
                ops.append(f"established {p}" + rng.choice(["", "", " cap1", " dead"]))
        for _ in range(rng.randrange(1, 4)):
            ops.append(self.start(n))
        for _ in range(rng.choice([5, 10, 20, 35])):
            ops.append(self.start(n) if rng.random() < 0.08 else self.env_op(n))
        ops.append("settle")
        return ops

    def cooperative_case(self, op=None, quorum=None, fault=None):
        """Helpful environment (connections come up, substreams open, peers answer with everybody) with one fault
        placement, so that the lookups complete and the put/announce phase is reached."""
        rng = self.rng
        n = rng.randrange(2, 6)
        fault = fault or rng.choice(["none", "noaddr-b", "noaddr-n", "refused", "dead", "clog", "disc-before", "disc-after",
                                     "subfail", "silent", "garbage", "addprov", "deadsub"])
        f = rng.randrange(1, n + 1)
        kinds = ["g"] * n
        if fault == "noaddr-b":
            kinds[f - 1] = "b"
        if fault == "noaddr-n":
            kinds[f - 1] = "n"
        repl = rng.choice([20, 20, 2])
        ops = [f"net {' '.join(kinds)} repl={repl}"]
        for p in range(1, n + 1):
            ops.append(f"add_known_peer {p}")
        pre = rng.random() < 0.4
        if pre:
            for p in range(1, n + 1):
                if p != f or fault in ("none", "silent", "garbage", "addprov", "disc-after", "subfail", "deadsub"):
                    ops.append(f"established {p}")
        nops = rng.choice([1, 1, 2])
        for _ in range(nops):
            ops.append(self.start(n, op, quorum))
        everybody = ",".join(map(str, range(1, n + 1)))
        injected = False
        for rnd in range(rng.choice([3, 4, 6])):
            for p in range(1, n + 1):
                if p == f and fault == "refused":
                    ops.append(f"dialfail {p}")
                elif p == f and fault == "dead":
                    ops.append(f"established {p} dead")
                    ops.append(f"closed {p}")
                elif p == f and fault == "clog":
                    ops.append(f"established {p} cap1")
                elif p == f and fault == "disc-before":
                    ops.append(f"established {p}")
                    ops.append(f"closed {p}")
                else:
                    ops.append(f"established {p}")
            for _ in range(n + 1):
                if fault == "subfail" and not injected and rng.random() < 0.3:
                    ops.append("subfail #0")
                    injected = True
                elif fault == "deadsub" and not injected and rng.random() < 0.3:
                    ops.append("subopen #0 dead")
                    injected = True
                else:
                    ops.append("subopen #0")
            if fault == "disc-after" and not injected:
                ops.append(f"closed {f}")
                injected = True
            for _ in range(n + 1):
                if fault in ("garbage", "addprov") and rng.random() < 0.3:
                    ops.append(f"reply #0 nodes={everybody} {fault}")
                elif fault == "silent" and rng.random() < 0.4:
                    ops.append("advance 6000")
                else:
                    ops.append(f"reply #{0 if rng.random() < 0.8 else 1} nodes={everybody}"
                               + (" value" if rng.random() < 0.6 else ""))
            if fault == "silent":
                ops.append("advance 16000")
        ops.append("settle")
        return ops


# ------------------------------------------------------------------ executor box: scripted substreams

X_KINDS = ["send", "sendeat", "read", "reqresp", "reqeat"]
X_EVENTS = ["w", "w", "w", "reset", "msg", "msg", "eof", "junk"]
X_TIMES = [0, 0, 0, 1, 2, 5, 14, 15, 16, 17, 29, 30, 31, 40]
X_ALLOWED = {
    "send": {"sendok", "sendfail.timeout", "sendfail.closed"},
    "sendeat": {"sendok", "assumeok"},
    "read": {"readok", "readfail.timeout", "readfail.closed"},
    "reqresp": {"sendfail.timeout", "sendfail.closed", "readok", "readfail.timeout", "readfail.closed"},
    "reqeat": {"sendfail.timeout", "sendfail.closed", "readok", "assumeok"},
}


def exec_case(rng):
    """Futures of every kind on scripted substreams (writable / blocked / unblocked around the write deadline, reset,
    reply / EOF / oversized frame around the read deadline), interleaved with ticks; the last tick outlasts every
    deadline."""
    ops = []
    nid = 0
    for _ in range(rng.randrange(2, 6)):
        for _ in range(rng.randrange(1, 4)):
            nid += 1
            kind = rng.choice(X_KINDS)
            evs = []
            for _ in range(rng.choice([0, 1, 1, 2, 2, 3])):
                evs.append(f"{rng.choice(X_EVENTS)}@{rng.choice(X_TIMES)}")
            if kind != "read" and rng.random() < 0.5 and not any(e.startswith("w@") for e in evs):
                evs.insert(0, "w@0")
            big = ["big"] if rng.random() < 0.08 else []
            ops.append(" ".join(["x", "sub", str(nid), kind] + big + evs))
        ops.append(f"x tick {rng.choice([1, 1, 2, 5, 14, 15, 16, 31])}")
    ops.append("x tick 31")
    return ops


# ------------------------------------------------------------------ serving side: inbound requests x configuration

def serve_case(rng):
    """Requests of remote peers, local-store commands and provider refresh timers under a random configuration
    (validation / update mode, record ttl, store bounds, max message size, refresh interval, known peers)."""
    n = rng.randrange(2, 6)
    kinds = [rng.choice("ggggbn") for _ in range(n)]
    opts = []
    if rng.random() < 0.04:
        opts = ["default=1"]
    else:
        opts.append(f"repl={rng.choice([20, 20, 2, 1])}")
        if rng.random() < 0.55:
            opts.append("valid=manual")
        elif rng.random() < 0.3:
            opts.append("valid=auto")
        if rng.random() < 0.4:
            opts.append("update=manual")
        if rng.random() < 0.15:
            opts.append("ttl=0")
        if rng.random() < 0.2:
            opts.append("maxsize=8")
        if rng.random() < 0.2:
            opts.append(f"maxrec={rng.choice([0, 1, 2])}")
        if rng.random() < 0.2:
            opts.append("maxmsg=2048")
        if rng.random() < 0.5:
            opts.append(f"refresh={rng.choice([30, 60, 100])}")
        if rng.random() < 0.3:
            opts.append("known=" + ",".join(map(str, rng.sample(range(1, n + 1), rng.randrange(1, n + 1)))))
        if rng.random() < 0.1:
            opts.append("proto=2")
    providing = "default=1" not in opts and rng.random() < 0.6
    if not providing and opts != ["default=1"] and rng.random() < 0.3:
        opts.append("provttl=0")
    ops = [f"net {' '.join(kinds)} {' '.join(opts)}"]
    a = lambda: rng.choice(["", "", "_a"])
    for p in range(1, n + 1):
        if rng.random() < 0.5:
            ops.append(f"add_known_peer{a()} {p}")
    up = []
    for p in range(1, n + 1):
        if rng.random() < 0.7:
            ops.append(f"established {p}")
            up.append(p)
    if not up:
        ops.append("established 1")
        up.append(1)
    key = lambda: rng.randrange(1, 4)
    size = lambda: rng.choice(["", "", " size=1", " size=7", " size=8", " size=100", " size=400", " size=4000"])
    provided_key = key()
    for _ in range(rng.choice([6, 10, 16, 24])):
        r = rng.random()
        p = rng.choice(up) if rng.random() < 0.9 else rng.randrange(1, n + 1)
        if r < 0.08:
            ops.append(f"inbound {p} find_node {rng.randrange(0, n + 1)}")
        elif r < 0.22:
            ops.append(f"inbound {p} put_value {key()}{size()}")
        elif r < 0.40:
            ops.append(f"inbound {p} get_value {key()}" if rng.random() < 0.92 else f"inbound {p} get_value")
        elif r < 0.47:
            ops.append(f"inbound {p} add_provider {key()}" + (f" as={rng.randrange(0, n + 1)}" if rng.random() < 0.3 else ""))
        elif r < 0.55:
            ops.append(f"inbound {p} get_providers {key()}" if rng.random() < 0.9 else f"inbound {p} get_providers")
        elif r < 0.60:
            ops.append(f"inbound {p} {rng.choice(['garbage', 'silent', 'eof'])}")
        elif r < 0.70:
            ops.append(f"store_record{a()} {key()}{size() if 'maxmsg=2048' not in opts else rng.choice(['', ' size=7', ' size=8'])}")
        elif r < 0.78:
            ops.append(f"get_record{a()} {key()} {rng.choice(QUORUMS)}")
        elif r < 0.82:
            ops.append(f"put_record{a()} {key()} {rng.choice(QUORUMS)}")
        elif r < 0.85:
            ops.append(f"put_record_to{a()} {key()} {p} one" + (" local" if rng.random() < 0.7 else ""))
        elif r < 0.90 and providing:
            ops.append(f"start_providing {provided_key} {rng.choice(QUORUMS)}")
        elif r < 0.92 and providing:
            ops.append(f"stop_providing {provided_key}")
        elif r < 0.95:
            ops.append(f"find_node{a()} {rng.randrange(1, 9)}")
        else:
            ops.append(f"advance {rng.choice([16000, 40000, 70000, 120000])}")
        # now and then let the lookups make progress, so that responses update the routing table
        if rng.random() < 0.35:
            ops.append("subopen #0")
            if rng.random() < 0.8:
                nodes = ",".join(map(str, rng.sample(range(0, n + 1), rng.randrange(0, n + 1)))) or "-"
                ops.append(f"reply #0 nodes={nodes}" + rng.choice(["", "", " value"]))
    if providing and rng.random() < 0.7:
        ops.append(f"advance {rng.choice([70000, 120000])}")
        ops.append(f"inbound {rng.choice(up)} get_providers {provided_key}")
    ops.append(f"inbound {rng.choice(up)} find_node 0")
    ops.append("settle")
    return ops


def grid_cases(rng):
    g = Gen(rng)
    for op in OPS:
        for quorum in QUORUMS:
            for fault in ["none", "noaddr-b", "noaddr-n", "refused", "dead", "clog", "disc-before", "disc-after",
                          "subfail", "silent", "garbage", "deadsub"]:
                yield g.cooperative_case(op, quorum, fault)


def corpus():
    """Minimal reproductions of the four defects that the `fix:` commits repaired."""
    return [
        ["net g b", "add_known_peer 1", "add_known_peer 2", "put_record_to 1 1,2 all", "established 1", "subopen #0",
         "reply #0", "settle"],
        ["net g g", "add_known_peer 1", "add_known_peer 2", "put_record_to 1 1,2 one", "put_record_to 2 1 one",
         "established 1 cap1", "closed 1", "settle"],
        ["net g g", "add_known_peer 1", "start_providing 1 one", "dialfail 1", "settle"],
        ["net g g", "add_known_peer 1", "put_record_to 1 1 one", "established 1 dead", "closed 1", "settle"],
        ["net g g", "add_known_peer 1", "put_record_to 1 1 one", "established 1", "subfail #0", "settle"],
        ["net g g", "add_known_peer 1", "find_node 5", "established 1", "subopen #0", "reply #0 garbage", "settle"],
        ["net g g", "add_known_peer 1", "get_providers 3", "established 1", "subopen #0", "reply #0 addprov", "settle"],
        # S2 witness of the repaired defect `dial-at-connection-limit-never-concluded` (real nodes)
        [S2_LIMIT_WITNESS],
    ]


# ------------------------------------------------------------------ S2: real nodes on loopback, one fault placement

S2_FAULTS = ["none", "undialable", "refused", "limit"]
S2_OPS = ["put_to", "find_node", "start_providing"]
S2_LIMIT_WITNESS = "s2 fault=limit op=put_to quorum=all wait=12"


def s2_cases(rng, tier):
    """quick: the three fault placements that end by themselves, put to [G, F] with quorum All (a few seconds each;
    the `limit` witness is in the corpus); thorough/search: every fault x operation x quorum (the `limit` ones wait
    12 s for the terminal event that never comes)."""
    if tier == "quick":
        return [[f"s2 fault={f} op=put_to quorum=all"] for f in ("none", "undialable", "refused", "limit")]
    res = []
    for f in S2_FAULTS:
        for op in S2_OPS:
            for q in (QUORUMS if op != "find_node" else ["one"]):
                res.append([f"s2 fault={f} op={op} quorum={q}"])
    return res


def gen_cases(rng, tier):
    n_rand, n_coop, grids = {"quick": (150, 250, 1), "thorough": (30000, 40000, 20), "search": (600, 900, 2)}[tier]
    n_exec, n_serve = {"quick": (120, 200), "thorough": (8000, 15000), "search": (400, 600)}[tier]
    for _ in range(grids):
        yield from grid_cases(rng)
    for _ in range(n_exec):
        yield exec_case(rng)
    for _ in range(n_serve):
        yield serve_case(rng)
    yield from fixed_new_cases()
    yield from channel_cases(rng)
    from . import kadwire
    yield from kadwire.gen_wire_cases(rng, "quick" if tier == "quick" else "search")
    g = Gen(rng)
    for _ in range(n_coop):
        g.key = 0
        yield g.cooperative_case()
    for _ in range(n_rand):
        g.key = 0
        yield g.random_case()
    yield from s2_cases(rng, tier)
    # malformed stream
    yield ["s2 fault=bogus op=put_to quorum=all"]
    yield ["net g g", "frobnicate", "established x", "reply", "settle"]
    yield ["established 1", "settle"]
    yield ["x sub 1 frob", "x sub 1 send w@0", "x sub 1 send", "x tick 999", "x sub 2 read msg@x", "net g g"]
    yield ["net g g valid=maybe", "net g g default=1 repl=2", "net g g", "inbound 1 frob", "inbound 9 garbage",
           "store_record x", "stop_providing", "find_node_b 1", "start_providing_a 1 one", "settle"]


def channel_cases(rng):
    """The user does not read the handle while more events are produced than the event channel holds
    (DEFAULT_CHANNEL_SIZE = 4096): every `event_tx.send(..).await` of the coordinator suspends instead of dropping -
    terminal failures, terminal successes, partial results, IncomingRecord / IncomingProvider, RoutingTableUpdate."""
    cap = 4096
    over = lambda: cap + rng.choice([1, 4, 57, 200])
    # failures / successes of every operation kind on an empty routing table, back to back
    starts = ["find_node 3", "get_record 9 one", "get_record 9 all", "put_record 2 one", "put_record 2 all",
              "start_providing 4 one", "get_providers 6", "put_record_to 7 - one", "put_record_to 7 1,2 all"]
    yield ["net g g", f"burst {over()} find_node {rng.randrange(1, 9)}", "settle"]
    for s in rng.sample(starts[1:], 3):
        yield ["net g g", f"burst {over()} {s}", "settle"]
    # two events per operation (partial result + success straight from the command arm), odd / even overflow
    yield ["net g g", "store_record 1", f"burst {cap // 2 + rng.choice([1, 2, 30])} get_record 1 one", "settle"]
    # a mix within one case, the channel overflowing in the second burst; user reads in between or not
    a, b = rng.randrange(500, 1400), rng.randrange(300, 1200)        # 2a + b < 4096: nothing suspends while held
    yield ["net g g", "store_record 1", "hold", f"burst {a} get_record 1 one", f"burst {b} find_node 2",
           f"release burst {cap - 2 * a - b + rng.choice([0, 1, 2, 77])} get_record 2 all", "find_node 1", "hold",
           "find_node 2", "release", "settle"]
    # the channel exactly full / one short when the event(s) of one handler are due: a handler's first send suspends
    # (full) or just fits and its second send finds the channel full (one short)
    fills = {"full": [f"burst {cap // 2} get_record 1 one"],
             "short": [f"burst {cap // 2 - 1} get_record 1 one", "inbound 1 put_value 9"]}
    for name in ("full", "short"):
        fill = fills[name]
        yield ["net g g g", "add_known_peer 1", "established 1", "find_node 5", "subopen #0", "store_record 1", "hold"] + fill + \
              ["release reply #0 nodes=-", "settle"]                        # RoutingTableUpdate, FindNodeSuccess
        yield ["net g g", "established 1", "store_record 1", "hold"] + fill + \
              [f"release inbound 1 put_value {rng.randrange(2, 9)}", "settle"]   # IncomingRecord
    which = rng.choice(["full", "short"])
    yield ["net g g g", "add_known_peer 1", "established 1", "find_node 5", "subopen #0", "store_record 1", "hold"] + fills[which] + \
          [f"release reply #0 nodes={rng.choice(['2,3', '2'])}", "settle"]
    yield ["net g g g", "add_known_peer 1", "established 1", "get_record 8 all", "subopen #0", "store_record 1", "hold"] + \
          fills[rng.choice(["full", "short"])] + ["release reply #0 nodes=- value", "settle"]   # partial result, success
    yield ["net g g", "established 1", "store_record 1", "hold"] + fills[rng.choice(["full", "short"])] + \
          [f"release inbound 1 add_provider {rng.randrange(2, 9)}", "settle"]                 # IncomingProvider
    yield ["net g g", "add_known_peer 1", "established 1", "store_record 1", "put_record_to 3 1 one", "subopen #0", "hold"] + \
          fills[rng.choice(["full", "short"])] + ["release reply #0", "settle"]                 # PutRecordSuccess
    yield ["net g g", "store_record 1", "hold", fills["short"][0], "find_node 7", "release get_record 1 one", "settle"]  # partial + success (command arm)
    # more inbound records than the channel holds
    yield ["net g g", "established 1", f"burst {over()} inbound 1 put_value 3", "settle"]
    yield ["net g g", "burst 0 find_node 1", "burst 7000 find_node 1", "burst 3 frob", "release", "hold", "hold", "burst 3",
           "release frob", "release", "settle"]


def fixed_new_cases():
    """One deterministic case per newly driven region (present at every seed)."""
    # executor: every kind x {immediate, blocked, unblocked exactly at the deadline, reset, oversize}
    yield ["x sub 1 send w@0", "x sub 2 send", "x sub 3 sendeat", "x sub 4 sendeat reset@3", "x sub 5 read",
           "x sub 6 read msg@15", "x sub 7 read eof@2", "x sub 8 read junk@2", "x sub 9 reqresp w@15 msg@30",
           "x sub 10 reqresp w@0", "x sub 11 reqresp", "x sub 12 reqeat w@0", "x sub 13 reqeat w@0 msg@1",
           "x sub 14 reqeat", "x sub 15 reqresp big w@0", "x sub 16 send reset@1", "x sub 17 reqresp w@1 reset@2",
           "x sub 18 reqeat w@1 eof@3", "x tick 16", "x sub 19 reqresp w@16 msg@16", "x tick 31"]
    # manual validation: an inbound PUT_VALUE is acknowledged and reported, stored only by `store_record`
    yield ["net g g valid=manual", "established 1", "inbound 1 put_value 5", "inbound 1 get_value 5", "get_record 5 one",
           "store_record 5", "inbound 1 get_value 5", "get_record_a 5 one", "settle"]
    yield ["net g g", "established 1", "inbound 1 put_value 5", "inbound 1 get_value 5", "get_record 5 one", "settle"]
    # manual routing-table updates: peers of a response are reported, not added
    for mode in ("manual", "auto"):
        yield [f"net g g g update={mode}", "add_known_peer 1", "find_node 5", "established 1", "subopen #0",
               "reply #0 nodes=2,3", "inbound 1 find_node 0", "settle"]
    # provider refresh / stop_providing
    yield ["net g g refresh=60", "add_known_peer 1", "established 1", "start_providing 4 one", "subopen #0",
           "reply #0 nodes=-", "subopen #0", "inbound 1 get_providers 4", "advance 70000", "subopen #0", "reply #0 nodes=-",
           "subopen #0", "stop_providing 4", "inbound 1 get_providers 4", "advance 70000", "settle"]
    # store bounds, ttl 0, oversized request, known peers, silent / closing requester
    yield ["net g g maxsize=8 maxrec=1 maxmsg=2048 known=1,2", "established 1", "inbound 1 put_value 1 size=8",
           "inbound 1 get_value 1", "inbound 1 put_value 1 size=7", "inbound 1 put_value 2", "inbound 1 get_value 1",
           "inbound 1 get_value 2", "inbound 1 put_value 3 size=4000", "inbound 1 find_node 2", "inbound 1 silent",
           "inbound 1 eof", "settle"]
    yield ["net g g ttl=0", "established 1", "put_record 1 one", "store_record 2", "inbound 1 get_value 1",
           "inbound 1 get_value 2", "get_record 1 one", "put_record_to_a 3 1 one local", "inbound 1 get_value 3", "settle"]
    yield ["net g g default=1", "add_known_peer_a 1", "find_node_a 1", "established 1", "inbound 1 add_provider 2",
           "inbound 1 add_provider 2 as=2", "inbound 1 get_providers 2", "inbound 1 garbage", "inbound 1 get_value", "settle"]


def mutate_case(rng, case, n):
    if case and case[0].startswith("x "):
        for _ in range(n):
            c = list(case)
            i = rng.randrange(0, len(c))
            if rng.random() < 0.5 and len(c) > 2:
                del c[i]
            else:
                c.insert(i, f"x tick {rng.choice([1, 2, 15])}")
            yield c
        return
    if case and case[0].startswith("s2"):
        for _ in range(min(n, 6)):
            yield [f"s2 fault={rng.choice(S2_FAULTS[:3])} op={rng.choice(S2_OPS)} quorum={rng.choice(QUORUMS)}"]
        return
    g = Gen(rng)
    peers = max(2, len([t for t in case[0].split()[1:] if "=" not in t])) if case else 2
    for _ in range(n):
        c = list(case)
        for _ in range(rng.randrange(1, 4)):
            i = rng.randrange(1, max(2, len(c)))
            r = rng.random()
            if r < 0.4 and len(c) > 2:
                del c[min(i, len(c) - 1)]
            elif r < 0.8:
                c.insert(i, g.env_op(peers))
            else:
                c.insert(i, g.start(peers))
        if c[-1] != "settle":
            c.append("settle")
        yield c


# ------------------------------------------------------------------ oracle

def split_parts(op, obs):
    """(sub-op, observation) pairs of one line; `settle` carries the sub-operations it performed."""
    if op.strip() == "settle" and obs.startswith("settled"):
        parts = obs.split(" | ")
        res = []
        for part in parts[1:]:
            if " -> " in part:
                a, b = part.split(" -> ", 1)
                res.append((a.strip(), b))
        return parts[0], res
    return None, [(op, obs)]


def tokens_of(obs):
    return obs.split(" # ")[0].split()


def clamp(quorum, n_targets):
    if quorum == "one":
        return 1
    if quorum == "all":
        return max(n_targets, 1)
    return min(int(quorum[1:]), max(n_targets, 1))


def oracle_exec(case, out, v):
    """Every submitted future yields exactly one result, of a kind its method can produce, no later than
    WRITE_TIMEOUT + READ_TIMEOUT after its submission; a reported send/read success means the remote end holds the
    complete request."""
    now = 0
    subs = {}      # id -> (kind, submit second, step)
    results = {}   # id -> list of (result, written, second, step)
    for i, op in enumerate(case):
        if i >= len(out):
            break
        o = out[i]
        if o.startswith("panic"):
            v("panic", f"panic: {o}", i)
            return
        if o in ("skipped", "bad-op", ""):
            continue
        t = op.split()
        if len(t) >= 4 and t[1] == "sub":
            subs[t[2]] = (t[3], now, i)
        elif len(t) == 3 and t[1] == "tick" and t[2].isdigit():
            now += int(t[2])
        for tok in o.split()[1:]:
            m = re.fullmatch(r"res:(\d+):([a-z.\-]+):([a-z0-9\-]+)@(\d+)", tok)
            if not m:
                v("executor-bad-result", f"unreadable executor result {tok}", i)
                continue
            fid, res, written, sec = m.group(1), m.group(2), m.group(3), int(m.group(4))
            results.setdefault(fid, []).append((res, written, sec, i))
            if fid not in subs:
                v("executor-unknown-future", f"the executor yielded {tok} for a future that was never submitted", i)
                continue
            kind, t0, _ = subs[fid]
            if len(results[fid]) == 2:
                v("executor-double-result", f"future {fid} ({kind}) yielded a second result: {results[fid]}", i, fut=fid)
            if res not in X_ALLOWED[kind]:
                v("executor-wrong-result", f"future {fid} ({kind}) yielded {res} (written={written})", i, fut=fid)
            if written not in ("0", "1"):
                v("executor-wrong-result", f"future {fid} ({kind}) yielded its result for {written}", i, fut=fid)
            if res == "sendok" and written != "1" or res == "readok" and kind != "read" and written != "1":
                v("executor-success-unsent", f"future {fid} ({kind}) reported {res} but the remote end does not hold "
                  f"the request", i, fut=fid)
            if kind == "reqeat" and res == "assumeok" and written != "1":
                v("executor-success-unsent", f"future {fid} (reqeat, the PUT_VALUE request) was assumed sent although the "
                  f"remote end does not hold the request: a quorum would count a peer that never got the record", i, fut=fid)
            if sec > t0 + X_BOUND:
                v("executor-late-result", f"future {fid} ({kind}) submitted at {t0} s yielded {res} at {sec} s, "
                  f"later than the write + read timeouts", i, fut=fid)
    for fid, (kind, t0, step) in subs.items():
        if now >= t0 + X_BOUND and not results.get(fid):
            v("executor-lost-result", f"future {fid} ({kind}) submitted at {t0} s has yielded nothing by {now} s: the "
              f"query waiting for it would never end", step, fut=fid)


X_BOUND = 30


def oracle(case, out):
    bad = []

    def v(kind, msg, i, **kw):
        bad.append({"kind": kind, "msg": msg, "step": i, "op": case[i] if i < len(case) else None,
                    "out": out[i] if i < len(out) else None, **kw})

    if case and case[0].startswith("x "):
        oracle_exec(case, out, v)
        return bad

    sv = ServeOracle(case[0] if case else "", v)
    started = {}          # q -> op kind
    terminal = {}         # q -> list of event kinds
    sid_peer = {}         # sid -> peer
    received = {}         # (kind, key) -> set of peers whose remote end read the message
    fanout = {}           # q -> (quorum, targets)
    put_key = {}          # q -> key
    for i, op in enumerate(case):
        if i >= len(out):
            break
        o = out[i]
        if o.startswith("panic"):
            v("panic", f"panic: {o}", i)
            break
        if o in ("skipped", "bad-op", "ok", "inconclusive") or o == "":
            continue
        if op.startswith("s2 "):
            oracle_s2(op, o, i, v)
            continue
        if op.startswith("t "):
            continue          # routing-table wiring histories: judged by C14 (checks/kadwire.py); here only the tie
        head, parts = split_parts(op, o)
        for sub, obs in parts:
            t = sub.split()
            if t and t[0] == "release":
                t = t[1:] or ["events"]
            if t and t[0].endswith("_a"):
                t[0] = t[0][:-2]
            toks = tokens_of(obs)
            if len(t) > 2 and t[0] == "burst":
                # `burst n <op>`: the head is `q=a..b` / `in=a..b` / `ok*n`
                t = t[2:]
                m = re.fullmatch(r"(q|in)=(\d+)\.\.(\d+)", toks[0]) if toks else None
                heads = [f"{m.group(1)}={k}" for k in range(int(m.group(2)), int(m.group(3)) + 1)] if m else \
                    (toks[0].split(",") if toks and "*" not in toks[0] else [])
                for h in heads:
                    sv.op(t, [h], i)
                    if h.startswith("q=") and h[2:].isdigit() and t[0] in TERMINALS:
                        started[int(h[2:])] = t[0]
                        if t[0] in ("put_record", "put_record_to", "start_providing") and len(t) > 1:
                            put_key[int(h[2:])] = t[1]
                t, toks = ["events"], ["-"] + toks[1:]
            sv.op(t, toks, i)
            if toks and toks[0].startswith("q=") and t and t[0] in TERMINALS:
                q = int(toks[0][2:])
                started[q] = t[0]
                if t[0] in ("put_record", "put_record_to", "start_providing") and len(t) > 1:
                    put_key[q] = t[1]
            succeeded = []
            for tok in toks:
                f = tok.split(":")
                if f[0] == "open" and len(f) == 3:
                    sid_peer[f[2]] = f[1]
                elif f[0] == "rx" and len(f) == 4:
                    received.setdefault((f[2], f[3]), set()).add(sid_peer.get(f[1], "?" + f[1]))
                elif f[0] == "act" and f[1] in ("putfan", "provfan") and len(f) == 5:
                    fanout[int(f[2])] = (f[3], [p for p in f[4].split(",") if p])
                elif f[0] == "ev" and len(f) == 3 and f[1] != "partial":
                    q = int(f[2])
                    terminal.setdefault(q, []).append(f[1])
                    if q not in started:
                        # a republished local provider is an announcement the node started by itself
                        if not sv.refresh_terminal(q, f[1]):
                            v("unknown-query", f"terminal event {f[1]} for query {q} that no operation started", i, query=q)
                    elif f[1] not in TERMINALS[started[q]]:
                        v("wrong-terminal-kind", f"{started[q]} (query {q}) ended with {f[1]}", i, query=q)
                    if len(terminal[q]) == 2:
                        v("double-terminal", f"query {q} got a second terminal event: {terminal[q]}", i, query=q)
                    if f[1] in ("PutRecordSuccess", "AddProviderSuccess"):
                        succeeded.append((q, f[1]))
            # quorum soundness, evaluated at the end of the sub-operation that reported the success
            for q, kind in succeeded:
                msg = "PUT_VALUE" if kind == "PutRecordSuccess" else "ADD_PROVIDER"
                if q not in fanout or q not in put_key:
                    continue
                quorum, targets = fanout[q]
                need = clamp(quorum, len(targets))
                got = received.get((msg, put_key[q]), set()) & set(targets)
                if len(got) < need:
                    v("quorum-unsound", f"query {q} reported {kind} with quorum {quorum} over {len(targets)} target(s) "
                      f"(needs {need}) but only {sorted(got)} received the {msg}", i, query=q)
        if head is not None:
            # the environment has discharged every obligation: each started operation has exactly one terminal event
            for q, kind in sorted(started.items()):
                n = len(terminal.get(q, []))
                if n == 0:
                    v("no-terminal-at-quiescence", f"{kind} (query {q}) has no terminal event although every dial is "
                      f"concluded, every substream open answered and every timeout expired", i, query=q, opkind=kind)
            sv.settled(i)
    return bad


class ServeOracle:
    """The serving side of the property, evaluated on the observations only: requests of remote peers are answered
    per configuration (one response to FIND_NODE / GET_VALUE / PUT_VALUE / GET_PROVIDERS, none otherwise); in manual
    validation mode a record is served (to peers or to `get_record`) only if the user stored it; in manual update mode
    only peers the user added are handed out; every republished local provider ends with one terminal event."""

    def __init__(self, net, v):
        self.v = v
        opts = dict(t.split("=", 1) for t in net.split()[1:] if "=" in t) if net.startswith("net") else {}
        self.manual_valid = opts.get("valid") == "manual"
        self.manual_update = opts.get("update") == "manual"
        self.maxmsg = int(opts.get("maxmsg", "71680")) if opts.get("maxmsg", "0").isdigit() else 71680
        self.refresh = int(opts["refresh"]) * 1000 if opts.get("refresh", "").isdigit() else None
        self.user_keys = set()
        self.big_keys = set()
        # a record the user stored stays retrievable (no count bound, no ttl 0, size below the bound)
        self.keeps = "maxrec" not in opts and "ttl" not in opts and "default" not in opts
        self.maxsize = int(opts["maxsize"]) if opts.get("maxsize", "").isdigit() else 65 * 1024
        self.must_have = set()
        self.user_peers = {p for p in opts.get("known", "").split(",") if p}
        self.requests = {}    # inbound number -> (kind, key, must_answer, step)
        self.responses = {}   # inbound number -> list of response kinds
        self.now = 0
        self.providing = set()
        self.timers = []      # (due, key)
        self.fired = 0
        self.refresh_q = {}   # q -> kind

    def op(self, t, toks, i):
        v = self.v
        if not t:
            return
        name = t[0]
        if name in ("put_record", "store_record") and len(t) > 1:
            self.user_keys.add(t[1])
            if any(a.startswith("size=") and a[5:].isdigit() and int(a[5:]) > 400 for a in t[2:]):
                self.big_keys.add(t[1])
            size = next((int(a[5:]) for a in t[2:] if a.startswith("size=") and a[5:].isdigit()), 1)
            if self.keeps and size < self.maxsize and (name == "store_record" and toks and toks[0] == "ok"
                                                      or name == "put_record" and toks and toks[0].startswith("q=")):
                self.must_have.add(t[1])
        elif name == "put_record_to" and "local" in t[4:]:
            self.user_keys.add(t[1])
        elif name == "add_known_peer" and len(t) > 1:
            self.user_peers.add(t[1])
        elif name == "start_providing" and len(t) > 1 and toks and toks[0].startswith("q="):
            self.providing.add(t[1])
            if self.refresh:
                self.timers.append((self.now + self.refresh, t[1]))
        elif name == "stop_providing" and len(t) > 1:
            self.providing.discard(t[1])
        elif name == "advance" and len(t) > 1 and t[1].isdigit() and toks and toks[0] == "ok":
            self.now += int(t[1])
            due = sorted([x for x in self.timers if x[0] <= self.now], key=lambda x: x[0])
            self.timers = [x for x in self.timers if x[0] > self.now]
            for _, key in due:
                if key in self.providing:
                    self.fired += 1
                    self.timers.append((self.now + self.refresh, key))
        elif name == "inbound" and toks and toks[0].startswith("in=") and len(t) >= 3:
            k = toks[0][3:]
            kind = t[2]
            key = t[3] if len(t) > 3 and t[3].isdigit() else None
            size = next((int(a[5:]) for a in t[4:] if a.startswith("size=") and a[5:].isdigit()), 1)
            must = (kind == "find_node" or (kind in ("get_value", "get_providers") and key is not None)
                    or (kind == "put_value" and size + 64 <= self.maxmsg))
            never = kind in ("add_provider", "garbage", "silent", "eof") or (kind in ("get_value", "get_providers") and key is None) \
                or (kind == "put_value" and size > self.maxmsg)
            if kind == "get_value" and key in self.big_keys:
                must = False   # the response may exceed the configured maximum message size
            if kind == "put_value" and size > 400:
                self.big_keys.add(key)
            self.requests[k] = (kind, key, must, never, i)
        elif name == "get_record" and len(t) > 1 and toks and toks[0].startswith("q="):
            q = toks[0][2:]
            if self.manual_valid and f"ev:partial:{q}" in toks and t[1] not in self.user_keys:
                v("manual-validation-stored", f"get_record {t[1]} found a local record in manual validation mode although "
                  f"the user never stored that key (only inbound PUT_VALUEs carried it)", i)
        expect = {"find_node": "FIND_NODE", "get_value": "GET_VALUE", "put_value": "PUT_VALUE", "get_providers": "GET_PROVIDERS"}
        for tok in toks:
            f = tok.split(":")
            if f[0] != "resp" or len(f) < 3:
                continue
            k, rk = f[1], f[2]
            self.responses.setdefault(k, []).append(rk)
            req = self.requests.get(k)
            if req is None:
                v("inbound-unsolicited-response", f"response {tok} on an inbound substream that carried no request", i)
                continue
            kind, key, must, never, _ = req
            if never or expect.get(kind) != rk:
                v("inbound-wrong-response", f"{kind} request answered with {tok}", i)
            if len(self.responses[k]) == 2:
                v("inbound-double-response", f"{kind} request on inbound substream {k} answered twice: {self.responses[k]}", i)
            if rk == "PUT_VALUE" and len(f) >= 4 and f[3] != key:
                v("inbound-wrong-response", f"PUT_VALUE {key} acknowledged as {tok}", i)
            if rk == "GET_VALUE" and len(f) >= 4 and f[3] == "rec=-" and key in self.must_have and key not in self.big_keys:
                v("stored-record-not-served", f"GET_VALUE {key} answered without record although the user stored that key "
                  f"(store_record / put_record) and nothing can have evicted it", i)
            if rk == "GET_VALUE" and len(f) >= 4 and f[3] != "rec=-" and self.manual_valid and key not in self.user_keys:
                v("manual-validation-stored", f"GET_VALUE {key} served a record in manual validation mode although the user "
                  f"never stored that key (only inbound PUT_VALUEs carried it)", i)
            if self.manual_update and rk in ("FIND_NODE", "GET_VALUE", "GET_PROVIDERS"):
                handed = [x for x in f[-1].split(",") if x]
                extra = [x for x in handed if x not in self.user_peers]
                if extra:
                    v("manual-update-added", f"{tok} hands out peers {extra} in manual routing-table mode although the user "
                      f"never added them", i)

    def refresh_terminal(self, q, kind):
        if kind not in ("AddProviderSuccess", "QueryFailed"):
            return False
        if q not in self.refresh_q and len(self.refresh_q) >= self.fired:
            return False
        self.refresh_q.setdefault(q, kind)
        return True

    def settled(self, i):
        for k, (kind, key, must, never, step) in sorted(self.requests.items()):
            if must and not self.responses.get(k):
                self.v("inbound-unanswered", f"{kind} request on inbound substream {k} got no response although the "
                       f"requester kept reading and every timeout expired", step)
        if len(self.refresh_q) < self.fired:
            self.v("no-terminal-at-quiescence", f"{self.fired} provider refresh(es) were due but only {len(self.refresh_q)} "
                   f"republish queries ended with a terminal event", i, opkind="refresh")


S2_TERMINALS = {"put_to": TERMINALS["put_record_to"], "find_node": TERMINALS["find_node"],
                "start_providing": TERMINALS["start_providing"]}


def oracle_s2(op, o, i, v):
    """The property on real nodes: exactly one terminal event of the right family for the operation; a put reports
    success only if the clamped quorum of its two targets received the record."""
    args = dict(t.split("=", 1) for t in op.split()[1:] if "=" in t)
    obs = dict(t.split("=", 1) for t in o.split()[1:] if "=" in t)
    kind = args.get("op")
    if kind not in S2_TERMINALS or "terminal" not in obs:
        return
    events = [e for e in obs["terminal"].split(",") if e and e != "-"]
    received = [r for r in obs.get("received", "-").split(",") if r and r != "-"]
    if not events:
        v("no-terminal-s2", f"{kind} on real nodes (fault placement {args.get('fault')}) produced no terminal event "
          f"within the deadline", i, s2_fault=args.get("fault"), opkind=kind)
        return
    if len(events) > 1:
        v("double-terminal", f"{kind} on real nodes got {len(events)} terminal events: {events}", i)
    if events[0] not in S2_TERMINALS[kind]:
        v("wrong-terminal-kind", f"{kind} on real nodes ended with {events[0]}", i)
    if kind == "put_to" and events[0] == "PutRecordSuccess":
        need = clamp(args.get("quorum", "one"), 2)
        if len(received) < need:
            v("quorum-unsound", f"put to two real peers reported success with quorum {args.get('quorum')} (needs {need}) "
              f"but only {received} received the record", i)


def stats(case, out, acc):
    for op, o in zip(case, out):
        t = op.split()
        bump(acc, "op:" + (t[0] if t else "?"))
        if t and t[0] == "s2":
            bump(acc, "s2:" + " ".join(x for x in t[1:3]) + " -> " + (o.split()[1] if len(o.split()) > 1 else o))
        for tok in o.replace(" | ", " ").split():
            f = tok.split(":")
            if f[0] == "ev" and len(f) == 3:
                bump(acc, "event:" + f[1])
            elif f[0] == "res" and len(f) == 4:
                bump(acc, "result:" + f[3])
            elif f[0] == "act" and len(f) > 1:
                bump(acc, "action:" + f[1])
        if o.startswith("panic"):
            bump(acc, "panic")
    bump(acc, "case-len:%d" % (10 * (len(case) // 10)))


def nontrivial(case, out):
    text = " ".join(out)
    return (" ev:" in text and "act:" in text) or "s2 terminal=" in text or " res:" in text or " resp:" in text


def matches_known(k, v):
    """Only the S2 `limit` placement without terminal event matches the known finding; every other violation (also a
    missing terminal event under any other fault placement, or in S1) is reported."""
    return False


def model_lines(case, impl):
    """Checker mode: the model validates the implementation's trace (engine actions and executor results are the
    nondeterministic choices) and recomputes everything else."""
    if impl is None:
        return case
    return [f"{op} -> {impl[i]}" if i < len(impl) else op for i, op in enumerate(case)]

# ---------------------------------------------------------------- real nodes through the public API (engine: extra_cases)
# `Litep2p::new` (src/lib.rs), `ConfigBuilder` (src/config.rs) and the protocol / transport `Config` builders hand every
# constructed object its configuration; the `node` area (checks/node.py) builds real nodes, compares what the CONSTRUCTED
# objects hold (and what a connection's `ProtocolSet` answers per main / fallback name) with the wiring model
# (Model/Node/Wiring.lean).
from . import node as _node  # noqa: E402
_node.install(globals())
