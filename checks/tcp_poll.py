"""`pn` — `impl Stream for TcpTransport` (src/transport/tcp/mod.rs, `poll_next`) polled the way an executor polls it.

The op lives in the c01 area (the adapter /repo/src/verif/c01_tcp.rs is a child of `transport::tcp::connection` and builds
real `TcpTransport`s on loopback); C05 pulls the cases in through the engine's `extra_cases` and judges them with
`oracle` below (property C05: every accepted dial ends in exactly one outcome, never silence), the model is
Model/Tcp/Poll.lean (driver: `pn` of Driver/C01.lean).

  pn q=<item>,<item>,... [in=<n>] [acc=0|1] [neg=0|1]

`q`: a scripted multiset of READY results pushed into the real transport's queues in that order (item k has connection
id 100+k): ci (failed inbound negotiation: no event), cf (failed dial -> DF), cs (successful dial -> CE), cn (negotiated
connection nobody dialed -> CE), rf (failed open -> OF), rx / rh / rc (failed open whose handle is aborted / missing,
cancelled open: no event), ro (opened -> CO), rA / rO (opened, handle aborted / missing: no event). `in`: real TCP
connections waiting in the accept queue (acc=1: accepted, the remote has hung up -> a real failed inbound negotiation;
acc=0: rejected). `neg=1`: `negotiate(id)` for every opened connection once the stream is exhausted, then again.
The stream is polled with a counting waker: again after every item, after `Pending` only when the waker was called.
"""
from .common import bump

ITEMS = ["ci", "cf", "cs", "cn", "rf", "rx", "rh", "rc", "ro", "rA", "rO"]
EVENT_OF = {"cf": "DF", "cs": "CE", "cn": "CE", "rf": "OF", "ro": "CO"}
SWALLOWED_CONN = ["ci"]
SWALLOWED_RAW = ["rx", "rh", "rc", "rA", "rO"]
CHEAP = ["ci", "cf", "rf", "rx", "rh", "rc"]          # no real negotiation needed


def op(items, inbound=0, acc=0, neg=0):
    s = "pn q=" + (",".join(items) if items else "-")
    if inbound:
        s += f" in={inbound} acc={acc}"
    if neg:
        s += " neg=1"
    return s


def fixed_ops():
    """The shapes every seed must run: results that yield no event AHEAD of results that do, in both queues."""
    return [
        op(["ci", "cf"]), op(["ci", "ci", "cf"]), op(["ci", "cs"]), op(["ci", "ci", "cn", "ci", "cf"]),
        op(["rx", "rf"]), op(["rh", "rc", "ro"], neg=1), op(["rA", "rO", "rf", "ci", "cf"]),
        op(["cf", "ci", "cs", "ci", "cf"]), op(["rc", "rc", "ci", "ci", "cs"], neg=1),
        op(["ci", "cf"], inbound=1, acc=1), op(["ci", "ci", "cs"], inbound=2, acc=0), op([], inbound=2, acc=1),
        op([]),
    ]


def random_op(rng):
    n = rng.choice([1, 2, 3, 4, 5, 6, 8])
    pool = CHEAP if rng.random() < 0.5 else ITEMS
    items = [rng.choice(pool) for _ in range(n)]
    if rng.random() < 0.6:
        # the interesting order: swallowed results first, the outcome of a dial / open last
        k = rng.choice([1, 2, 3])
        if rng.random() < 0.6:
            items = [rng.choice(SWALLOWED_CONN) for _ in range(k)] + [rng.choice(["cf", "cs", "cf"])] + items[:2]
        else:
            items = [rng.choice(SWALLOWED_RAW) for _ in range(k)] + [rng.choice(["rf", "ro", "rf"])] + items[:2]
    inbound = rng.choice([0, 0, 0, 1, 2, 3])
    return op(items, inbound, rng.choice([0, 1]), rng.choice([0, 1, 1]) if any(i in ("ro",) for i in items) else 0)


# ---------------------------------------------------------------- `dl`: TcpTransport::open when time passes (round gtcp)
#   dl a=<s|r|k>{1..4} t=<ms> [cancel=<ms>]
# a real TcpTransport (connection_open_timeout = t ms, max_parallel_dials = 1) opens one loopback address per letter:
# s = a listener that accepts the TCP connection and never speaks (stalls until the attempt's own timeout), r = refused,
# k = a real transport that answers. The event stream is polled for 2t + 1.5 s. `cancel`: Transport::cancel(id) after
# that many ms. Observation `D=openfail|opened|silent handles=<n> lost=<n>`. Model: Model/Tcp/Poll.lean `openRun` /
# `openFuture` (the overall deadline DIAL_DEADLINE_MULTIPLIER * t resolves the future to Failed; only a cancel in time
# yields Canceled = silence).
# Only shapes whose outcome does not hinge on a race are generated: an answering address has at most one stalling
# address ahead of it (it is reached at t, well before the deadline 2t).
DL_FIXED = ["dl a=sss t=300", "dl a=ss t=250", "dl a=rss t=300", "dl a=srs t=200", "dl a=rr t=300", "dl a=sk t=300",
            "dl a=k t=300", "dl a=sss t=300 cancel=100", "dl a=rr t=300 cancel=100", "dl a=ssss t=200"]
DL_MALFORMED = ["dl a=x t=300", "dl a=sssss t=300", "dl a=s t=50", "dl a=s", "dl t=300", "dl a=s t=300 cancel=x", "dl bogus", "dl"]


def dl_random(rng):
    t = rng.choice([200, 250, 300, 400])
    shape = rng.choice(["stall", "stall", "stall", "mixed", "answer", "cancel"])
    if shape == "stall":
        a = "".join(rng.choice("ssr") for _ in range(rng.choice([2, 3, 4])))
    elif shape == "mixed":
        a = "".join(rng.choice("sr") for _ in range(rng.choice([1, 2, 3])))
    elif shape == "answer":
        a = rng.choice(["k", "rk", "sk", "rsk", "srk", "rrk", "ks", "kss"])
    else:
        a = "s" + "".join(rng.choice("sr") for _ in range(rng.choice([1, 2])))
        return f"dl a={a} t={t} cancel={rng.choice([50, 100])}"
    return f"dl a={a} t={t}"


def dl_cases(rng, tier):
    n = {"quick": 4, "thorough": 60, "search": 10}[tier]
    ops = DL_FIXED + [dl_random(rng) for _ in range(n)]
    rng.shuffle(ops)
    return [ops[i:i + 2] for i in range(0, len(ops), 2)] + [list(DL_MALFORMED)]


def dl_oracle(case, out, i, v):
    t = case[i].split()
    o = out[i]
    if not o.startswith("D=") or o.startswith("D=env:"):
        return
    a = dict(x.split("=", 1) for x in t[1:] if "=" in x)
    kinds = a.get("a", "")
    d = dict(x.split("=", 1) for x in o.split() if "=" in x)
    what = d.get("D")
    setup = (f"TcpTransport::open(id, {len(kinds)} loopback addresses [{kinds}: s = accepts and never speaks, r = refused, "
             f"k = answers]) with connection_open_timeout = {a.get('t')} ms, max_parallel_dials = 1")
    if what == "silent" and "cancel" not in a:
        v("open-deadline-silent", f"{setup}: the event stream produced neither OpenFailure nor ConnectionOpened within "
          f"2 x {a.get('t')} ms + 1.5 s although nobody cancelled the attempt — the accepted dial ends in silence "
          f"(the manager keeps the peer in Opening for ever)", i)
    if what == "opened" and "k" not in kinds:
        v("unowed-report", f"{setup}: ConnectionOpened although no address answers", i)
    if what in ("other", "closed"):
        v("unowed-report", f"{setup}: unexpected item from the event stream ({o!r})", i)
    if d.get("handles") not in (None, "0") or d.get("lost") not in (None, "0"):
        v("left-behind", f"{setup}: after the outcome {what!r} the transport still holds {d.get('handles')} cancel handle(s) / "
          f"{d.get('lost')} queued future(s) for the attempt", i)


MALFORMED = ["pn q=zz", "pn q=ci,,cf", "pn in=9", "pn q=ci neg=2", "pn q=ci acc=x", "pn bogus", "pn q=" + ",".join(["ci"] * 13), "pn"]


def gen_cases(rng, tier):
    n = {"quick": 18, "thorough": 400, "search": 60}[tier]
    ops = fixed_ops() + [random_op(rng) for _ in range(n)]
    rng.shuffle(ops)
    cases = [ops[i:i + 6] for i in range(0, len(ops), 6)]
    cases.append(list(MALFORMED))
    return cases + dl_cases(rng, tier)


def parse(o):
    """`ev=[..] in=a:b dials=[..] handles=[..] opened=[..] popen=[..] rej=n lost=n` -> dict, or None."""
    if not o.startswith("ev=["):
        return None
    d = {}
    for t in o.split():
        if "=" not in t:
            d[t] = True
            continue
        k, v = t.split("=", 1)
        if v.startswith("["):
            sep = "," if k == "ev" else "+"
            d[k] = [x for x in v[1:-1].split(sep) if x]
        else:
            d[k] = v
    return d


def oracle(case, out):
    """Property level (C05): every result that concludes a dial / an open / a negotiation is reported exactly once, by the
    stream itself (nothing wakes the task from outside); nothing is reported that nobody is owed; no pending dial stays
    behind; nothing ready stays queued when the task goes to sleep."""
    bad = []

    def v(kind, msg, i):
        bad.append({"kind": kind, "msg": msg, "step": i, "op": case[i], "out": out[i] if i < len(out) else None})

    for i, line in enumerate(case):
        t = line.split()
        if t and t[0] == "dl" and i < len(out):
            dl_oracle(case, out, i, v)
            continue
        if not t or t[0] != "pn" or i >= len(out):
            continue
        d = parse(out[i])
        if d is None or "closed" in d:
            continue
        a = dict(x.split("=", 1) for x in t[1:] if "=" in x)
        items = [x for x in a.get("q", "-").split(",") if x and x != "-"]
        if any(x not in ITEMS for x in items):
            continue
        neg = a.get("neg") == "1"
        inbound = int(a.get("in", "0"))
        owed = {}
        for k, it in enumerate(items):
            if it in EVENT_OF:
                owed[f"{EVENT_OF[it]}{k}"] = 1
            if it == "ro" and neg:
                owed[f"CE{k}"] = 1
        got = {}
        for e in d.get("ev", []):
            if e.startswith("neg"):
                if not e.endswith(":ok"):
                    v("negotiate", f"Transport::negotiate of an opened connection: {e}", i)
                continue
            got[e] = got.get(e, 0) + 1
        what = {"DF": "the failure of dial", "CE": "the connection of", "OF": "the failure of open", "CO": "the opened connection of"}
        for e, n in owed.items():
            if got.get(e, 0) == 0:
                v("silent-outcome", f"TcpTransport::poll_next never reported {what[e[:2]]} item {e[2:]} ({items[int(e[2:])]}) although "
                  f"the result was ready in its queue and the task was polled until it slept with no wake-up pending "
                  f"(queue in push order: {items}; reported: {d.get('ev')}; results left queued: {d.get('lost')})", i)
            elif got[e] > 1:
                v("duplicate-outcome", f"{e} reported {got[e]} times (queue {items}, reported {d.get('ev')})", i)
        for e in got:
            if e not in owed:
                v("unowed-report", f"{e} reported although no queued result stands for it (queue {items}, reported {d.get('ev')})", i)
        if d.get("dials"):
            v("silent-outcome", f"pending dials {d['dials']} are left without a report (queue {items}, reported {d.get('ev')})", i)
        if inbound == 0 and d.get("lost") not in (None, "0"):
            v("left-behind", f"{d['lost']} ready result(s) stayed queued when poll_next returned Pending with no wake-up "
              f"registered (queue {items}, reported {d.get('ev')})", i)
        if inbound:
            seen, _, answered = d.get("in", "0:0").partition(":")
            if seen != str(inbound):
                v("silent-inbound", f"{inbound} connections waited in the accept queue, {seen} PendingInboundConnection events", i)
            elif answered != seen:
                v("pending-inbound", f"accept_pending / reject_pending did not consume each entry exactly once ({d.get('in')})", i)
        held = sorted(int(e[2:]) for e in got if e.startswith("CE"))
        if sorted(int(x) for x in d.get("popen", [])) != held or d.get("rej") != str(len(held)):
            v("pending-open", f"pending_open {d.get('popen')} / verdicts {d.get('rej')} do not match the established connections {held}", i)
    return bad


def stats(case, out, acc):
    for line, o in zip(case, out):
        if line.startswith("dl "):
            bump(acc, "dl:" + ("cancel:" if "cancel=" in line else "") + (o.split()[0] if o else "?"))
            if "cancel=" not in line and line.split("a=")[-1].split()[0].count("s") >= 2 and "k" not in line.split("a=")[-1].split()[0]:
                bump(acc, "dl:deadline-reached")
            continue
        if not line.startswith("pn"):
            continue
        d = parse(o)
        if d is None:
            bump(acc, "pn:" + o.split()[0] if o else "pn:?")
            continue
        bump(acc, "pn:ops")
        for e in d.get("ev", []):
            bump(acc, "pn:ev:" + e[:2])
        if " in=" in line:
            bump(acc, "pn:inbound")
        items = line.split("q=")[1].split()[0].split(",") if "q=" in line else []
        for a, b in zip(items, items[1:]):
            if a in SWALLOWED_CONN and b in ("cf", "cs"):
                bump(acc, "pn:swallowed-then-dial-outcome")
            if a in SWALLOWED_RAW and b in ("rf", "ro"):
                bump(acc, "pn:swallowed-then-open-outcome")
