"""C09 — idle connections close after the keep-alive timeout, busy ones are kept
(model: Model/Service/KeepAlive.lean, adapter: src/verif/c09.rs, logical time)."""
import re
from .common import bump

ID = "C09"
AREA = "c09"
LEAN_PROPS = "Litep2pVerif.Props.C09"
THEOREMS = ["held_not_closed", "idle_closed_at", "idle_run_closed_at", "poll_settles", "ping_no_prolong", "primary_secondary",
            "inbound_negotiation_holds_connection",
            "half_closed_substream_holds_connection", "fallback_name_substream_holds_connection",
            "clogged_open_keeps_handle"]
CONSTS = ["KEEP_ALIVE_TIMEOUT_SECS"]
CONST_TABLE = [
    ("KEEP_ALIVE_TIMEOUT_SECS", "src/transport/mod.rs",
     r"pub\(crate\) const KEEP_ALIVE_TIMEOUT: Duration = Duration::from_secs\(([^)]+)\);", 5),
]
MANIFEST = {
    "text": "Lean 4 theorems about an operational model of the keep-alive mechanism (ConnectionHandle Active/Inactive, "
            "Permit, KeepAliveTracker with lazily started timers, the multiset of strong senders of a connection's command "
            "channel and the loop-exit rule): held_not_closed; idle_closed_at — over EVERY state reachable in the transition system "
            "Sys.step (connection announced/closed, open_substream, command receipt, substream opened/failed/inbound/dropped, "
            "message delivery, keep-alive poll, clock advance; invariant Reach.inv), under the explicit environment hypothesis "
            "that the clock does not pass an unpolled or due sleep future: a protocol keeps its active handle exactly until its "
            "poll at last_activity + T (never early: the only steps that take it away are its ConnectionClosed and its poll at "
            ">= last_activity + T; never late: a holder always has now <= last_activity + T, strictly once polled), and with no "
            "permit around the loop exits exactly then (for primary and secondary connections alike; 'at t0 + T' is stated for "
            "the code as it is: the sleep starts at its first poll, which the hypothesis places at the push); idle_run_closed_at "
            "(along any run of clock advances and polls from a reachable state without permits, ending with everybody polled: the "
            "loop has exited iff every initial holder's last_activity + T has passed); poll_settles (after "
            "a poll nothing blocks the clock); ping_no_prolong, primary_secondary, and on the "
            "connection task's side (Model/Conn/Permits.lean: the TcpConnection loop with every strong sender explicit) "
            "inbound_negotiation_holds_connection: the permit is taken when an inbound substream is accepted and stays with it "
            "through negotiation, delivery and the substream's life, disabling the idle exit; "
            "half_closed_substream_holds_connection: shutting down the write half of a held substream (Sink::poll_close / "
            "AsyncWrite::poll_shutdown) keeps the object and its lifetime permit, which keeps the idle exit disabled across "
            "every transition until the owner drops the object; fallback_name_substream_holds_connection: the name -> keep-alive "
            "map of ProtocolSet::new gives every name of a protocol (main or fallback) that protocol's setting and "
            "report_substream_open reports it to that protocol with the fallback field, so a substream negotiated under a "
            "fallback name is delivered to its protocol with the same permits and, for a keep-alive protocol, keeps the idle "
            "exit disabled in every state in which it exists. Tie: the REAL TcpConnection::start "
            "loop over loopback TCP with remote substreams whose negotiation is stretched across the expiry of every handle "
            "and with substreams half-closed by the local protocol and read from afterwards (tcploop area, checker mode), and "
            "several real TransportServices (keep-alive Yes/No) sharing real ProtocolSets run under a paused tokio clock "
            "(logical milliseconds) against the model's executable definitions, state compared after every drain (handle "
            "activity, last_activity, timer count, which connections still have a strong sender), plus a property-level "
            "oracle on close times.",
    "note": "Trusted: Lean kernel; axioms propext/Classical.choice/Quot.sound; the hand-written model and its tie; tokio's "
            "paused clock and mpsc strong/weak sender semantics; the c09 adapter plays the TCP connection task under logical "
            "time, while the connection task's permit rules (permit at accept, lifetime_permit = keep_alive.then(..)) are tied to "
            "the real loop by the tcploop area; the logical-clock override of Instant::now in "
            "KeepAliveTracker (guarded hook). Real-time behaviour (timer accuracy, scheduler latency) is outside the model.",
    "technique": "Lean 4 proof (invariants of the tracker and of the strong-sender count) + model/implementation "
                 "correspondence under logical time + property-level oracle",
    "design_ref": "DESIGN.md §7 C09",
}
RULE = ("tcploop: fixed, negotiation-spanning (inbound header-only / stalled outbound across the release of every handle), race "
        "fallback names (protocols installed with 1-2 fallback names; the remote proposes <p>.f<k>, also after a header-only open and "
        "names the protocol does not have; a remote that only knows the first fallback name answers our requests; then every "
        "handle is released, the substream half-closed / dropped / kept), "
        "half-closed held substreams (half_close before/after the release of every handle, read_sub, then dropped / kept / "
        "remote close), accept-path and small-channel variants, "
        "and seeded random operation sequences on the real TcpConnection loop, observations checked against the permit-aware "
        "model; c09: seeded schedules over 1-3 protocols (keep-alive Yes/No mixes), timeouts 40/100/250 ms, 2 peers with up to two "
        "overlapping connections: establishment, opens by every protocol, command receipt, success/failure answers, "
        "inbound substreams, substreams held across several periods and dropped, time steps before/at/after every "
        "deadline (T-1, T, T+1, multiples), closes; 10 `clog` schedules per quick run (1 per 100 cases otherwise): 256 open "
        "requests nobody reads (by one or all protocols, sometimes split by a clock step), 1-3 requests of a keep-alive protocol "
        "answered ChannelClogged, then either the connection task receives and refuses all 256 (every permit gone) or not, polls "
        "at T-1 / T after the last activity; a case is non-trivial if some connection was seen alive, later seen "
        "without strong sender, and a keep-alive protocol opened a substream; distinct = distinct transcripts by SHA-256")
TRUSTED_BASE = ["Lean 4.33 kernel", "axioms: propext, Classical.choice, Quot.sound only",
                "hand-written model Model/Service/KeepAlive.lean tied to transport_service.rs/connection.rs/protocol_set.rs by this run",
                "adapter /repo/src/verif/c09.rs, logical clock hook (crate::verif::logical_now), harness (tokio test-util), verif.py, checks/c09.py",
                "tokio paused clock: sleep completes exactly at its deadline once time is advanced; mpsc WeakSender::upgrade succeeds iff a strong sender exists",
                "the connection task's permit rules (tcp/connection.rs handle_yamux_substream: permit at accept; "
                "handle_negotiated_substream: lifetime permit for keep-alive protocols; tcp/substream.rs: the permit lives in the "
                "substream object until it is dropped, poll_shutdown does not release it) are tied to the REAL TcpConnection::start "
                "loop by the tcploop area (adapter /repo/src/verif/tcploop.rs, model Model/Conn/Permits.lean, checks/tcploop.py); "
                "the c09 adapter still plays the connection task for the logical-time schedules and follows the same rules",
                "tcploop: quiescence detected through TCP_INFO byte counters and waker flags; select! branch choice sampled"]
ASSUMPTIONS = ["connection ids are unique, so the tracker key (peer, connection) is represented by the connection id",
               "protocols poll their TransportService after calling open_substream (the protocol's event loop does); the "
               "oracle checks the upper bound on the close time only on schedules where this holds",
               "idle_closed_at's environment hypothesis (guard of the advance step, timersSettled): the logical clock does not "
               "advance while a protocol's tracker holds a pushed-but-unpolled sleep future nor past the deadline of a started "
               "one (executor fairness: a task with a new or woken timer is polled); messages may wait in channels arbitrarily"]
KEEP_PREFIX = 1
PEERS = [1, 2]


# ------------------------------------------------------------------ generator

def gen_case(rng, n_ops):
    T = rng.choice([40, 100, 100, 250])
    kinds = rng.choice([["Y"], ["Y", "N"], ["Y", "N"], ["N"], ["Y", "Y", "N"], ["N", "Y"], ["Y", "N", "N"]])
    ops = [f"cfg {T} " + " ".join(kinds)]
    nproto = len(kinds)
    live = {p: [] for p in PEERS}       # connections (injected view)
    proc = {p: [] for p in PEERS}       # processed by the protocols
    nxt = {p: 0 for p in PEERS}
    pending = []
    queue = {}                          # conn -> protocols of the queued commands (approximate)
    nego = {}                           # conn -> protocols of the received commands
    held = [0] * nproto                 # substreams held per protocol (approximate)
    dirty = False                       # something to drain

    def drain():
        nonlocal dirty
        ops.append("next")
        for kind, q, c in pending:
            if kind == "est":
                proc[q].append(c)
            elif c in proc[q]:
                proc[q].remove(c)
        del pending[:]
        dirty = False

    for step_no in range(n_ops):
        p = rng.choice(PEERS)
        connected = [q for q in PEERS if live[q]]
        if connected and rng.random() < 0.8:
            p = rng.choice(connected)
        r = rng.random()
        if step_no == 0:
            r = 0.0
        if r < 0.10 or (not connected and r < 0.6):
            if len(live[p]) < 2 and nxt[p] < 9:
                c = p * 10 + nxt[p]
                nxt[p] += 1
                live[p].append(c)
                queue[c], nego[c] = [], []
                ops.append(f"est {p} {c}")
                pending.append(("est", p, c))
                dirty = True
                if rng.random() < 0.8:
                    drain()
        elif r < 0.14:
            if live[p]:
                c = rng.choice(live[p])
                live[p].remove(c)
                ops.append(f"closed {p} {c}")
                pending.append(("closed", p, c))
                queue[c], nego[c] = [], []
                dirty = True
        elif r < 0.32:
            i = rng.randrange(nproto)
            ops.append(f"open {i} {p}")
            if proc[p]:
                c = proc[p][0]
                if c in live[p]:
                    queue[c].append(i)
            if rng.random() < 0.85:
                drain()
        elif r < 0.44:
            cs = [c for c in live[p] if queue.get(c)] or (live[p] if rng.random() < 0.3 else [])
            if cs:
                c = rng.choice(cs)
                ops.append(f"recv {c}")
                if queue[c]:
                    nego[c].append(queue[c].pop(0))
        elif r < 0.56:
            cs = [c for c in live[p] if nego.get(c)] or (live[p] if rng.random() < 0.15 else [])
            if cs:
                c = rng.choice(cs)
                sid = "*"
                ok = rng.random() < 0.75
                if nego.get(c):
                    k = nego[c].pop(0)
                    if ok:
                        held[k] += 1
                ops.append(f"subopen {c} {sid}" if ok else f"subfail {c} {sid}")
                dirty = True
                if rng.random() < 0.7:
                    drain()
        elif r < 0.61:
            if live[p]:
                k = rng.randrange(nproto)
                ops.append(f"subin {rng.choice(live[p])} {k}")
                held[k] += 1
                dirty = True
                if rng.random() < 0.7:
                    drain()
        elif r < 0.68:
            ks = [k for k in range(nproto) if held[k] > 0]
            if ks and not dirty:
                k = rng.choice(ks)
                ops.append(f"dropsub {k} {rng.randrange(held[k])}")
                held[k] -= 1
            elif rng.random() < 0.1:
                ops.append(f"dropsub {rng.randrange(nproto)} {rng.choice([0, 1, 5])}")
        elif r < 0.82:
            if dirty and rng.random() < 0.9:
                drain()
            dt = rng.choice([1, 10, T // 4, T // 4, T // 4, T // 2, T // 2, T - 1, T, T + 1, 2 * T])
            ops.append(f"adv {dt}")
            ops.append("next")
        else:
            drain()
    drain()
    for _ in range(2):
        ops.append(f"adv {T}")
        ops.append("next")
    for p in PEERS:
        for c in live[p]:
            ops.append(f"recv {c}")
    return ops


CMD_CAP = 256   # ProtocolSet::new: channel(256) (Lean: Service.CMD_CAP)


def gen_clog(rng):
    """A burst of `open_substream` calls that nobody reads fills the connection's command channel (256 slots); the next
    open of a keep-alive protocol is answered `ChannelClogged`. The handle was active inside the keep-alive window and
    must stay so: variant `drain` lets the connection task receive and refuse every queued request (all permits gone)
    and then looks at the strong-sender count just before / at T after the last activity; variant `tie` polls and
    advances right after the clogged open."""
    T = rng.choice([40, 100, 250])
    kinds = rng.choice([["Y"], ["Y", "N"], ["N", "Y"], ["Y", "Y"], ["Y", "N", "Y"]])
    yes = [k for k, x in enumerate(kinds) if x == "Y"]
    i = rng.choice(yes)
    p = rng.choice(PEERS)
    c = p * 10
    ops = [f"cfg {T} " + " ".join(kinds), f"est {p} {c}", "next"]
    t0 = rng.choice([0, 1, T // 4, T // 2, T - 1])
    if t0:
        ops += [f"adv {t0}", "next"]
    fillers = [i] if rng.random() < 0.5 else list(range(len(kinds)))
    split = rng.randrange(1, CMD_CAP) if rng.random() < 0.3 else None
    for n in range(CMD_CAP):
        ops.append(f"open {rng.choice(fillers)} {p}")
        if n == split:
            ops += ["next", "adv 1", "next"]
    now = t0 + (1 if split is not None else 0)
    if rng.random() < 0.5:
        ops.append("next")
    # who hits the full channel: the keep-alive protocol (sometimes after a protocol without keep-alive)
    if len(kinds) > len(yes) and rng.random() < 0.4:
        ops.append(f"open {rng.choice([k for k in range(len(kinds)) if k not in yes])} {p}")
    ops += [f"open {i} {p}"] * rng.choice([1, 1, 2, 3])
    la = now                                     # the code records the attempt as activity
    ops.append("next")
    variant = rng.choice(["drain", "drain", "tie"])
    if variant == "drain":
        if rng.random() < 0.5:
            ops += [f"recv {c}"] * CMD_CAP + [f"subfail {c} *"] * CMD_CAP
        else:
            for _ in range(CMD_CAP):
                ops += [f"recv {c}", f"subfail {c} *"]
        ops.append("next")
        ops.append(f"recv {c}")
        if rng.random() < 0.5:                   # the channel has room again
            ops += [f"open {i} {p}", "next", f"recv {c}", f"subfail {c} *", "next"]
    left = la + T - now
    for dt in ([left - 1, 1, 1] if left > 1 and rng.random() < 0.7 else [left // 2, left - left // 2, T]):
        if dt > 0:
            ops += [f"adv {dt}", "next"]
    ops += [f"recv {c}", f"adv {T}", "next", f"recv {c}"]
    return ops


def corpus():
    return [
        # unit-test scenarios under logical time
        ["cfg 100 Y", "est 1 10", "next", "adv 99", "next", "adv 1", "next", "recv 10"],
        ["cfg 100 Y", "est 1 10", "next", "adv 60", "open 0 1", "next", "adv 60", "next", "adv 40", "next", "recv 10",
         "subopen 10 0", "next", "adv 300", "next", "dropsub 0 0", "adv 100", "next", "recv 10"],
        ["cfg 100 Y N", "est 1 10", "next", "adv 50", "open 1 1", "next", "recv 10", "subopen 10 0", "next", "adv 50",
         "next", "adv 50", "next", "recv 10"],
        ["cfg 100 N Y", "est 1 10", "est 1 11", "next", "adv 50", "subin 11 1", "next", "adv 60", "next", "adv 40", "next",
         "dropsub 1 0", "adv 100", "next", "closed 1 10", "next", "open 1 1", "next"],
    ]


def gen_cases(rng, tier):
    n = {"quick": 600, "thorough": 20000, "search": 3000}[tier]
    every = {"quick": 60, "thorough": 100, "search": 100}[tier]
    for i in range(n):
        if i % every == 2:
            yield gen_clog(rng)
        yield gen_case(rng, rng.choice([8, 15, 25, 40, 60]))


def mutate_case(rng, case, n):
    for _ in range(n):
        c = list(case)
        for _ in range(rng.randrange(1, 4)):
            if len(c) < 2:
                break
            i = rng.randrange(1, len(c))
            r = rng.random()
            if r < 0.4:
                del c[i]
            elif r < 0.7:
                c.insert(i, rng.choice(case[1:]))
            else:
                c.insert(i, rng.choice(["next", "adv 1", "adv 50"]))
        yield c + ["next"]


def normalize(line):
    """Compared: events, connection tables with handle activity, which connections still have a
    strong sender, the id counter. Printed but not compared (representation of the tracker, free to
    change): `la<i>` (last_activity) and `tm<i>` (number of pending sleep futures)."""
    return re.sub(r" (la|tm)\d+=(\[[^\]]*\]|\d+)", "", line)


# ------------------------------------------------------------------ oracle

def parse_next(o):
    """-> (events per protocol, handle flags per protocol {conn: active}, alive set) or None."""
    if o.startswith("panic") or "alive=[" not in o:
        return None
    evs = {int(i): (b.split(",") if b else []) for i, b in re.findall(r"\be(\d+)=\[([^\]]*)\]", o)}
    flags = {}
    for i, b in re.findall(r"\bc(\d+)=\[([^\]]*)\]", o):
        d = {}
        for row in (b.split(",") if b else []):
            for h in row.split(":")[1].split("/"):
                if h != "-":
                    d[int(h[:-1])] = h[-1] == "+"
        flags[int(i)] = d
    m = re.search(r"alive=\[([^\]]*)\]", o)
    alive = {int(x) for x in m.group(1).split(",")} if m.group(1) else set()
    return evs, flags, alive


def oracle(case, out):
    """Property-level check of the close time of every connection, independent of the Lean model.

    For a live connection c: `la` = time of the last keep-alive activity (establishment as seen by the
    protocols; open_substream of a Yes protocol on c; a substream of a Yes protocol reported on c);
    `busy` = a substream of a Yes protocol on c exists or is being opened.
      not before:  busy or now < la + T          =>  c still has a strong sender
      once elapsed: nothing pending on c, now >= la + T, protocols polled  =>  c has no strong sender
    (the second only on schedules where protocols poll right after an activity, see ASSUMPTIONS)."""
    bad = []

    def v(kind, msg, i):
        bad.append({"kind": kind, "msg": msg, "step": i, "op": case[i], "out": out[i] if i < len(out) else None})

    T, kinds = None, []
    now = 0
    live = {}              # conn -> peer (task exists)
    order = {}             # peer -> connections in order of establishment, as processed by the protocols
    la_min, la_max = {}, {}
    opening = {}           # sid -> (proto, conn)   accepted, command not yet answered to the protocol
    inflight_in = {}       # proto -> list of conns of inbound substreams not yet delivered
    held = {}              # proto -> list of (conn) of substreams held, in delivery order
    pending_est = []       # conns established but not yet processed
    pending_closed = []
    clogged = {}           # conn -> time of the last open_substream of a keep-alive protocol answered ChannelClogged
    prompt = True          # every activity has been followed by a poll before time advanced
    unpolled = False
    for i, op in enumerate(case):
        if i >= len(out):
            break
        o = out[i]
        t = op.split()
        if o == "skipped":
            break
        if o.startswith("panic"):
            v("panic", f"panic: {o}", i)
            break
        if o in ("bad-op", "unknown", "gone"):
            continue
        if t[0] == "cfg":
            T, kinds = int(t[1]), t[2:]
            inflight_in = {k: [] for k in range(len(kinds))}
            held = {k: [] for k in range(len(kinds))}
        elif T is None:
            continue
        elif t[0] == "est":
            live[int(t[2])] = int(t[1])
            pending_est.append(int(t[2]))
            unpolled = True
        elif t[0] == "closed":
            c = int(t[2])
            live.pop(c, None)
            pending_closed.append(c)
            unpolled = True
        elif t[0] == "adv":
            if unpolled:
                prompt = False
            now += int(t[1])
        elif t[0] == "open":
            k, p = int(t[1]), int(t[2])
            yes = kinds[k] == "Y"
            if o.startswith("ok "):
                _, sid, c = o.split()
                sid, c = int(sid), int(c)
                opening[sid] = (k, c)
                if yes:
                    la_min[c] = la_max[c] = max(la_max.get(c, 0), now)
                    unpolled = True
            elif o in ("err closed", "err clogged") and yes:
                # activity may or may not have been recorded (depends on where it failed): the upper bound moves, the
                # lower bound (`la_min`: the connection is kept until T after the last activity that did happen) stays
                # — a refused request takes nothing away from the connection
                cs = [c for c in order.get(p, []) if c in live]
                if cs:
                    la_max[cs[0]] = max(la_max.get(cs[0], 0), now)
                    unpolled = True
                    if o == "err clogged":
                        clogged[cs[0]] = now
        elif t[0] == "recv":
            c = int(t[1])
            if o == "none" and c in live:
                busy = any(kinds[k] == "Y" and cc == c for k, cc in opening.values()) or \
                    any(kinds[k] == "Y" and c in held[k] for k in held)
                if busy:
                    v("closed-while-busy", f"connection {c} loop would exit while a keep-alive substream exists or is being opened", i)
                elif c in la_min and now < la_min[c] + T:
                    why = f" (open_substream answered ChannelClogged at {clogged[c]})" if c in clogged else ""
                    v("closed-early", f"connection {c} without strong sender at {now}, last keep-alive activity {la_min[c]}, T={T}{why}", i)
        elif t[0] == "subopen":
            pass
        elif t[0] == "subfail":
            if o.startswith("ok "):
                opening.pop(int(o.split()[1]), None)   # the task dropped the permit; the failure carries none
        elif t[0] == "subin":
            if o == "ok":
                inflight_in[int(t[2])].append(int(t[1]))
                unpolled = True
            elif o == "err no-permit":
                c = int(t[1])
                if c in live and c in la_min and now < la_min[c] + T:
                    v("closed-early", f"connection {c} refuses a permit at {now}, last keep-alive activity {la_min[c]}, T={T}", i)
        elif t[0] == "dropsub":
            k, j = int(t[1]), int(t[2])
            if o == "ok" and j < len(held[k]):
                held[k].pop(j)
        elif t[0] == "next":
            parsed = parse_next(o)
            if parsed is None:
                continue
            evs, flags, alive = parsed
            for c in pending_est:
                order.setdefault(live.get(c, -1), []).append(c)
                la_min[c] = la_max[c] = now
            pending_est = []
            for k, es in evs.items():
                for e in es:
                    f = e.split(":")
                    if f[0] == "sub":
                        # the protocol keeps every substream it is given, in this order (`dropsub k j`)
                        if f[2].startswith("out"):
                            c = opening.pop(int(f[2][3:]), (k, -1))[1]
                        else:
                            c = inflight_in[k].pop(0) if inflight_in.get(k) else -1
                        held[k].append(c)
                        if kinds[k] == "Y" and c >= 0:
                            la_min[c] = max(la_min.get(c, 0), now)
                            la_max[c] = max(la_max.get(c, 0), now)
                    elif f[0] == "fail":
                        opening.pop(int(f[1]), None)
            for c in pending_closed:
                for p in order:
                    if c in order[p]:
                        order[p].remove(c)
                for sid in [s for s, pc in opening.items() if pc[1] == c]:
                    del opening[sid]
            pending_closed = []
            unpolled = False
            for c in list(live):
                if c not in la_min:
                    continue
                busy_ka = any(kinds[k] == "Y" and cc == c for k, cc in opening.values()) or \
                    any(kinds[k] == "Y" and c in held[k] for k in held)
                any_pending = busy_ka or any(cc == c for _, cc in opening.values()) or \
                    any(c in inflight_in[k] for k in inflight_in)
                if c not in alive:
                    if busy_ka:
                        v("closed-while-busy", f"connection {c} has no strong sender at {now} while a keep-alive substream exists or is being opened", i)
                    elif now < la_min[c] + T:
                        why = f" (open_substream answered ChannelClogged at {clogged[c]})" if c in clogged else ""
                        v("closed-early", f"connection {c} has no strong sender at {now}: last keep-alive activity {la_min[c]}, T={T}{why}", i)
                elif prompt and not any_pending and now >= la_max[c] + T:
                    v("not-closed", f"connection {c} still has a strong sender at {now}: last keep-alive activity {la_max[c]}, T={T}, nothing held or opening", i)
    return bad


def stats(case, out, acc):
    for op, o in zip(case, out):
        t = op.split()[0]
        bump(acc, "op:" + t)
        if t in ("open", "recv", "subin", "subopen", "dropsub"):
            bump(acc, f"{t}:" + " ".join(o.split()[:2] if o.startswith("err") else o.split()[:1]))
    bump(acc, "protocols:" + "".join(case[0].split()[2:]))
    bump(acc, "case-len:%d" % (10 * (len(case) // 10)))


def nontrivial(case, out):
    seen_alive, closed_idle = set(), False
    for op, o in zip(case, out):
        if op == "next":
            p = parse_next(o)
            if p:
                for c in seen_alive - p[2]:
                    closed_idle = True
                seen_alive |= p[2]
    kinds = case[0].split()[2:]
    yes_open = any(op.startswith("open ") and o.startswith("ok") and kinds[int(op.split()[1])] == "Y"
                   for op, o in zip(case, out) if len(op.split()) == 3 and op.split()[1].isdigit() and int(op.split()[1]) < len(kinds))
    return closed_idle and yes_open


def matches_known(k, v):
    return False


# ---------------------------------------------------------------- the real event loop (engine: extra_cases)
# The c09 adapter plays the connection task. The `tcploop` area drives the REAL `TcpConnection::start` loop over
# loopback TCP (remote substreams whose negotiation is stretched over the expiry of every handle, stalled outbound
# opens, messages in flight) and ties it to Model/Conn/Permits.lean, where the permit of an inbound substream is taken
# at accept time. Judged here by the property-level oracle `tcploop.oracle_c09`.
def extra_cases(rng, tier):
    from . import tcploop
    yield "TCPLOOP", tcploop.gen_cases(rng, tier, focus="C09")


def oracle_extra(xpid, case, out):
    from . import tcploop
    return [dict(v, msg="(real TcpConnection loop, tcploop area) " + v["msg"]) for v in tcploop.oracle_c09(case, out)]


def stats_extra(xpid, case, out, acc):
    from . import tcploop
    tcploop.stats(case, out, acc)


# ---------------------------------------------------------------- real nodes through the public API (engine: extra_cases)
# `Litep2p::new` (src/lib.rs) and `ConfigBuilder` (src/config.rs) hand every protocol its configuration; the `node` area
# (checks/node.py) builds real nodes, compares the registration record with the wiring model (Model/Node/Wiring.lean)
# and judges this property's real-time scenarios at node level.
from . import node as _node  # noqa: E402
_node.install(globals())
