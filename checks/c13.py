"""C13 — every request gets exactly one terminal outcome with the matching payload
(model: Model/ReqResp/Ledger.lean, environment + driver: Driver/C13.lean, adapter: src/verif/c13.rs)."""
from .common import bump

ID = "C13"
AREA = "c13"
LEAN_PROPS = "Litep2pVerif.Props.C13"
THEOREMS = ["at_most_one_terminal", "request_located", "active_owned", "exactly_one_at_quiescence",
            "parked_only_while_dial_owed", "dial_answer_settles", "response_matches",
            "responder_sees_once", "inbound_delivered", "inbound_bound", "cancel_effect", "outcome_translation_total",
            "error_kind_translation", "handle_stream_faithful", "request_ids_and_channel", "answer_at_most_once"]
CHANNEL_SIZE = 4096     # DEFAULT_CHANNEL_SIZE (checked against the source through CONST_TABLE / Props.C13)
CONST_TABLE = [
    ("RR_COMMAND_CHANNEL_SIZE", "src/lib.rs", r"const DEFAULT_CHANNEL_SIZE: usize = (\d+)usize;", 4096),
]
MANIFEST = {
    "text": "Lean 4 theorems about an operational model of RequestResponseProtocol (same state components and handler "
            "order as request_response/mod.rs; every interleaving of user commands, transport events and completions of "
            "the per-request futures, with arbitrary answers of the transport service): at most one terminal event per "
            "request id and a ledger invariant locating every issued request in exactly one place (on the code with the "
            "per-peer dial queue fix); the owner invariant (every id in an active set is waited for by a pending "
            "substream or a request future of that very peer), hence exactly one terminal event for every issued request "
            "in every reachable quiescent state unless its cancel channel fired (then at most one); at most one substream "
            "is ever opened per request id, the request future is started at most once and only on that substream, "
            "substream ids are never shared; every inbound id is handed to the user at most once, exactly when its read "
            "succeeded while registered; every ResponseReceived in the log carries a payload the responder wrote on the "
            "one substream opened for that request id (ghost maps rid -> substream -> wire content); every started request "
            "future writes exactly one payload, the main one or the fallback one iff the substream was negotiated with the "
            "request's own fallback protocol; inbound bound; the "
            "exact window in which a cancel takes effect. Quiescence is stated over what the transport manager owes, "
            "not over the protocol's pending_dials: an observer (Model/ReqResp/Env.lean) records every dial() call "
            "answered Ok until ConnectionEstablished/DialFailure of that peer is delivered; the answers of dial() are "
            "arbitrary inputs (Ok, AlreadyConnected, TriedToDialSelf, NoAddressAvailable, ChannelClogged, TaskClosed), "
            "independent of what the protocol was told about the peer, so the window in which the manager still says "
            "'connected' for a peer the protocol dropped or never registered is included; invariant: every peer with a "
            "queue in pending_dials is owed a dial; only an Ok answer parks a request, every refusal fails it at once. "
            "User-facing layer (Model/ReqResp/Handle.lean): every way the per-request future can end is translated into "
            "at most one user event (none exactly for Canceled); From<SubstreamError> for RejectReason and the "
            "open-failure translation are total with the stated case split; the handle's stream never hits the From "
            "impl's panic arm and is a field-preserving one-to-one image of the protocol's events (peer, id, payload, "
            "error, fallback name), so the user sees at most one terminal event per request; request ids are taken "
            "before the command is queued and a full command channel (DEFAULT_CHANNEL_SIZE from the source) refuses the "
            "command and nothing else; an inbound request is answered at most once (send_response / _with_feedback / "
            "reject_request consume the pending response). All full strength, by induction over all histories; the "
            "oracle checks the same statements on the implementation on every run. Tied to the code "
            "by a seeded differential run of the real protocol + handle (injected transport events, in-memory yamux "
            "substreams, paused clock) against the executable model, plus a per-request ledger oracle.",
    "note": "Trusted: Lean kernel; axioms propext/Classical.choice/Quot.sound; the hand-written model and its tie (sampled "
            "differential runs through adapter src/verif/c13.rs); tokio timers/select!, yamux and the Substream codec are "
            "outside the model (their results are inputs of the model: future completions).",
    "technique": "Lean 4 proof (ledger invariant over a labelled transition system) + model/implementation correspondence check",
    "design_ref": "DESIGN.md §7 C13",
}
RULE = ("seeded histories over 5 peers (the local one, 3 dialable, 1 unknown) with the transport manager's view of every "
        "peer scripted independently of the transport events (unknown / no address / disconnected / dial record pending / "
        "dialing / opening / connected; its command channel clogged or gone): the view follows the events with a lag "
        "(connected before the protocol hears of the connection, still connected after the protocol was told that the "
        "connection closed - requests issued in that window -, dialing after a DialPeer command) or changes on its own; "
        "every send API (try_send_request, send_request, the two _with_fallback variants, 2-5 and 257-4100 requests back "
        "to back so that the command channel / the manager's channel overflow), "
        "bursts of 1-4 requests per peer with dial-on-demand or reject, "
        "connection established/closed (up to two connections per peer), dial failures, dead connections, substream "
        "open / open failure per request (optionally negotiated with a fallback protocol that is or is not the request's, "
        "optionally with a far end nobody reads so that a 300000-byte request blocks in the first-stage send until its "
        "timeout), requests with a fallback payload, responder answers / rejects / closes at a byte offset / stalls, cancels at "
        "random points (also of one of several requests waiting for the same dial), substreams whose connection is gone "
        "before the request is written, 12 kinds of substream-open failure, logical-time advances across the request "
        "timeout, inbound requests (complete or held, beyond the "
        "inbound limit, negotiated with a fallback name) answered (with or without feedback channel, twice) / refused / "
        "dropped, payloads 0..max+1; a state snapshot before the end; most cases end with a drain phase that answers "
        "every dial and substream open and lets every future time out; a case is non-trivial if it has a delivered "
        "response and a failure; distinct = distinct (ops, observations) transcripts by SHA-256")
TRUSTED_BASE = ["Lean 4.33 kernel", "axioms: propext, Classical.choice, Quot.sound only",
                "hand-written model Model/ReqResp/Ledger.lean (protocol) and the environment model inside Driver/C13.lean "
                "(TransportService + harness, used only by the driver) tied to request_response/mod.rs by this correspondence run",
                "adapter /repo/src/verif/c13.rs (plays transport manager, connections and remote peers; the real "
                "TransportManagerHandle::dial runs over the manager's shared peer map, which src/verif/c13_manager.rs "
                "fills with real PeerState values), harness, verif.py, checks/c13.py",
                "tokio runtime with paused clock (timeouts driven by logical time, 1 unit = 10 s)",
                "yamux + Substream framing treated as a black box whose results (response / eof / read failure / too large) "
                "are validated by the differential run"]
ASSUMPTIONS = ["request and substream ids come from fetch_add counters and are never reused (stated as hypotheses of the "
               "step relation)",
               "C05: a dial() answered Ok (started or already in progress) is concluded by ConnectionEstablished or "
               "DialFailure for that peer; the quiescence theorem is conditional on no such dial being outstanding "
               "(dialsOwed = [])",
               "the user reads the handle's events between operations (the adapter drains after every operation), so the "
               "4096-slot event channel never blocks the protocol for longer than one operation",
               "transport events respect the C08 grammar: substream results only for substreams the protocol still waits "
               "for, at most two connections per peer (the adapter refuses anything else)",
               "keep-alive downgrades are outside the scope (C09): the adapter uses an effectively infinite keep-alive",
               "a request future whose far end is never read is stalled in its first stage (send) exactly when the framed "
               "request exceeds the 256 KiB yamux window (the generator stays far from that boundary: <= 70001 or 300000 bytes)",
               "a case performs fewer than 5000 operations (settling costs 1-3 ms of the paused clock per operation, "
               "one logical time unit is 10 s)"]
KEEP_PREFIX = 1

PEERS = [1, 2, 3, 4]
SUBFAIL_KINDS = ["closed", "closed", "unsupported", "unsupported", "notconn", "timeout", "notconn-yamux", "notconn-neg",
                 "notconn-ms", "reset", "reset-yamux", "reset-neg", "reset-ms", "clogged"]
# `ev subfail r<k> <kind>`: the failure the user must see
SUBFAIL_WORD = {"closed": "open-error:closed", "unsupported": "unsupported", "notconn": "conn-closed",
                "notconn-yamux": "conn-closed", "notconn-neg": "conn-closed", "notconn-ms": "conn-closed",
                "timeout": "open-error:negotiation-timeout", "reset": "open-error:io", "reset-yamux": "open-error:yamux",
                "reset-neg": "open-error:negotiation", "reset-ms": "open-error:negotiation", "clogged": "open-error:clogged"}
MGR_VIEWS = ["unknown", "noaddr", "disconnected", "redial", "dialing", "opening", "connected"]


def payload(length, fill):
    return bytes(((fill + j) % 256) for j in range(length))


def checksum(b):
    acc = 0
    for j, x in enumerate(b):
        acc = (acc + (j % 251 + 1) * x) % 65521
    return acc


def show(length, fill):
    return f"{length}:{checksum(payload(length, fill))}"


def varint_len(n):
    k = 1
    while n >= 128:
        n >>= 7
        k += 1
    return k


# ------------------------------------------------------------------ generator

def pick_len(rng, mx):
    r = rng.random()
    if mx >= 300000:
        # big-window cases: the interesting size is the one that exceeds the yamux window
        return rng.choice([0, rng.randrange(0, 41), 70000, 300000, 300000, mx + 1])
    if r < 0.15:
        return 0
    if r < 0.3:
        return mx
    if r < 0.4:
        return mx + 1
    if r < 0.5:
        return max(mx - 1, 0)
    return rng.randrange(0, min(mx, 40) + 1)


def gen_case(rng, n_ops):
    """Structure-aware: the generator keeps a rough guess of where every request is (waiting for a
    dial, for its substream, for its response, done) and mostly picks operations that apply; a
    fifth of the operations are picked blindly."""
    mx = rng.choice([8, 16, 64, 64, 300, 300, 70000, 8, 16, 64, 64, 300, 300, 70000, 400000])
    timeout = rng.choice([1, 2, 2, 3])
    inmax = rng.choice(["none", "none", 0, 1, 2, 2, 3])
    ops = [f"cfg max={mx} timeout={timeout} inmax={inmax}"]
    focus = rng.sample(PEERS, 2)
    sends = []            # k -> peer
    phase = {}            # k -> dialing | opening | open | done   (a guess)
    conns = {}            # peer -> live conn ids (a guess)
    inb = []              # k -> held | asked | done (a guess)
    next_conn = [0]
    clock = {}            # k -> logical time the response timer started

    def peer():
        return rng.choice(focus) if rng.random() < 0.8 else rng.choice(PEERS)

    def some(ph):
        ks = [k for k, v in phase.items() if v == ph]
        return rng.choice(ks) if ks else None

    def any_rid():
        if not sends:
            return 0
        if rng.random() < 0.7:
            return rng.randrange(max(0, len(sends) - 4), len(sends))
        return rng.randrange(len(sends))

    def note_sent(p, mode):
        k = len(sends)
        sends.append(p)
        if conns.get(p):
            phase[k] = "opening"
        elif mode == "dial" and view.get(p, "disconnected" if 1 <= p <= 3 else "unknown") in (
                "disconnected", "dialing", "opening", "redial"):
            phase[k] = "dialing"
        else:
            phase[k] = "done"

    def send(p, mode, burst):
        for _ in range(burst):
            k = len(sends)
            # every API variant: try_send_request / send_request, with and without fallback
            suffix = " async" if rng.random() < 0.3 else ""
            if rng.random() < 0.15:
                ops.append(f"sendfb {p} {pick_len(rng, mx)} {k % 256} {mode} {rng.choice([1, 2])} "
                           f"{pick_len(rng, mx)} {(k + 77) % 256}{suffix}")
            else:
                ops.append(f"send {p} {pick_len(rng, mx)} {k % 256} {mode}{suffix}")
            note_sent(p, mode)
        # the transport manager handles the `DialPeer` command (or not yet)
        if mode == "dial" and not conns.get(p) and view.get(p, "disconnected") == "disconnected" and 1 <= p <= 3 \
                and rng.random() < 0.6:
            mgr(p, "dialing")

    def back_to_back(p, mode, count):
        ops.append(f"burst {p} {count} {mode}" + (" fb" if rng.random() < 0.3 else ""))
        for _ in range(count):
            note_sent(p, mode)

    def establish(p):
        c = next_conn[0]
        next_conn[0] += 1
        dead = rng.random() < 0.06
        # the transport manager learns about the connection before the protocols do
        r = rng.random()
        if r < 0.6:
            mgr(p, "connected")
        ops.append(f"ev established {p} {c}" + (" dead" if dead else ""))
        if 0.6 <= r < 0.85:
            mgr(p, "connected")
        if len(conns.get(p, [])) < 2:
            first = not conns.get(p)
            conns.setdefault(p, []).append(c)
            if first:
                for k, q in enumerate(sends):
                    if q == p and phase[k] == "dialing":
                        phase[k] = "opening"

    def close(p, c):
        ops.append(f"ev closed {p} {c}")
        if c in conns.get(p, []):
            conns[p].remove(c)
            if not conns[p]:
                was_open = [k for k, q in enumerate(sends) if q == p and phase[k] == "open"]
                for k, q in enumerate(sends):
                    if q == p and phase[k] in ("opening", "open"):
                        phase[k] = "done"
                # the responder's answer racing with the loss of the connection: it becomes readable only after the
                # protocol has already failed the request
                if was_open and rng.random() < 0.6:
                    late_answers.append(rng.choice(was_open))
                # ... and the transport manager hears about it after the protocols
                if view.get(p) == "connected" and rng.random() < 0.7:
                    window(p)
                elif rng.random() < 0.8:
                    mgr(p, "disconnected")

    late_answers = []
    view = {}             # peer -> the manager's view as scripted so far (a guess of what is consistent)

    def mgr(p, v):
        ops.append(f"mgr {p} {v}")
        view[p] = v

    def window(p):
        """The protocol has been told that the last connection to `p` is gone, the transport manager has not
        caught up yet (connections report to the protocols first): requests issued now see `AlreadyConnected`."""
        send(p, "dial", rng.choice([1, 1, 2]))
        if rng.random() < 0.5:
            ops.append("state")
        if rng.random() < 0.85:
            mgr(p, "disconnected")
            if rng.random() < 0.4:
                send(p, "dial", 1)

    def respond(k):
        r = rng.random()
        fill = (100 + k) % 256
        if r < 0.7:
            ops.append(f"respond r{k} {pick_len(rng, mx)} {fill}")
        elif r < 0.8:
            ops.append(f"reject r{k}")
        else:
            ln = pick_len(rng, mx)
            full = ln + varint_len(ln)
            at = rng.choice([0, 1, full - 1, full, rng.randrange(0, full + 1)])
            ops.append(f"close r{k} at={max(at, 0)} {ln} {fill}")
        phase[k] = "done"

    def inbound(p, burst):
        for _ in range(burst):
            hold = rng.random() < 0.5
            fb = f" fb={rng.choice([1, 2, 9])}" if rng.random() < 0.3 else ""
            ops.append(f"inbound {p} {pick_len(rng, min(mx, 70000))} {(200 + len(inb)) % 256}{' hold' if hold else ''}{fb}")
            inb.append("held" if hold else "asked")

    big = []
    if rng.random() < 0.012:
        big.append((rng.choice([4, 4, peer()]), "reject" if rng.random() < 0.7 else "dial", rng.choice([4097, 4100])))
    if rng.random() < 0.012:
        big.append((peer(), "dial", rng.choice([257, 300])))
    if rng.random() < 0.5:
        establish(focus[0])
    while len(ops) < n_ops:
        while late_answers:
            respond(late_answers.pop())
        blind = rng.random() < 0.2
        r = rng.random()
        if r < 0.20:
            q = rng.random()
            mode = "dial" if rng.random() < 0.75 else "reject"
            if q < 0.03:
                send(0, "dial", 1)                      # the local peer
            elif q < 0.08:
                back_to_back(peer(), mode, rng.choice([2, 3, 5]))
            elif big:
                # more than the command channel (4096) / the manager's channel (256) takes
                back_to_back(*big.pop())
            else:
                send(peer(), mode, rng.choice([1, 1, 2, 2, 3, 4]))
        elif r < 0.215:
            # the manager's view changes on its own (another protocol dialed, addresses were forgotten, ...)
            q = rng.random()
            if q < 0.75:
                mgr(peer(), rng.choice(["unknown", "noaddr", "disconnected", "redial", "dialing", "opening", "connected"]))
            elif q < 0.85:
                ops.append("mgr clog")
            elif q < 0.97:
                ops.append("mgr unclog")
            else:
                ops.append("mgr gone")
        elif r < 0.30:
            k = None if blind else some("dialing")
            establish(sends[k] if k is not None else peer())
        elif r < 0.35:
            live = [(p, c) for p, cs in conns.items() for c in cs]
            if live and not blind:
                close(*rng.choice(live))
            else:
                close(peer(), rng.randrange(0, max(next_conn[0], 1)))
        elif r < 0.39:
            k = None if blind else some("dialing")
            p = sends[k] if k is not None else peer()
            if rng.random() < 0.5:
                mgr(p, "disconnected")
            ops.append(f"ev dialfail {p}")
            if view.get(p) in ("dialing", "opening", "redial") and rng.random() < 0.8:
                mgr(p, "disconnected")
            for k2, q in enumerate(sends):
                if q == p and phase[k2] == "dialing":
                    phase[k2] = "done"
        elif r < 0.41:
            live = [(p, c) for p, cs in conns.items() for c in cs]
            p, c = rng.choice(live) if live else (peer(), 0)
            ops.append(f"ev conndead {p} {c}")
        elif r < 0.56:
            k = any_rid() if blind else some("opening")
            if k is None:
                continue
            extra = ""
            if rng.random() < 0.25:
                extra += f" fb={rng.choice([1, 2, 3])}"
            if rng.random() < (0.4 if mx >= 300000 else 0.08):
                extra += " noread"
            elif rng.random() < 0.05:
                extra += " broken"
            ops.append(f"ev subopen r{k}{extra}")
            if phase.get(k) == "opening":
                phase[k] = "open"
        elif r < 0.59:
            k = any_rid() if blind else some("opening")
            if k is None:
                continue
            ops.append(f"ev subfail r{k} {rng.choice(SUBFAIL_KINDS)}")
            if phase.get(k) == "opening":
                phase[k] = "done"
        elif r < 0.74:
            k = any_rid() if blind else some("open")
            if k is None:
                continue
            respond(k)
        elif r < 0.80:
            q = rng.random()
            # also: one of several requests that wait for the same dial
            k = any_rid() if blind or q < 0.3 else some("dialing") if q < 0.5 else some("open")
            if k is None:
                continue
            ops.append(f"cancel r{k}")
            if phase.get(k) == "open":
                phase[k] = "done"
        elif r < 0.85:
            n = rng.choice([1, 1, 2, timeout])
            ops.append(f"advance {n}")
            if n >= timeout:
                for k in phase:
                    if phase[k] == "open":
                        phase[k] = "done"
        elif r < 0.91:
            live = [p for p, cs in conns.items() if cs]
            inbound(rng.choice(live) if live and not blind else peer(), rng.choice([1, 1, 2, 3, 5]))
        elif r < 0.93:
            ks = [k for k, v in enumerate(inb) if v == "held"]
            k = rng.choice(ks) if ks and not blind else (rng.randrange(len(inb)) if inb else 0)
            ops.append(f"feed i{k}" if rng.random() < 0.75 else f"drop i{k}")
            if k < len(inb):
                inb[k] = "asked"
        elif r < 0.98:
            ks = [k for k, v in enumerate(inb) if v == "asked"]
            k = rng.choice(ks) if ks and not blind else (rng.randrange(len(inb)) if inb else 0)
            if rng.random() < 0.75:
                ops.append(f"answer i{k} {pick_len(rng, mx)} {(50 + k) % 256}" + (" feedback" if rng.random() < 0.4 else ""))
            else:
                ops.append(f"refuse i{k}")
            if k < len(inb):
                inb[k] = "done"
        else:
            ops.append("state")
    # what is parked must be waiting for a dial the transport manager owes
    ops.append("state")
    if rng.random() < 0.85:
        # drain: the environment answers everything it still owes
        for p in sorted(set(sends)):
            if rng.random() < 0.7:
                ops.append(f"ev dialfail {p}")
            else:
                establish(p)
        for k in range(max(0, len(sends) - 60), len(sends)):
            ops.append(f"ev subfail r{k} closed" if rng.random() < 0.6 else f"ev subopen r{k}")
        ops.append(f"advance {timeout}")
        ops.append(f"advance {timeout}")
    ops.append("state")
    return ops


def gen_cases(rng, tier):
    n = {"quick": 700, "thorough": 20000, "search": 4000}[tier]
    for _ in range(n):
        yield gen_case(rng, rng.choice([6, 10, 16, 25, 40, 60]))


def corpus():
    # §8-k: two requests while the peer is being dialed (the first one used to be lost)
    return [["cfg max=64 timeout=2 inmax=none", "send 1 3 0 dial", "send 1 4 1 dial", "state", "ev dialfail 1", "state"],
            ["cfg max=64 timeout=2 inmax=none", "send 1 3 0 dial", "send 1 4 1 dial", "send 1 5 2 dial",
             "ev established 1 0", "ev subopen r0", "ev subopen r1", "ev subopen r2", "respond r1 7 101",
             "respond r0 6 100", "respond r2 8 102", "state"],
            # fallback negotiated (own / foreign fallback protocol), first-stage send stalled past a cancel
            ["cfg max=400000 timeout=2 inmax=none", "ev established 1 0", "sendfb 1 3 0 reject 7 5 1", "ev subopen r0 fb=7",
             "respond r0 4 9", "sendfb 1 3 0 reject 7 5 1", "ev subopen r1 fb=8", "send 1 300000 3 reject",
             "ev subopen r2 noread", "cancel r2", "advance 1", "state", "advance 1", "state", "send 1 10 3 reject",
             "ev subopen r3 noread", "cancel r3", "state"],
            # the window: the protocol has been told that the connection closed, the manager still says connected
            ["cfg max=64 timeout=2 inmax=none", "mgr 1 connected", "ev established 1 0", "ev closed 1 0",
             "send 1 4 1 dial", "state", "mgr 1 disconnected", "send 1 4 2 dial", "state", "ev dialfail 1", "state"],
            # a peer the protocol never registered (every substream open failed), connected for the manager
            ["cfg max=64 timeout=2 inmax=none", "send 1 3 0 dial", "mgr 1 dialing", "mgr 1 connected",
             "ev established 1 0 dead", "state", "send 1 3 1 dial async", "state", "ev closed 1 0", "state"],
            # every answer of dial(); cancel of one of three requests waiting for the same dial
            ["cfg max=64 timeout=2 inmax=none", "send 0 1 0 dial", "send 4 1 1 dial", "mgr 2 noaddr", "send 2 1 2 dial",
             "mgr 2 redial", "send 2 1 3 dial", "mgr 3 opening", "sendfb 3 1 4 dial 1 2 5", "mgr clog", "send 1 1 5 dial",
             "mgr unclog", "send 1 1 6 dial", "send 1 1 7 dial async", "burst 1 2 dial", "cancel r7", "state", "mgr gone",
             "send 1 1 8 dial", "mgr 1 dialing", "ev established 1 0", "ev subopen r6", "ev subopen r7 fb=3", "respond r6 2 2",
             "respond r7 3 3", "ev dialfail 2", "ev dialfail 3", "state"],
            # full command channel; inbound fallback names; feedback
            ["cfg max=64 timeout=2 inmax=2", "burst 4 4097 reject", "ev established 1 0", "inbound 1 4 4 fb=2",
             "answer i0 3 3 feedback", "answer i0 3 3 feedback", "inbound 1 4 5 hold fb=9", "feed i1", "answer i1 100 3 feedback",
             "inbound 1 4 6", "refuse i2", "answer i2 1 1 feedback", "state"],
            # more active requests on one connection than the event channel holds (4096): when the connection closes
            # every one of them still gets its failure (the protocol waits for the user to read; seeded change C13-d1)
            ["cfg max=64 timeout=2 inmax=none", "ev established 1 0", "burst 1 2100 reject", "burst 1 2100 reject",
             "ev closed 1 0", "state"],
            # the read of an inbound request completes after its connection was replaced / is gone
            ["cfg max=64 timeout=2 inmax=2", "ev established 1 0", "inbound 1 4 4 hold", "ev closed 1 0", "ev established 1 1",
             "feed i0", "state", "inbound 1 4 5 hold fb=1", "ev closed 1 1", "feed i1", "state"]]


def mutate_case(rng, case, n):
    for _ in range(n):
        c = list(case)
        for _ in range(rng.randrange(1, 4)):
            i = rng.randrange(1, len(c))
            if rng.random() < 0.5:
                del c[i]
            else:
                c.insert(i, rng.choice(case[1:]))
            if len(c) < 2:
                break
        yield c


# ------------------------------------------------------------------ oracle

def parse_state(o):
    d = {}
    for part in o.split():
        k, _, v = part.partition("=")
        d[k] = v
    return d


def split_obs(o):
    parts = o.split(";")
    if len(parts) != 3:
        return o, [], []
    res, calls, events = parts
    return res, ([] if calls == "-" else calls.split(",")), ([] if events == "-" else events.split(","))


def oracle(case, out):
    """Per-request ledger evaluated on the implementation's observations only."""
    bad = []

    def v(kind, msg, i, **kw):
        bad.append({"kind": kind, "msg": msg, "step": i, "op": case[i] if i < len(case) else None,
                    "out": out[i] if i < len(out) else None, **kw})

    cfg = None
    reqs = {}          # "rK" -> dict(len, fill, mode, peer, step)
    terminals = {}     # "rK" -> list of (step, event)
    cancelled = set()
    supplied = {}      # "rK" -> (len, fill) the responder wrote as a complete frame
    opened = {}        # "rK" -> number of substreams on which the responder saw something / was opened
    inb = {}           # "iK" -> dict(len, fill)
    inb_seen = {}      # "iK" -> number of RequestReceived
    answered = set()
    outstanding = 0
    nsend = 0
    ninb = 0
    now = 0            # logical time
    opened_at = {}     # "rK" -> logical time its substream was handed to the protocol
    view = {}          # peer -> the transport manager's view, as scripted (`mgr <p> <view>`)
    clog = gone = False
    owed = set()       # peers whose dial the transport manager has accepted / reported in progress and not concluded
    live = {}          # peer -> number of live connections at the transport service
    negotiated = {}    # "rK" -> fallback protocol its substream was negotiated with
    feedback_of = {}   # "iK" -> True once a response was written for it

    def view_of(p):
        return view.get(p, "disconnected" if 1 <= p <= 3 else "unknown")

    def dial_refusal(p):
        """What `TransportManagerHandle::dial` must answer for the scripted view (None: Ok)."""
        if p == 0:
            return "self"
        w = view_of(p)
        if w in ("unknown", "noaddr"):
            return "no-address"
        if w == "connected":
            return "already-connected"
        if w in ("dialing", "opening", "redial"):
            return None
        if gone:
            return "task-closed"
        return "clogged" if clog else None
    for i, op in enumerate(case):
        if i >= len(out):
            break
        o = out[i]
        t = op.split()
        if not t:
            continue
        if o.startswith("panic"):
            v("panic", f"panic in {t[0]}: {o}", i)
            break
        if o in ("skipped", "bad-op"):
            if o == "skipped":
                break
            continue
        if t[0] == "cfg":
            kv = dict(a.split("=") for a in t[1:])
            cfg = {"max": int(kv["max"]), "timeout": int(kv["timeout"]),
                   "inmax": None if kv["inmax"] == "none" else int(kv["inmax"])}
            continue
        if cfg is None:
            continue
        if t[0] == "state":
            st = parse_state(o)
            if cfg["inmax"] is not None and int(st.get("inreqs", 0)) + int(st.get("outresps", 0)) > cfg["inmax"]:
                v("inbound-bound", f"{st['inreqs']}+{st['outresps']} inbound requests in flight, limit {cfg['inmax']}", i)
            # a request may only be parked while the transport manager owes the conclusion of a dial of its peer
            for entry in filter(None, st.get("dials", "").split(",")):
                pp, _, ids = entry.partition(":")
                if pp.isdigit() and int(pp) not in owed:
                    for k in filter(None, ids.strip("[]").split("+")):
                        if not terminals.get(k):
                            v("parked-without-dial", f"request {k} is parked in pending_dials for peer {pp} although the "
                              f"transport manager has no dial of that peer to conclude (its view: {view_of(int(pp))}): nothing "
                              f"will ever resolve it", i, request=k)
            # quiescence is judged by what the environment owes, not by the protocol's own bookkeeping
            if not owed and st.get("outbound") == "" and st.get("futures") == "0":
                for k, r in reqs.items():
                    n = len(terminals.get(k, []))
                    if n == 0 and k not in cancelled:
                        v("missing-terminal", f"request {k} (sent at step {r['step']}) has no terminal event although no dial, "
                          f"substream open or request future is outstanding", i, request=k)
            continue
        res, calls, events = split_obs(o)
        if t[-1] == "async" and t[0] in ("send", "sendfb"):
            t = t[:-1]
        if t[0] == "mgr" and res == "ok":
            if t[1:] == ["clog"]:
                clog = True
            elif t[1:] == ["unclog"]:
                clog = False
            elif t[1:] == ["gone"]:
                gone = True
            elif len(t) == 3 and t[1].isdigit():
                view[int(t[1])] = t[2]
        elif (t[0] == "send" and len(t) == 5) or (t[0] == "sendfb" and len(t) == 8):
            k = f"r{nsend}"
            nsend += 1
            if res == k:
                reqs[k] = {"peer": int(t[1]), "len": int(t[2]), "fill": int(t[3]), "mode": t[4], "step": i,
                           "fb": (int(t[5]), int(t[6]), int(t[7])) if t[0] == "sendfb" else None}
                if t[4] == "dial":
                    p = int(t[1])
                    want = dial_refusal(p)
                    for e in events:
                        f = e.split(":")
                        if f[:2] == ["failed", k] and f[2] == "dial-failed" and len(f) == 4 and f[3] != want:
                            v("dial-answer", f"request {k}: the transport manager's view of peer {p} is {view_of(p)}, the "
                              f"request failed with DialFailed({f[3]}) instead of {want or 'waiting for the dial'}", i, request=k)
                    if f"dial:{p}" in calls or view_of(p) in ("dialing", "opening", "redial"):
                        owed.add(p)
        elif t[0] == "burst" and len(t) in (4, 5) and res.startswith("burst:ok="):
            ok = int(res.split(":")[1].split("=")[1])
            p = int(t[1])
            for j in range(int(t[2])):
                k = f"r{nsend}"
                nsend += 1
                if j < ok:
                    reqs[k] = {"peer": p, "len": 1, "fill": j, "mode": t[3], "step": i,
                               "fb": (1, 2, j) if len(t) == 5 else None}
            if t[3] == "dial" and (f"dial:{p}" in calls or view_of(p) in ("dialing", "opening", "redial")):
                owed.add(p)
            room = CHANNEL_SIZE
            if ok != min(int(t[2]), room):
                v("command-channel", f"{ok} of {t[2]} back-to-back requests were accepted, the command channel takes {room}", i)
        elif t[0] == "ev" and t[1] == "established" and res == "ok" and t[2].isdigit():
            p = int(t[2])
            if live.get(p, 0) == 0:
                owed.discard(p)           # the protocol has been told: the dial is concluded
            live[p] = live.get(p, 0) + 1
        elif t[0] == "ev" and t[1] == "closed" and res == "ok" and t[2].isdigit():
            live[int(t[2])] = max(0, live.get(int(t[2]), 0) - 1)
        elif t[0] == "ev" and t[1] == "dialfail" and res == "ok" and t[2].isdigit():
            owed.discard(int(t[2]))
            for e in events:
                f = e.split(":")
                if f[0] == "failed" and f[2:] != ["dial-failed"]:
                    v("error-kind", f"a dial failure was reported to the user as {':'.join(f[2:])}", i, request=f[1])
        elif t[0] == "ev" and t[1] == "subfail" and res == "ok" and len(t) >= 4:
            want = SUBFAIL_WORD.get(t[3], "open-error:closed")
            for e in events:
                f = e.split(":")
                if f[:2] == ["failed", t[2]] and ":".join(f[2:]) != want:
                    v("error-kind", f"substream open failure {t[3]!r} of {t[2]} was reported as {':'.join(f[2:])!r}, "
                      f"expected {want!r}", i, request=t[2])
        elif t[0] == "cancel" and res == "ok":
            cancelled.add(t[1])
        elif t[0] == "ev" and t[1] == "subopen" and res.startswith("opened:"):
            k = t[2]
            opened[k] = opened.get(k, 0) + 1
            opened_at.setdefault(k, now)
            if opened[k] > 1:
                v("responder-saw-twice", f"a second substream was opened for request {k}", i, request=k)
            neg0 = next((int(a[3:]) for a in t[3:] if a.startswith("fb=") and a[3:].isdigit()), None)
            if neg0 is not None:
                negotiated[k] = neg0
            view_ = res[len("opened:"):]
            r = reqs.get(k)
            if r is not None and "broken" in t[3:]:
                for e in events:
                    f = e.split(":")
                    if f[:2] == ["failed", k] and ":".join(f[2:]) not in ("open-error:io", "too-large"):
                        v("error-kind", f"a failed write of {k} was reported as {':'.join(f[2:])!r}", i, request=k)
            elif r is not None and "noread" in t[3:]:
                if view_ != "unread":
                    v("request-mismatch", f"the far end of {k} is never read but the adapter reports {view_!r}", i, request=k)
            elif r is not None:
                # the request future writes the fallback payload iff the substream was negotiated with the
                # request's own fallback protocol
                neg = next((int(a[3:]) for a in t[3:] if a.startswith("fb=") and a[3:].isdigit()), None)
                ln, fl = r["len"], r["fill"]
                if r["fb"] is not None and neg == r["fb"][0]:
                    ln, fl = r["fb"][1], r["fb"][2]
                want = show(ln, fl) if ln <= cfg["max"] else "nothing"
                if view_ != want:
                    v("request-mismatch", f"the responder of {k} received {view_!r}, the request was {want!r}", i, request=k)
        elif t[0] == "respond" and res == "ok":
            supplied[t[1]] = (int(t[2]), int(t[3]))
        elif t[0] == "close" and res == "ok":
            at, ln, fill = int(t[2].split("=")[1]), int(t[3]), int(t[4])
            if at >= ln + varint_len(ln):
                supplied[t[1]] = (ln, fill)
        elif t[0] == "inbound" and len(t) >= 4:
            k = f"i{ninb}"
            ninb += 1
            inb[k] = {"len": int(t[2]), "fill": int(t[3]),
                      "fb": next((int(a[3:]) for a in t[4:] if a.startswith("fb=") and a[3:].isdigit()), None)}
        elif t[0] in ("answer", "refuse") and res.startswith("ok"):
            # only the first answer to a request the user has seen counts (later ones are ignored by the handle)
            counts = t[1] in inb_seen and t[1] not in answered
            delivered_now = False
            if counts:
                answered.add(t[1])
                outstanding -= 1
                if t[0] == "answer" and ":remote=" in res:
                    rview = res.split(":remote=")[1]
                    frames = rview.split(".")[0].split("~")[0]
                    want = show(int(t[2]), int(t[3]))
                    delivered_now = frames == want
                    if frames not in ("nothing", want):
                        v("answer-mismatch", f"the remote requester of {t[1]} received {frames!r}, the answer was {want!r}", i)
            elif t[0] == "answer" and ":remote=" in res and t[1] in inb_seen:
                # a second answer must not reach the remote
                frames = res.split(":remote=")[1].split(".")[0].split("~")[0]
                if "+" in frames:
                    v("answered-twice", f"the remote requester of {t[1]} received two responses: {frames!r}", i)
            if t[0] == "answer" and "feedback" in t[4:] and ":feedback=" in res:
                fbk = res.split(":feedback=")[1].split(":")[0]
                if (fbk == "sent") != delivered_now:
                    v("feedback", f"the feedback channel of the answer to {t[1]} reports {fbk!r} although the response "
                      f"{'reached' if delivered_now else 'did not reach'} the remote", i)
        for e in events:
            f = e.split(":")
            if f[0] in ("resp", "failed"):
                k = f[1]
                terminals.setdefault(k, []).append((i, e))
                if len(terminals[k]) > 1:
                    v("two-terminals", f"request {k} got a second terminal event {e!r} (first: {terminals[k][0][1]!r})", i,
                      request=k)
                if k not in reqs:
                    v("unknown-request", f"terminal event {e!r} for a request id that was never issued", i)
                if f[0] == "resp":
                    got_fb = int(f[4][2:]) if len(f) > 4 and f[4][2:].isdigit() else None
                    if got_fb != negotiated.get(k):
                        v("fallback-mismatch", f"response of {k} reported with fallback protocol {got_fb}, its substream was "
                          f"negotiated with {negotiated.get(k)}", i, request=k)
                    got = ":".join(f[2:4])
                    if k not in supplied:
                        v("response-unsolicited", f"response {got} delivered for {k} but its responder never wrote a complete response", i,
                          request=k)
                    elif show(*supplied[k]) != got:
                        v("response-mismatch", f"response {got} delivered for {k}, its responder supplied {show(*supplied[k])}", i,
                          request=k)
                if f[0] == "failed" and f[2] == "canceled":
                    v("canceled-event", f"a Canceled failure was reported for {k}", i)
            elif f[0] == "req":
                k = f[1]
                inb_seen[k] = inb_seen.get(k, 0) + 1
                outstanding += 1
                if inb_seen[k] > 1:
                    v("inbound-twice", f"inbound request {k} was handed to the user twice", i)
                if k in inb and ":".join(f[3:5]) != show(inb[k]["len"], inb[k]["fill"]):
                    v("inbound-mismatch", f"inbound request {k} delivered as {':'.join(f[3:5])}, the remote sent "
                      f"{show(inb[k]['len'], inb[k]['fill'])}", i)
                if k not in inb:
                    v("inbound-unknown", f"RequestReceived {e!r} for a substream the remote never opened", i)
                else:
                    got_fb = int(f[5][2:]) if len(f) > 5 and f[5][2:].isdigit() else None
                    if got_fb != inb[k]["fb"]:
                        v("fallback-mismatch", f"inbound request {k} reported with fallback protocol {got_fb}, the remote "
                          f"negotiated {inb[k]['fb']}", i)
        if t[0] == "advance" and len(t) == 2 and res == "ok" and t[1].isdigit():
            # a silent peer: the request future gives up after at most one timeout for the send and one
            # for the response, whatever the far end does
            now += int(t[1])
            for k, at in opened_at.items():
                if k in reqs and k not in cancelled and not terminals.get(k) and now - at >= 2 * cfg["timeout"]:
                    v("no-timeout", f"request {k} got its substream at time {at}, it is now {now} (timeout {cfg['timeout']}) "
                      f"and it has neither a response nor a failure", i, request=k)
        if cfg["inmax"] is not None and outstanding > cfg["inmax"]:
            v("inbound-bound", f"{outstanding} inbound requests wait for the user's answer, limit {cfg['inmax']}", i)
    return bad


def stats(case, out, acc):
    for op, o in zip(case, out):
        t = op.split()
        bump(acc, "op:" + " ".join(t[:2]) if t and t[0] == "ev" else "op:" + (t[0] if t else ""))
        if o.startswith("panic"):
            bump(acc, "panic")
            continue
        res, calls, events = split_obs(o)
        for c in calls:
            bump(acc, "call:" + c.split(":")[0])
        for e in events:
            f = e.split(":")
            bump(acc, "event:" + f[0] + (":" + ":".join(f[2:]) if f[0] == "failed" else ""))
        if t and t[0] in ("send", "sendfb") and len(t) in (5, 6, 8, 9):
            bump(acc, t[0] + ":" + t[4] + (":async" if t[-1] == "async" else ""))
            for e in events:
                f = e.split(":")
                if f[0] == "failed" and f[2] == "dial-failed" and len(f) == 4:
                    bump(acc, "dial-answer:" + f[3])
        if t and t[0] == "mgr":
            bump(acc, "mgr:" + t[-1])
        if t and t[0] == "burst" and res.startswith("burst:"):
            bump(acc, "burst:" + ("clogged" if not res.endswith("clogged=0") else "fits"))
        if t and t[0] == "answer" and ":feedback=" in res:
            bump(acc, "feedback:" + res.split(":feedback=")[1].split(":")[0])
        if t and t[0] == "state" and "dials=" in o and "dials= " not in o:
            bump(acc, "state:parked")
        if t and t[:2] == ["ev", "subopen"] and res.startswith("opened:"):
            bump(acc, "subopen:" + ("noread" if "noread" in t[3:] else "read") +
                 (":fb" if any(a.startswith("fb=") for a in t[3:]) else ""))
        if t and t[0] == "inbound":
            bump(acc, "inbound:" + ("rejected" if res.endswith(".eof") and "remote=nothing" in res else "other"))
    bump(acc, "case-len:%d" % (10 * (len(case) // 10)))


def nontrivial(case, out):
    ev = ";".join(out)
    return "resp:" in ev and "failed:" in ev


def matches_known(k, v):
    return False


# ---------------------------------------------------------------- real nodes through the public API (engine: extra_cases)
# `Litep2p::new` (src/lib.rs) and `ConfigBuilder` (src/config.rs) hand every protocol its configuration; the `node` area
# (checks/node.py) builds real nodes, compares the registration record with the wiring model (Model/Node/Wiring.lean)
# and judges this property's real-time scenarios at node level.
from . import node as _node  # noqa: E402
_node.install(globals())
