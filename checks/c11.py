"""C11 — notification streams follow a strict open/close protocol towards the user.

Model: Model/Notif/Peer.lean (per-peer machine, every handler) + Model/Notif/Sys.lean (composition with the
connection tasks, handshake service, validation answers, transport);  adapter: src/verif/c11.rs (the real
NotificationProtocol + NotificationHandle; the adapter plays transport, remote peer and user)."""
import re
from .common import bump

ID = "C11"
AREA = "c11"
LEAN_PROPS = "Litep2pVerif.Props.C11"
THEOREMS = ["handler_total", "bug_table", "grammar_alternation_partial", "grammar_alternation_witness",
            "no_failure_while_open_partial", "closed_on_disconnect", "notif_only_while_open",
            "no_bug_reachable_partial", "no_bug_next_partial", "no_bug_reachable_witness",
            "open_answered_once_partial", "open_after_late_failure", "open_answered_once_witness",
            "inbound_after_accept_partial", "inbound_after_accept_witness"]
MANIFEST = {
    "text": "Lean 4 theorems about an executable model of the notification per-peer state machine (all states, every "
            "handler in the code's order of checks, debug_assert branches as explicit bug outputs) composed with its "
            "environment (Connection tasks with their two-step close, handshake service, validation answers, transport "
            "obeying the C08 grammar) as a labelled transition system. Proved for every (state, event) pair: handler "
            "totality with the computed bug table. Proved by invariant for every schedule of the restricted system "
            "ReachP (all schedules and environment behaviours minus the known findings, each excluded by one "
            "explicit hypothesis: a Connection task that has entered close_connection finishes before the next event "
            "of that peer; a Connection task that was signalled but not polled yet may stay unpolled over any further "
            "events of that peer - disconnect, reconnect, a new negotiation - but runs before the protocol next "
            "reports opened or an open failure for that peer; a validation "
            "answer is delivered only for the substream under validation): opened/closed alternate and no open failure is reported "
            "while open; closed is reported after a disconnect; no debug_assert fires; request markers and answers "
            "(opened / open failure; the user's own Reject counts as the answer, the code reports nothing then) "
            "alternate strictly on the user channel, an open request for a connected idle peer is always taken up (also "
            "after a SubstreamOpenFailure for the outbound substream of an accepted stream: repaired defect), and "
            "nothing is owed once transport, handshakes, validations and timers are quiet; every opened is preceded in its "
            "negotiation round by the Accept the user gave for exactly its inbound substream, or by auto-accept while the "
            "user's own request is outstanding. The unrestricted statements are false of the code: four witness theorems, "
            "replayed on the real component as known findings (grammar_alternation_witness needs no stalled close, "
            "only a task that is not polled: finding late-closed-report). "
            "Tie: seeded operation histories (2-3 peers, with/without auto-accept, simultaneous opens, rejections, "
            "handshake failures, substream open failures, drops and reconnects, timers, stalled closes, connection tasks "
            "held back by the scheduler across disconnect/reconnect/new negotiation) run on the real "
            "NotificationProtocol/NotificationHandle and on the model, every observation compared incl. internal peer "
            "states; independent user-event-grammar oracle. Composition of tasks: an invariant proof over all schedules is "
            "the right level (the unit tests drive single transitions).",
    "note": "Trusted: Lean kernel; axioms propext/Classical.choice/Quot.sound; the hand-written model and its sampled tie; "
            "tokio mpsc FIFO; the transport obeys C08 (events only for connected peers, one answer per substream request); "
            "futures_timer delays replaced by explicit timer events. Handshake I/O progress is abstracted to its events.",
    "technique": "Lean 4 proof (invariants of a labelled transition system) + model/implementation correspondence check",
    "design_ref": "DESIGN.md §7 C11, §8-j, §8-q; notes/selftest-C11.md (late-closed-report)",
}
RULE = ("seeded histories of transport events (conn/disc/dialfail/subout/subfail/subin), remote actions on in-memory "
        "substreams (handshake, close, reset, read, notification, stalled close), user commands (open/close/accept/"
        "reject/send/events), scheduling commands (hold/unhold the Connection tasks of a peer) and timer expiries over 2-3 peers run on the real NotificationProtocol+Handle and on the "
        "Lean model; a case is non-trivial if at least one stream was opened or one open failure was reported; "
        "distinct = distinct (ops, observations) transcripts by SHA-256")
TRUSTED_BASE = ["Lean 4.33 kernel", "axioms: propext, Classical.choice, Quot.sound only",
                "hand-written models Model/Notif/{Peer,Sys}.lean tied to notification/{mod,negotiation,connection,handle}.rs "
                "by this correspondence run (observations include the internal per-peer states)",
                "adapter /repo/src/verif/c11.rs + verif/io.rs (in-memory substreams), harness, verif.py, checks/c11.py",
                "tokio mpsc channels are FIFO; biased select order mirrored by the driver's scheduler",
                "futures_timer::Delay replaced by explicit timer events (any time: over-approximation)",
                "transport events obey the C08 grammar (proved separately for TransportService)"]
ASSUMPTIONS = ["the transport answers each substream request at most once and only while the peer is connected (C08)",
               "partial theorems: a Connection task that has entered close_connection finishes (notice + closed report) "
               "before the protocol handles the next event for that peer (false only if Substream::close() stays pending)",
               "partial theorems: a Connection task whose shutdown oneshot fired but which has not been polled since is "
               "polled before the protocol next reports opened / open failure for that peer (any other events of that "
               "peer may be handled first; false only under an executor that starves the task for a whole negotiation)",
               "a poll of a Connection task and a handler of the protocol loop do not overlap in time (interleaving at "
               "poll granularity; the task looks at its shutdown oneshot first in every poll)",
               "partial theorems: the user answers a ValidateSubstream event before the protocol abandons that inbound "
               "substream (validation answers are keyed by peer, not by substream)",
               "open_answered_once counts the user's own Reject of the peer's inbound substream as the answer to the "
               "user's outstanding open request (the code reports nothing in that case)",
               "every spawned future is eventually polled; Substream::close() eventually completes"]
KEEP_PREFIX = 1

PEERS = [1, 2, 3]
ERR = {"rejected", "noconn", "clogged", "valpending", "dialfail", "taskclosed"}


# ------------------------------------------------------------------ generator

def frag_out(p):
    return [f"open {p}", f"subout {p}", f"hs {p} out", f"subin {p}", f"hs {p} in", "events", f"accept {p}", "events"]


def frag_in(p):
    return [f"subin {p}", f"hs {p} in", "events", f"accept {p}", f"subout {p}", f"hs {p} out", "events"]


def frag_simul(p):
    return [f"open {p}", f"subin {p}", f"subout {p}", f"hs {p} in", f"hs {p} out", "events", f"accept {p}", "events"]


def frag_dial(p):
    return [f"known {p}", f"open {p}", f"conn {p}", f"subout {p}", f"hs {p} out", f"subin {p}", f"hs {p} in",
            "events", f"accept {p}", "events"]


def frag_use(p):
    return [f"send {p} 0{p}", f"rread {p} out", f"rsend {p} in 1{p}", "events"]


def frag_end(p, rng):
    return rng.choice([[f"close {p}", "events"], [f"rclose {p} in", "events"], [f"rreset {p} out", "events"],
                       [f"disc {p}", "events", f"conn {p}"], [f"rclose {p} out", f"send {p} 33", "events"]])


def frag_held(p, rng):
    """Scheduling: the Connection task of an open stream is not polled (`hold`) while the connection is lost (or the
    stream is closed by the user / the peer) and a new negotiation for the same peer starts; then it runs (`unhold`).
    No `Substream::close()` is stalled anywhere. The new negotiation is completed only after the old task has run
    (otherwise the old task's NotificationStreamClosed comes late: finding late-closed-report, see frag_held_late)."""
    opener = rng.choice([frag_out, frag_in, frag_simul])(p)
    use = frag_use(p) if rng.random() < 0.3 else []
    end = rng.choice([[f"disc {p}", f"conn {p}"], [f"disc {p}", f"conn {p}"], [f"disc {p}", "events", f"conn {p}"],
                      [f"close {p}"], [f"rclose {p} in"], [f"rreset {p} out"], [f"rclose {p} in", f"disc {p}", f"conn {p}"]])
    start = rng.choice([[f"subin {p}"], [f"subin {p}", f"hs {p} in"], [f"subin {p}", f"hs {p} in", "events"],
                        [f"open {p}"], [f"open {p}", f"subin {p}"], [f"open {p}", f"subout {p}"], []])
    rest = rng.choice([[f"hs {p} in", "events", f"accept {p}", f"subout {p}", f"hs {p} out", "events"],
                       [f"hs {p} in", "events", f"accept {p}", "events", f"subfail {p}", "events"],
                       [f"hs {p} in", "events", f"reject {p}", "events"],
                       ["events", f"open {p}", f"subout {p}", f"hs {p} out", f"subin {p}", f"hs {p} in", "events",
                        f"accept {p}", "events"]])
    return opener + use + [f"hold {p}"] + end + start + [f"unhold {p}"] + rest + ["state"]


def frag_held_late(p, rng):
    """The old task stays unpolled until the new stream has been reported (finding late-closed-report)."""
    return (frag_in(p) + [f"hold {p}", rng.choice([f"disc {p}", f"close {p}"])] + ([f"conn {p}"] if rng.random() < 0.9 else [])
            + frag_in(p) + [f"unhold {p}", "events", "state"])


def noise(rng, peers, stall):
    p = rng.choice(peers)
    role = rng.choice(["in", "out"])
    age = rng.choice(["", "", "", " age=1"])
    r = rng.random()
    table = [
        (0.06, f"conn {p}"), (0.05, f"disc {p}"), (0.02, f"dialfail {p}"), (0.02, f"known {p}"),
        (0.10, f"open {p}"), (0.05, f"close {p}"), (0.08, f"accept {p}"), (0.04, f"reject {p}"),
        (0.12, "events"), (0.05, "state"), (0.04, f"timer {p}"),
        (0.07, f"subout {p}"), (0.04, f"subfail {p}"), (0.07, f"subin {p}"),
        (0.07, f"hs {p} {role}{age}"), (0.03, f"rclose {p} {role}{age}"), (0.03, f"rreset {p} {role}{age}"),
        (0.02, f"rread {p} {role}{age}"), (0.02, f"send {p} 0{p}"), (0.02, f"rsend {p} in{age} 2{p}"),
    ]
    if stall:
        table += [(0.03, f"stall {p} {role}{age}"), (0.02, f"release {p} {role}{age}")]
    table += [(0.025, f"hold {p}"), (0.03, f"unhold {p}")]
    tot = sum(w for w, _ in table)
    x = r * tot
    for w, op in table:
        x -= w
        if x <= 0:
            return op
    return "events"


def merge(rng, seqs):
    seqs = [list(s) for s in seqs if s]
    out = []
    while seqs:
        s = rng.choice(seqs)
        out.append(s.pop(0))
        if not s:
            seqs.remove(s)
    return out


def gen_case(rng, tier):
    peers = PEERS[:rng.choice([2, 2, 3])]
    auto = rng.choice([0, 1])
    dial = rng.choice([1, 1, 0])
    stall = rng.random() < 0.08
    ops = [f"cfg auto={auto} dial={dial}"]
    style = rng.random()
    body = []
    if style < 0.75:
        per_peer = []
        for p in peers:
            seq = []
            if rng.random() < 0.8:
                seq.append(f"conn {p}" + rng.choice(["", "", "", " cap=1 drain=0"]))
            for _ in range(rng.choice([1, 1, 2, 3])):
                r = rng.random()
                if r < 0.12:
                    seq += frag_held(p, rng)
                    continue
                if r < 0.14:
                    seq += frag_held_late(p, rng)
                    continue
                f = rng.choice([frag_out, frag_in, frag_simul, frag_dial])(p)
                if rng.random() < 0.6:
                    f = f + frag_use(p)
                if rng.random() < 0.7:
                    f = f + frag_end(p, rng)
                seq += f
            # perturb: delete / duplicate / insert noise
            for _ in range(rng.choice([0, 1, 2, 4])):
                if not seq:
                    break
                i = rng.randrange(len(seq))
                r = rng.random()
                if r < 0.4:
                    del seq[i]
                elif r < 0.6:
                    seq.insert(i, seq[i])
                else:
                    seq.insert(i, noise(rng, [p], stall))
            per_peer.append(seq)
        body = merge(rng, per_peer)
    else:
        body = [noise(rng, peers, stall) for _ in range(rng.choice([8, 15, 30, 50]))]
    if rng.random() < 0.03:
        body.insert(rng.randrange(len(body) + 1), rng.choice(["frobnicate 1", "hs x in", "open", "conn -1", "hs 1 sideways"]))
    ops += body
    if rng.random() < 0.75:
        ops += ["events"]
        for p in peers:
            ops += [f"release {p} in", f"release {p} out", f"release {p} in age=1", f"release {p} out age=1"] if stall else []
            ops += [f"unhold {p}", f"disc {p}"]
        ops += ["events", "state"]
    return ops


def witness_cases():
    """Deterministic cases: the known findings and a few hand-written dialogues."""
    stale_notice = ["cfg auto=0 dial=1", "conn 1", "subin 1", "hs 1 in", "events", "accept 1", "subout 1", "hs 1 out",
                    "events", "stall 1 in", "rclose 1 in", "close 1", "subin 1", "release 1 in age=1", "events",
                    "hs 1 in", "events"]
    late_closed = ["cfg auto=0 dial=1", "conn 1", "subin 1", "hs 1 in", "events", "accept 1", "subout 1", "hs 1 out",
                   "events", "stall 1 in", "close 1", "events", "subin 1", "hs 1 in", "events", "accept 1", "subout 1",
                   "hs 1 out", "events", "release 1 in age=1", "events", "state"]
    dangling = ["cfg auto=0 dial=1", "conn 1", "subin 1", "hs 1 in", "events", "accept 1", "events", "subfail 1", "events", "state",
                "open 1", "state", "events", "disc 1", "events"]
    stale_accept = ["cfg auto=0 dial=1", "conn 1", "open 1", "subin 1", "subout 1", "hs 1 in", "events", "rreset 1 out",
                    "subin 1", "hs 1 in", "accept 1", "subout 1", "hs 1 out", "events", "reject 1", "events", "disc 1",
                    "events"]
    plain = ["cfg auto=1 dial=1", "conn 1", "conn 2", "open 1", "open 2", "subin 1", "subout 1", "subout 2", "hs 1 in",
             "hs 1 out", "rread 1 in", "rread 1 out", "events", "state", "hs 2 out", "subin 2", "hs 2 in", "events",
             "send 2 0102", "rread 2 out", "rsend 2 in 0a0b", "events", "disc 2", "events", "state", "timer 1", "close 1",
             "events", "disc 1", "events", "state"]
    # open_answered_once_witness: the old task's late notice resets the state of a newly accepted stream, whose
    # answer (opened / open failure) never comes
    stale_request = ["cfg auto=0 dial=1", "conn 1", "subin 1", "hs 1 in", "events", "accept 1", "subout 1", "hs 1 out",
                     "events", "stall 1 in", "rclose 1 in", "close 1", "subin 1", "hs 1 in", "events", "accept 1", "state",
                     "release 1 in age=1", "events", "state", "disc 1", "events", "state"]
    # scheduling only, nothing stalled: the task of the old stream is not polled across a disconnect, a reconnect and
    # the start of the next negotiation, then runs: harmless on the real code (shutdown.send(()) => quiet close)
    held_ok = ["cfg auto=0 dial=1", "conn 1"] + frag_in(1) + ["hold 1", "disc 1", "conn 1", "subin 1", "hs 1 in", "events",
               "state", "unhold 1", "events", "state", "accept 1", "subout 1", "hs 1 out", "events", "send 1 07",
               "rread 1 out", "disc 1", "events", "state"]
    held_ok2 = ["cfg auto=1 dial=1", "conn 1"] + frag_out(1) + ["hold 1", "rclose 1 in", "disc 1", "conn 1", "open 1",
                "subin 1", "unhold 1", "events", "open 1", "subout 1", "hs 1 in", "hs 1 out", "events", "state", "disc 1",
                "events", "state"]
    # late-closed-report: the old task is not polled until the next stream has been negotiated and reported
    held_late = ["cfg auto=0 dial=1", "conn 1"] + frag_in(1) + ["hold 1", "disc 1", "conn 1"] + frag_in(1) + \
                ["unhold 1", "events", "state", "send 1 05", "events", "disc 1", "events", "state"]
    return [stale_notice, late_closed, dangling, stale_accept, plain, stale_request, held_ok, held_ok2, held_late]


def corpus():
    return witness_cases()


def gen_cases(rng, tier):
    n = {"quick": 1500, "thorough": 40000, "search": 6000}[tier]
    for _ in range(n):
        yield gen_case(rng, tier)


def mutate_case(rng, case, n):
    for _ in range(n):
        c = list(case)
        for _ in range(rng.randrange(1, 4)):
            if len(c) < 2:
                break
            i = rng.randrange(1, len(c))
            r = rng.random()
            if r < 0.4:
                del c[i]
            elif r < 0.7:
                c.insert(i, rng.choice(case[1:]))
            else:
                c.insert(i, noise(rng, PEERS, False))
        if rng.random() < 0.5:
            # scheduling mutation: hold the tasks of a peer over a stretch of the case
            p = rng.choice(PEERS)
            i = rng.randrange(1, len(c) + 1)
            j = rng.randrange(i, min(len(c), i + 8) + 1)
            c.insert(j, f"unhold {p}")
            c.insert(i, f"hold {p}")
        yield c


# ------------------------------------------------------------------ oracle

EV = re.compile(r"(validate|opened|closed|fail|notif)\((\d+)(?:,([^)]*))?\)")
CALL = re.compile(r"\b(open|fc)\((\d+)(?:,s(\d+))?\)")
STALLED = re.compile(r"\bstalled\((\d+)\)")


def parse_events(o):
    m = re.match(r"\[(.*?)\]", o)
    if not m:
        return []
    res = []
    for tok in m.group(1).split():
        e = EV.fullmatch(tok)
        if e:
            res.append((e.group(1), int(e.group(2)), e.group(3) or ""))
    return res


def oracle(case, out):
    """The property as written in properties.jsonl, evaluated on the user-visible observations only."""
    bad = []
    auto = 0
    connected, taint, dangling = set(), set(), set()
    view_open = {}          # user's view: stream open?
    answers_due = {}        # peer -> number of unanswered requests (open commands accepted by the handle + accepts)
    pipes_req_by_accept = {}    # peer -> the outstanding transport request stems from an accept / has seen a subin
    last_validate_step = {}     # peer -> op index at which the latest validate(p) of the current round was drained
    accept_steps = {}           # peer -> op indices of accept ops
    open_ok_steps = {}          # peer -> op indices of `open p` answered ok, since the last round boundary
    qualifying = {}             # peer -> (step) of a qualifying open request not yet answered
    quiet = {}                  # peer -> no negotiation can be in progress (user's knowledge)
    pending_req_kind = {}       # peer -> 'accept' | 'open+subin' | 'open' for the outstanding transport request
    subin_since_events = set()
    all_accepts = {}
    last_terminal = {}
    boundary_step = {}
    round_answer = {}
    nodrain = set()
    held = set()                # peers whose connection task(s) are currently not being polled (`hold`)
    held_since_opened = set()   # a hold was placed on the peer's task since its stream was reported opened
    hold_step = {}              # peer -> op index of the latest effective `hold`
    unhold_step = {}            # peer -> op index of the `unhold` that ended the latest hold
    prev_events = -1            # op index of the previous `events` op
    late = set()                # the protocol reported opened / open failure for the peer while an old task was held:
                                # its NotificationStreamClosed is late (finding late-closed-report)

    def v(kind, msg, i, **kw):
        d = {"kind": kind, "msg": msg, "step": i, "op": case[i] if i < len(case) else None,
             "out": out[i] if i < len(out) else None, "stale_conn_task": False, "dangling_pending_open": False,
             "stale_accept": False}
        vp = kw.pop("peer", None)
        d["stale_conn_task"] = vp in taint
        d["held_late"] = vp in late
        d.update(kw)
        bad.append(d)

    # does the case end with the draining suffix (events; disc all; events)?
    final_suffix = len(case) >= 3 and case[-1] == "state" and case[-2] == "events" and case[-3].startswith("disc ")

    n = min(len(case), len(out))

    def check_qualifying(p, upto):
        # open_answered_once, quiescence part, in the one situation that is decidable from the outside: the request
        # was sent for a connected peer with nothing in progress and nothing owed by the transport, it started no
        # transport call, and no answer arrived while the connection lasted (an `events` op must follow to know).
        i, has_call = qualifying.pop(p)
        if has_call:
            return
        drains = [j for j in range(i, upto) if case[j] == "events"]
        answered = any(e[1] == p and e[0] in ("opened", "fail") for j in drains for e in parse_events(out[j]))
        if drains and not answered:
            v("open-unanswered", f"open request for connected idle peer {p} at step {i} started nothing and was "
              f"not answered while the connection lasted", i, dangling_pending_open=(p in dangling),
              peer=p)

    def overtakes_held(p):
        # an event drained now was put on the user channel after the previous drain; it overtakes the
        # NotificationStreamClosed of the old stream of `p` because of the scheduler iff the old stream's task was
        # being held back at some moment since then
        return p in held or (p in held_since_opened and unhold_step.get(p, -1) > prev_events)

    for i in range(n):
        op, o = case[i], out[i]
        t = op.split()
        late_closed_now = set()
        if not t:
            continue
        peer = int(t[1]) if len(t) > 1 and t[1].isdigit() else None
        if o.startswith("panic"):
            v("panic", f"protocol panicked in `{op}`: {o}", i, peer=peer)
            break
        if o == "skipped":
            break
        if o in ("bad-op", "ignored"):
            continue
        if t[0] == "cfg":
            auto = 1 if "auto=1" in op else 0
            continue
        if peer is not None and t[0] in ("subin", "open", "accept", "conn"):
            # ops that can start a negotiation round; an event drained later may predate them
            subin_since_events.add(peer)
            last_terminal[peer] = False
        for m in STALLED.finditer(o):
            # a `Substream::close()` of a connection task of that peer is suspended (explicitly stalled close)
            taint.add(int(m.group(1)))
        if t[0] == "hold":
            m = re.search(r"held=(\d+)", o)
            if m and int(m.group(1)) > 0:
                held.add(peer)
                held_since_opened.add(peer)
                hold_step[peer] = i
        if t[0] == "unhold":
            if peer in held:
                unhold_step[peer] = i
            held.discard(peer)
        if t[0] == "conn":
            connected.add(peer)
            (nodrain.add if "drain=0" in op else nodrain.discard)(peer)
            quiet[peer] = True
        if t[0] == "disc":
            if peer in qualifying:
                check_qualifying(peer, i)
            connected.discard(peer)
            quiet[peer] = False
            pending_req_kind.pop(peer, None)
        if t[0] == "subin":
            quiet[peer] = False
            subin_since_events.add(peer)
            if pending_req_kind.get(peer) == "open":
                pending_req_kind[peer] = "open+subin"
        if t[0] in ("hs", "rclose", "rreset", "rsend", "timer", "dialfail"):
            pass
        if t[0] == "accept":
            accept_steps.setdefault(peer, []).append(i)
            all_accepts.setdefault(peer, []).append(i)
        for m in CALL.finditer(o):
            if m.group(1) == "open":
                cp = int(m.group(2))
                pending_req_kind[cp] = "accept" if t[0] == "accept" else "open"
                quiet[cp] = False
        if t[0] == "subfail":
            if pending_req_kind.get(peer) in ("accept", "open+subin"):
                dangling.add(peer)
            pending_req_kind.pop(peer, None)
        if t[0] == "subout":
            pending_req_kind.pop(peer, None)
        if t[0] == "open" and o.split()[0] == "ok":
            open_ok_steps.setdefault(peer, []).append(i)
            if (peer in connected and quiet.get(peer) and not view_open.get(peer) and peer not in qualifying
                    and peer not in pending_req_kind):
                # connected, nothing in progress as far as anybody can know: the request must be answered
                has_call = CALL.search(o) is not None or peer in nodrain
                qualifying[peer] = (i, has_call)
            quiet[peer] = False
        # ---- user events
        for kind, p, extra in parse_events(o) if t[0] == "events" else []:
            if kind == "validate":
                last_validate_step[p] = i
                round_answer[p] = None
            elif kind == "opened":
                if view_open.get(p) and overtakes_held(p):
                    late.add(p)
                if view_open.get(p):
                    v("opened-twice", f"stream to peer {p} reported opened while already open", i,
                      peer=p)
                view_open[p] = True
                # inbound_after_accept
                lv = last_validate_step.get(p)
                if lv is not None:
                    if round_answer.get(p) != "accept":
                        v("opened-without-accept", f"stream to peer {p} opened although the user never accepted the "
                          f"inbound substream announced at step {lv}", i,
                          stale_accept=any(a <= lv for a in all_accepts.get(p, [])), peer=p)
                else:
                    if not (auto == 1 and any(j > boundary_step.get(p, -1) for j in open_ok_steps.get(p, []))):
                        v("opened-without-accept", f"stream to peer {p} opened without validation and auto-accept "
                          f"does not apply", i, peer=p)
                last_validate_step.pop(p, None)
                accept_steps[p] = []
                qualifying.pop(p, None)
                if p not in held and hold_step.get(p, -1) <= prev_events:
                    # this stream was reported after the hold had been placed: its task is not a held one
                    held_since_opened.discard(p)
            elif kind == "closed":
                if not view_open.get(p):
                    v("closed-without-opened", f"stream to peer {p} reported closed but it was not open", i,
                      peer=p)
                view_open[p] = False
                if p in held_since_opened:
                    # the task of the old stream was held back for a while: its report may come after the next
                    # negotiation round has started (that round's bookkeeping stays; nothing is known to be quiet)
                    late_closed_now.add(p)
                    quiet[p] = False
                    if p not in held:
                        held_since_opened.discard(p)
                else:
                    last_validate_step.pop(p, None)
                    accept_steps[p] = []
                    quiet[p] = p in connected and p not in subin_since_events
            elif kind == "fail":
                if view_open.get(p) and overtakes_held(p):
                    late.add(p)
                if view_open.get(p):
                    v("failure-while-open", f"open failure for peer {p} while its stream is open", i,
                      peer=p)
                last_validate_step.pop(p, None)
                accept_steps[p] = []
                qualifying.pop(p, None)
                quiet[p] = (p in connected) and extra != "valpending" and p not in subin_since_events
            elif kind == "notif":
                if not view_open.get(p):
                    v("notification-while-closed", f"notification from peer {p} delivered outside an open period", i,
                      peer=p)
        if t[0] == "events":
            for kind, p, extra in parse_events(o):
                if kind == "closed" and p in late_closed_now:
                    last_terminal[p] = False
                elif kind == "closed" or (kind == "fail" and extra != "valpending"):
                    last_terminal[p] = p not in subin_since_events
                elif kind in ("opened", "validate", "fail"):
                    last_terminal[p] = False
            for p in connected:
                if last_terminal.get(p) and p not in subin_since_events and not view_open.get(p):
                    quiet[p] = True
            subin_since_events.clear()
            for kind, p, extra in parse_events(o):
                if kind in ("opened", "closed"):
                    # the event was put on the channel some time after the previous drain: an open request accepted
                    # by the handle since then may belong to the next round already
                    boundary_step[p] = prev_events
            prev_events = i
        if t[0] in ("accept", "reject"):
            quiet[peer] = False
        if t[0] in ("accept", "reject") and peer in last_validate_step and round_answer.get(peer) is None:
            # the handle keeps one pending validation per peer: the first answer after the drain counts
            round_answer[peer] = t[0]
            if t[0] == "reject":
                last_validate_step.pop(peer, None)      # the round ends silently
        # closed_on_disconnect: checked at the end (after the draining suffix)
    complete = n == len(case) and not any(x.startswith("panic") or x == "skipped" for x in out[:n])
    if complete and final_suffix:
        last = len(case) - 1
        for p, is_open in view_open.items():
            # only for peers that really are disconnected at the end (a shrunk case may end with a `disc` of
            # some other, unconnected peer)
            if is_open and p not in connected and p not in held:
                v("not-closed-on-disconnect", f"connection to peer {p} lost but its open stream was never reported "
                  f"closed", last, peer=p)
    if complete:
        for p in list(qualifying):
            check_qualifying(p, n)
    return bad


def stats(case, out, acc):
    for op, o in zip(case, out):
        t = op.split()[0] if op.split() else "?"
        bump(acc, "op:" + t)
        if o.startswith("panic"):
            bump(acc, "panic")
        if o == "ignored":
            bump(acc, "ignored")
        if t == "events":
            for kind, p, extra in parse_events(o):
                bump(acc, "ev:" + kind + (":" + extra if kind == "fail" else ""))
        if t == "state":
            for m in re.finditer(r"\d+:([a-z]+)", o):
                bump(acc, "st:" + m.group(1))
    bump(acc, "case-len:%d" % (10 * (len(case) // 10)))
    bump(acc, case[0])


def nontrivial(case, out):
    return any(("opened(" in o or "fail(" in o) for o in out)


def matches_known(k, v):
    sig = k.get("signature", {})
    if sig.get("stale_conn_task"):
        # only with an explicitly stalled close in the history (`stall ...` that really suspended a close():
        # the adapter then prints `stalled(p)`); a stale notice / late report without one is NOT this finding
        return bool(v.get("stale_conn_task"))
    if sig.get("held_late"):
        return bool(v.get("held_late")) and not v.get("stale_conn_task")
    if sig.get("dangling_pending_open"):
        return v.get("kind") == "open-unanswered" and bool(v.get("dangling_pending_open")) and not v.get("stale_conn_task")
    if sig.get("stale_accept"):
        return v.get("kind") == "opened-without-accept" and bool(v.get("stale_accept")) and not v.get("stale_conn_task")
    return False


# ---------------------------------------------------------------- real nodes through the public API (engine: extra_cases)
# `Litep2p::new` (src/lib.rs) and `ConfigBuilder` (src/config.rs) hand every protocol its configuration; the `node` area
# (checks/node.py) builds real nodes, compares the registration record with the wiring model (Model/Node/Wiring.lean)
# and judges this property's real-time scenarios at node level.
from . import node as _node  # noqa: E402
_node.install(globals())
