"""C11 — notification streams follow a strict open/close protocol towards the user.

Model: Model/Notif/Peer.lean (per-peer machine, every handler) + Model/Notif/Sys.lean (composition with the
connection tasks, handshake service, validation answers, transport);  adapter: src/verif/c11.rs (the real
NotificationProtocol + NotificationHandle; the adapter plays transport, remote peer and user)."""
import re
from .common import bump

ID = "C11"
AREA = "c11"
LEAN_PROPS = "Litep2pVerif.Props.C11"
THEOREMS = ["handler_total", "bug_table", "grammar_alternation_partial", "grammar_alternation_witness",
            "no_failure_while_open_partial", "closed_on_disconnect", "notif_only_while_open",
            "no_bug_reachable_partial", "no_bug_next_partial", "no_bug_reachable_witness",
            "open_answered_once_partial", "open_after_late_failure", "open_answered_once_witness",
            "inbound_after_accept_partial", "inbound_after_accept_witness",
            "batch_open_answers_each", "batch_open_answered_once", "batch_results",
            "handshake_bounded", "handshake_exact", "handshake_poll_order", "handshake_stale_result_witness"]
MANIFEST = {
    "text": "Lean 4 theorems about an executable model of the notification per-peer state machine (all states, every "
            "handler in the code's order of checks, debug_assert branches as explicit bug outputs) composed with its "
            "environment (Connection tasks with their two-step close, handshake service, validation answers, transport "
            "obeying the C08 grammar) as a labelled transition system. Proved for every (state, event) pair: handler "
            "totality with the computed bug table. Proved by invariant for every schedule of the restricted system "
            "ReachP (all schedules and environment behaviours minus the known findings, each excluded by one "
            "explicit hypothesis: a Connection task that has entered close_connection finishes before the next event "
            "of that peer; a Connection task that was signalled but not polled yet may stay unpolled over any further "
            "events of that peer - disconnect, reconnect, a new negotiation - but runs before the protocol next "
            "reports opened or an open failure for that peer; a validation "
            "answer is delivered only for the substream under validation): opened/closed alternate and no open failure is reported "
            "while open; closed is reported after a disconnect; no debug_assert fires; request markers and answers "
            "(opened / open failure; the user's own Reject counts as the answer, the code reports nothing then) "
            "alternate strictly on the user channel, an open request for a connected idle peer is always taken up (also "
            "after a SubstreamOpenFailure for the outbound substream of an accepted stream: repaired defect), and "
            "nothing is owed once transport, handshakes, validations and timers are quiet; every opened is preceded in its "
            "negotiation round by the Accept the user gave for exactly its inbound substream, or by auto-accept while the "
            "user's own request is outstanding. The unrestricted statements are false of the code: four witness theorems, "
            "replayed on the real component as known findings (grammar_alternation_witness needs no stalled close, "
            "only a task that is not polled: finding late-closed-report). "
            "Coverage round: the handle's batch commands (Model/Notif/Handle.lean: one command for a set of peers, the "
            "protocol walks the set in ANY order) - every peer of a batch makes exactly the step of a single open request, "
            "peers with a stream are reported/ignored, the others are untouched (batch_open_answers_each, "
            "batch_open_answered_once, batch_results); the handshake service (Model/Notif/Handshake.lean: entries with their "
            "four states, timer first, pop_event first, any hash-map order) - a handshake above the configured maximum is "
            "refused when read and when sent, never truncated, whatever is handed to the protocol is within the limit and is "
            "exactly the first unread frame of that entry's substream (handshake_bounded, handshake_exact, "
            "handshake_poll_order); handshake_stale_result_witness = the defect repaired in this round (a queued result "
            "survived the removal of its substream and was attributed to the peer's next substream). "
            "Tie: seeded operation histories (2-3 peers, with/without auto-accept, simultaneous opens, rejections, "
            "handshake failures, substream open failures, drops and reconnects, timers, stalled closes, connection tasks "
            "held back by the scheduler across disconnect/reconnect/new negotiation) run on the real "
            "NotificationProtocol/NotificationHandle and on the model, every observation compared incl. internal peer "
            "states; also: open/close batches (set order taken from the implementation, any permutation accepted), sink "
            "clones used after close/reopen, handle async send, set_handshake, handshakes at/above the limit in both "
            "directions, handshake timers, full command channels (handle->protocol, protocol->connection), the protocol "
            "loop held back so that its inputs pile up, handle dropped => run() returns; independent user-event-grammar oracle "
            "(plus: one answer per peer of a batch, no send accepted through a sink taken before a NotificationStreamClosed "
            "the user has seen, no handshake/notification above the limit, a substream's first frame is never delivered as "
            "a notification). Composition of tasks: an invariant proof over all schedules is "
            "the right level (the unit tests drive single transitions).",
    "note": "Trusted: Lean kernel; axioms propext/Classical.choice/Quot.sound; the hand-written model and its sampled tie; "
            "tokio mpsc FIFO; the transport obeys C08 (events only for connected peers, one answer per substream request); "
            "futures_timer delays replaced by explicit timer events. Handshake I/O progress is abstracted to its events.",
    "technique": "Lean 4 proof (invariants of a labelled transition system) + model/implementation correspondence check",
    "design_ref": "DESIGN.md §7 C11, §8-j, §8-q; notes/selftest-C11.md (late-closed-report)",
}
RULE = ("(coverage round: + openb/tryopenb/closeb/tryclosb, sink/ssend/sasend/sdrop/asend, seths, hstimeout, cfill/cdrain, "
        "cmdhold/cmdfill/cmdrelease, phold/prelease, shutdown) "
        "seeded histories of transport events (conn/disc/dialfail/subout/subfail/subin), remote actions on in-memory "
        "substreams (handshake, close, reset, read, notification, stalled close), user commands (open/close/accept/"
        "reject/send/events), scheduling commands (hold/unhold the Connection tasks of a peer) and timer expiries over 2-3 peers run on the real NotificationProtocol+Handle and on the "
        "Lean model; a case is non-trivial if at least one stream was opened or one open failure was reported; "
        "distinct = distinct (ops, observations) transcripts by SHA-256")
TRUSTED_BASE = ["Lean 4.33 kernel", "axioms: propext, Classical.choice, Quot.sound only",
                "hand-written models Model/Notif/{Peer,Sys}.lean tied to notification/{mod,negotiation,connection,handle}.rs "
                "by this correspondence run (observations include the internal per-peer states)",
                "adapter /repo/src/verif/c11.rs + verif/io.rs (in-memory substreams), harness, verif.py, checks/c11.py",
                "tokio mpsc channels are FIFO; biased select order mirrored by the driver's scheduler",
                "futures_timer::Delay replaced by explicit timer events (any time: over-approximation)",
                "transport events obey the C08 grammar (proved separately for TransportService)",
                "Model/Notif/{Handle,Handshake}.lean tied by the same run (the driver computes the batch results with "
                "NotifHandle.* and polls the handshake service with NotifHs.poll on the entries loaded from its pipes)",
                "hook HandshakeService::verif_timer (cfg litep2p_verif): lets one entry's futures_timer::Delay expire",
                "events of DIFFERENT peers drained by one `events` are compared per peer (HashMap iteration order of one "
                "handshake poll); the iteration order of an OpenSubstream peer set is read from the implementation"]
ASSUMPTIONS = ["the transport answers each substream request at most once and only while the peer is connected (C08)",
               "partial theorems: a Connection task that has entered close_connection finishes (notice + closed report) "
               "before the protocol handles the next event for that peer (false only if Substream::close() stays pending)",
               "partial theorems: a Connection task whose shutdown oneshot fired but which has not been polled since is "
               "polled before the protocol next reports opened / open failure for that peer (any other events of that "
               "peer may be handled first; false only under an executor that starves the task for a whole negotiation)",
               "a poll of a Connection task and a handler of the protocol loop do not overlap in time (interleaving at "
               "poll granularity; the task looks at its shutdown oneshot first in every poll)",
               "partial theorems: the user answers a ValidateSubstream event before the protocol abandons that inbound "
               "substream (validation answers are keyed by peer, not by substream)",
               "open_answered_once counts the user's own Reject of the peer's inbound substream as the answer to the "
               "user's outstanding open request (the code reports nothing in that case)",
               "every spawned future is eventually polled; Substream::close() eventually completes",
               "adapter restrictions (schedules not explored): while a peer's connection task is held the user does not "
               "mix sync and async sends towards it (select! order; C12's subject); a connection established while the "
               "protocol loop is held is not closed before the loop has seen it; while the protocol loop is held the remote "
               "side of only one peer acts on its substreams (which of several handshake entries with news is reported "
               "first is decided by the service's hash-map order)",
               "batch theorems: the per-peer worlds do not interact (all maps are keyed by peer or by a fresh substream id)"]
KEEP_PREFIX = 1
CONST_TABLE = [
    ("DEFAULT_CHANNEL_SIZE", "src/lib.rs", r"const DEFAULT_CHANNEL_SIZE: usize = ([^;]+);", 4096),
]

PEERS = [1, 2, 3]
ERR = {"rejected", "noconn", "clogged", "valpending", "dialfail", "taskclosed"}


# ------------------------------------------------------------------ checker mode / comparison

def model_lines(case, impl):
    """Checker mode for ONE choice of the implementation: the iteration order of the peer set of a multi-peer
    OpenSubstream command (a HashSet). The adapter prints it (`order=…`) with the operation during which the command
    is handed to the protocol; the model driver follows any permutation of the set (and prints it back)."""
    if impl is None:
        return case
    res = []
    for i, op in enumerate(case):
        o = impl[i] if i < len(impl) else ""
        orders = [t for t in o.split() if t.startswith("order=")]
        res.append(op + (" -> " + " ".join(orders) if orders else ""))
    return res


def normalize(line):
    """Comparison of one observation line. Events of DIFFERENT peers have no defined order on the user channel when
    they stem from one poll of the handshake service (it walks a HashMap): the tokens of an `events` answer are
    compared per peer (stable sort by peer; the order of each peer's own events is compared exactly)."""
    if line.startswith("panic"):
        return "panic"
    m = re.match(r"\[(.*?)\](.*)$", line)
    if m and EV.search(m.group(1)):
        toks = m.group(1).split()

        def key(t):
            e = EV.fullmatch(t)
            return int(e.group(2)) if e else -1
        return "[" + " ".join(sorted(toks, key=key)) + "]" + m.group(2)
    return line


# ------------------------------------------------------------------ generator

def frag_out(p):
    return [f"open {p}", f"subout {p}", f"hs {p} out", f"subin {p}", f"hs {p} in", "events", f"accept {p}", "events"]


def frag_in(p):
    return [f"subin {p}", f"hs {p} in", "events", f"accept {p}", f"subout {p}", f"hs {p} out", "events"]


def frag_simul(p):
    return [f"open {p}", f"subin {p}", f"subout {p}", f"hs {p} in", f"hs {p} out", "events", f"accept {p}", "events"]


def frag_dial(p):
    return [f"known {p}", f"open {p}", f"conn {p}", f"subout {p}", f"hs {p} out", f"subin {p}", f"hs {p} in",
            "events", f"accept {p}", "events"]


def frag_use(p):
    return [f"send {p} 0{p}", f"rread {p} out", f"rsend {p} in 1{p}", "events"]


def frag_end(p, rng):
    return rng.choice([[f"close {p}", "events"], [f"rclose {p} in", "events"], [f"rreset {p} out", "events"],
                       [f"disc {p}", "events", f"conn {p}"], [f"rclose {p} out", f"send {p} 33", "events"]])


def frag_held(p, rng):
    """Scheduling: the Connection task of an open stream is not polled (`hold`) while the connection is lost (or the
    stream is closed by the user / the peer) and a new negotiation for the same peer starts; then it runs (`unhold`).
    No `Substream::close()` is stalled anywhere. The new negotiation is completed only after the old task has run
    (otherwise the old task's NotificationStreamClosed comes late: finding late-closed-report, see frag_held_late)."""
    opener = rng.choice([frag_out, frag_in, frag_simul])(p)
    use = frag_use(p) if rng.random() < 0.3 else []
    end = rng.choice([[f"disc {p}", f"conn {p}"], [f"disc {p}", f"conn {p}"], [f"disc {p}", "events", f"conn {p}"],
                      [f"close {p}"], [f"rclose {p} in"], [f"rreset {p} out"], [f"rclose {p} in", f"disc {p}", f"conn {p}"]])
    start = rng.choice([[f"subin {p}"], [f"subin {p}", f"hs {p} in"], [f"subin {p}", f"hs {p} in", "events"],
                        [f"open {p}"], [f"open {p}", f"subin {p}"], [f"open {p}", f"subout {p}"], []])
    rest = rng.choice([[f"hs {p} in", "events", f"accept {p}", f"subout {p}", f"hs {p} out", "events"],
                       [f"hs {p} in", "events", f"accept {p}", "events", f"subfail {p}", "events"],
                       [f"hs {p} in", "events", f"reject {p}", "events"],
                       ["events", f"open {p}", f"subout {p}", f"hs {p} out", f"subin {p}", f"hs {p} in", "events",
                        f"accept {p}", "events"]])
    return opener + use + [f"hold {p}"] + end + start + [f"unhold {p}"] + rest + ["state"]


def frag_held_late(p, rng):
    """The old task stays unpolled until the new stream has been reported (finding late-closed-report)."""
    return (frag_in(p) + [f"hold {p}", rng.choice([f"disc {p}", f"close {p}"])] + ([f"conn {p}"] if rng.random() < 0.9 else [])
            + frag_in(p) + [f"unhold {p}", "events", "state"])


def frag_batch(p, q, rng):
    """`open_substream_batch` / `try_…`: one command for several peers (one already open, one unknown, duplicates)."""
    op = rng.choice(["openb", "tryopenb"])
    lst = rng.choice([f"{p},{q}", f"{q},{p},{p}", f"{p},{q},9", f"{p},{q}", f"7,{p},8,{q},9", f"9,8,{p},7,{q},6"])
    rest = rng.choice([
        [f"subout {p}", f"subout {q}", f"hs {p} out", f"hs {q} out", f"subin {p}", f"subin {q}", f"hs {p} in", f"hs {q} in",
         "events", f"accept {p}", f"accept {q}", "events"],
        [f"subfail {p}", f"subout {q}", f"rreset {q} out", "events"],
        [f"disc {p}", f"subout {q}", f"hs {q} out", "events", f"conn {p}"],
        ["events"]])
    closing = rng.choice([[f"closeb {p},{q}", "events"], [f"tryclosb {q},{p},{p}", "events"], [f"closeb 9,{p}", "events"], []])
    return [f"{op} {lst}", "events"] + rest + ["state"] + closing


def frag_reuse(p, rng):
    """The user's own request dies with the rejection of the peer's inbound substream; the outbound substream is still
    being opened and is reused by the next request (`Closed { pending_open }` + `pending_outbound`)."""
    end = rng.choice([[f"subout {p}", f"hs {p} out", f"subin {p}", f"hs {p} in", "events", f"accept {p}", "events"],
                      [f"subfail {p}", "events"], [f"subout {p}", f"rclose {p} out", "events"]])
    head = [f"open {p}", f"subin {p}", f"hs {p} in", "events", f"reject {p}", "state"]
    if rng.random() < 0.3:
        # the pending substream fails / opens while the peer is `Closed { pending_open }`, then a fresh request
        return head + [rng.choice([f"subfail {p}", f"subout {p}"]), "state", f"open {p}", "state", f"subout {p}", f"hs {p} out",
                       "events", "state"]
    return head + [f"open {p}", "state"] + end


def frag_clog(p, rng):
    """Sync channel full behind a task that is not scheduled: ChannelClogged, one ForceClose, then the async side."""
    n = rng.choice([2, 3, 17])
    return (frag_in(p) + [f"hold {p}"] + [f"send {p} {i:02x}" for i in range(n)] + [f"sink {p}", f"ssend @{p} 77"]
            + rng.choice([[f"unhold {p}", f"rread {p} out"], [f"close {p}", f"unhold {p}", "events", f"ssend @{p} 78"],
                          [f"disc {p}", f"unhold {p}", "events", f"conn {p}"]])
            + [f"hold {p}"] + [f"asend {p} a{i}" for i in range(rng.choice([1, 2, 5]))] + [f"sasend @{p} b0", f"unhold {p}",
                                                                                          f"rread {p} out", "events", "state"])


def frag_cfull(p, rng):
    """The command channel of the connection is full (it is shared with the other protocols of the connection):
    `service.open_substream` fails in `on_open_substream` and after an Accept."""
    first = rng.choice([[f"open {p}", "events", "state"],
                        [f"subin {p}", f"hs {p} in", "events", f"accept {p}", "events", "state"]])
    second = rng.choice([[f"open {p}", "events"], [f"subin {p}", f"hs {p} in", "events", f"accept {p}", "events"]])
    return ([f"disc {p}", f"conn {p} cap={rng.choice([1, 2])} drain=0", f"cfill {p}"] + first + [f"cdrain {p}"] + second
            + [f"cdrain {p}", f"subout {p}", f"hs {p} out", "events", "state"])


def frag_sink(p, rng):
    """A sink clone taken while the stream is open is used after the user saw the stream closed / reopened."""
    end = rng.choice([[f"close {p}"], [f"rclose {p} in"], [f"disc {p}", "events", f"conn {p}"], [f"rreset {p} out"]])
    again = rng.choice([[], frag_in(p) + [f"send {p} 0b", f"ssend @{p} 0c", f"rread {p} out"]])
    return (rng.choice([frag_in, frag_out])(p) + [f"sink {p}", f"ssend @{p} 0a", f"rread {p} out"] + end
            + rng.choice([["events"], [f"ssend @{p} 1a", "events"]]) + [f"ssend @{p} 2a", f"sasend @{p} 3a"] + again
            + rng.choice([[f"sdrop @{p}"], []]) + ["events", "state"])


def frag_hs(p, rng, maxsz):
    """Handshake limits, failures at each step of the handshake service, its timers, `set_handshake`."""
    big = "ab" * (maxsz + 1)
    fits = "cd" * maxsz
    v = rng.randrange(9)
    if v == 0:      # local handshake above the limit: refused when it is to be sent
        return [f"seths {big}", f"open {p}", f"subout {p}", "events", "state", f"seths {fits}", f"open {p}", f"subout {p}",
                f"rread {p} out", "state"]
    if v == 1:      # remote's handshake above the limit on the outbound substream
        return [f"open {p}", f"subout {p}", f"rsend {p} out {big}", "events", "state"]
    if v == 2:      # ... on the inbound substream; exactly at the limit it is accepted
        return [f"subin {p}", f"rsend {p} in {big}", "events", "state", f"subin {p}", f"rsend {p} in {fits}", "events", "state"]
    if v == 3:      # accepted inbound substream, local handshake above the limit
        return [f"subin {p}", f"hs {p} in", "events", f"seths {big}", f"accept {p}", "events", "state", "seths 01020304"]
    if v == 4:      # timers of the handshake service
        return [f"open {p}", f"subout {p}", f"hstimeout {p} {rng.choice(['out', 'in'])}", "events", "state"]
    if v == 5:
        return [f"subin {p}", f"hstimeout {p} in", "events", "state", f"open {p}", f"subout {p}", f"subin {p}",
                f"hstimeout {p} {rng.choice(['out', 'in'])}", "events", "state"]
    if v == 6:      # set_handshake is read when the handshake is sent
        return ["seths 0a0b", f"open {p}", "seths 0c", f"subout {p}", f"rread {p} out", f"hs {p} out", f"subin {p}",
                f"hs {p} in", "events", "seths -", f"accept {p}", f"rread {p} in", "events", "seths 01020304"]
    if v == 7:      # an oversized notification in either direction ends the stream
        return frag_in(p) + [rng.choice([f"send {p} {big}", f"rsend {p} in {big}", f"asend {p} {big}"]), "events", "state"]
    return [f"open {p}", f"subout {p}", f"rclose {p} out", "events", f"subin {p}", f"rclose {p} in", "events", "state"]


def frag_pileup(p, rng):
    """The protocol loop does not run for a while: several results of the handshake service / several inputs at once.
    Includes the history of the repaired defect (a result queued for a substream that is removed before it is
    handed out must not be attributed to the peer's next substream)."""
    v = rng.randrange(7)
    if v >= 4:
        # the connection task's close notice and the user's next open request are both waiting when the protocol loop
        # runs again: the notice is taken first (order of the biased select!), so the request finds the peer `Closed`
        end = rng.choice([f"rclose {p} in", f"rreset {p} out", f"rclose {p} out", f"rreset {p} in"])
        extra = [f"send {p} 0{p}"] if end == f"rclose {p} out" else []
        tail = rng.choice([[f"subout {p}", f"hs {p} out", f"subin {p}", f"hs {p} in", "events", f"accept {p}", "events", "state"],
                           ["events", f"disc {p}", "events", f"conn {p}"], [f"subfail {p}", "events", "state"]])
        return (rng.choice([frag_in, frag_out])(p) + ["phold", end] + extra + ["events", f"open {p}", "prelease", "events",
                "state"] + tail)
    if v == 0:
        a, b = rng.choice([("in", "out"), ("out", "in")])
        return [f"open {p}", f"subin {p}", f"subout {p}", "phold", f"hs {p} {a}", f"rreset {p} {b}", "prelease", "state",
                "events", f"subin {p}", "state", "events", f"hs {p} in", "events", f"accept {p}", f"subout {p}", f"hs {p} out",
                "events", f"rsend {p} in 5{p}", "events", "state"]
    if v == 1:
        a, b = rng.choice([("in", "out"), ("out", "in")])
        return [f"open {p}", f"subin {p}", f"subout {p}", "phold", f"hs {p} {a}", f"rclose {p} {b}", "prelease", "state",
                "events", f"open {p}", f"subout {p}", "state", f"rread {p} out", f"hs {p} out", "events", "state"]
    if v == 2:
        return [f"open {p}", f"subin {p}", f"subout {p}", "phold", f"hs {p} in", f"hs {p} out", "prelease", "events", "state",
                f"accept {p}", "events"]
    return ["phold", f"open {p}", f"subin {p}", f"hs {p} in", "prelease", "events", "state", f"accept {p}", f"subout {p}",
            f"hs {p} out", "events", "state"]


def frag_cmdfull(p, q, rng):
    """The handle's command channel is full (the protocol loop does not get round to it)."""
    return (rng.choice([["cmdfill"], ["cmdhold"]]) + [f"open {p}", f"tryopenb {p},{q}", f"openb {q},{p}", f"close {p}",
            f"tryclosb {p},{q}", f"closeb {p}", "events", "cmdrelease", "events", "state"])


def noise(rng, peers, stall):
    p = rng.choice(peers)
    role = rng.choice(["in", "out"])
    age = rng.choice(["", "", "", " age=1"])
    r = rng.random()
    table = [
        (0.06, f"conn {p}"), (0.05, f"disc {p}"), (0.02, f"dialfail {p}"), (0.02, f"known {p}"),
        (0.10, f"open {p}"), (0.05, f"close {p}"), (0.08, f"accept {p}"), (0.04, f"reject {p}"),
        (0.12, "events"), (0.05, "state"), (0.04, f"timer {p}"),
        (0.07, f"subout {p}"), (0.04, f"subfail {p}"), (0.07, f"subin {p}"),
        (0.07, f"hs {p} {role}{age}"), (0.03, f"rclose {p} {role}{age}"), (0.03, f"rreset {p} {role}{age}"),
        (0.02, f"rread {p} {role}{age}"), (0.02, f"send {p} 0{p}"), (0.02, f"rsend {p} in{age} 2{p}"),
    ]
    if stall:
        table += [(0.03, f"stall {p} {role}{age}"), (0.02, f"release {p} {role}{age}")]
    table += [(0.025, f"hold {p}"), (0.03, f"unhold {p}")]
    q = rng.choice(peers)
    k = rng.choice([0, 0, 1])
    table += [(0.02, f"openb {p},{q}"), (0.01, f"tryopenb {q},{p}"), (0.01, f"closeb {p},{q}"), (0.01, f"tryclosb {p}"),
              (0.015, f"sink {p}"), (0.015, f"ssend {k} 4{p}"), (0.01, f"sasend {k} 5{p}"), (0.005, f"sdrop {k}"),
              (0.015, f"asend {p} 6{p}"), (0.01, f"hstimeout {p} {role}"), (0.008, "seths 0a0b0c"), (0.004, "seths " + "ee" * 70),
              (0.006, f"rsend {p} {role}{age} " + "dd" * 70), (0.008, "phold"), (0.02, "prelease"), (0.004, "cmdhold"),
              (0.012, "cmdrelease"), (0.006, f"cdrain {p}"), (0.003, f"cfill {p}")]
    tot = sum(w for w, _ in table)
    x = r * tot
    for w, op in table:
        x -= w
        if x <= 0:
            return op
    return "events"


def merge(rng, seqs):
    seqs = [list(s) for s in seqs if s]
    out = []
    while seqs:
        s = rng.choice(seqs)
        out.append(s.pop(0))
        if not s:
            seqs.remove(s)
    return out


def resolve_sinks(ops):
    """`@p` = the number of the latest `sink p` operation before this one (every `sink` operation takes a number)."""
    latest, n, out = {}, 0, []
    for op in ops:
        t = op.split()
        if len(t) > 1 and t[1].startswith("@"):
            t[1] = str(latest.get(t[1][1:], 0))
            op = " ".join(t)
        if t and t[0] == "sink" and len(t) == 2:
            latest[t[1]] = n
            n += 1
        out.append(op)
    return out


def gen_case(rng, tier):
    return resolve_sinks(gen_case0(rng, tier))


def gen_case0(rng, tier):
    peers = PEERS[:rng.choice([2, 2, 3])]
    auto = rng.choice([0, 1])
    dial = rng.choice([1, 1, 0])
    stall = rng.random() < 0.08
    maxsz = rng.choice([64, 64, 8, 5])
    small = rng.random() < 0.35
    ops = [f"cfg auto={auto} dial={dial}" + (f" max={maxsz}" if maxsz != 64 else "")
           + (f" sync={rng.choice([1, 2, 3])} async={rng.choice([1, 2])}" if small else "")]
    style = rng.random()
    body = []
    if style < 0.75:
        per_peer = []
        for p in peers:
            seq = []
            if rng.random() < 0.8:
                seq.append(f"conn {p}" + rng.choice(["", "", "", " cap=1 drain=0"]))
            for _ in range(rng.choice([1, 1, 2, 3])):
                r = rng.random()
                if r < 0.12:
                    seq += frag_held(p, rng)
                    continue
                if r < 0.14:
                    seq += frag_held_late(p, rng)
                    continue
                if r < 0.44:
                    # coverage round: the handle's batch / sink / async API, back-pressure of the command channels,
                    # the handshake service's limits, timers and failure arms, pile-ups of the protocol loop
                    q = rng.choice([x for x in peers if x != p])
                    k = rng.randrange(8)
                    seq += ([f"conn {q}"] if k in (0, 7) and rng.random() < 0.7 else []) + (
                        frag_batch(p, q, rng) if k == 0 else frag_reuse(p, rng) if k == 1 else frag_clog(p, rng) if k == 2
                        else frag_cfull(p, rng) if k == 3 else frag_sink(p, rng) if k == 4 else frag_hs(p, rng, maxsz)
                        if k == 5 else frag_pileup(p, rng) if k == 6 else frag_cmdfull(p, q, rng))
                    continue
                f = rng.choice([frag_out, frag_in, frag_simul, frag_dial])(p)
                if rng.random() < 0.6:
                    f = f + frag_use(p)
                if rng.random() < 0.7:
                    f = f + frag_end(p, rng)
                seq += f
            # perturb: delete / duplicate / insert noise
            for _ in range(rng.choice([0, 1, 2, 4])):
                if not seq:
                    break
                i = rng.randrange(len(seq))
                r = rng.random()
                if r < 0.4:
                    del seq[i]
                elif r < 0.6:
                    seq.insert(i, seq[i])
                else:
                    seq.insert(i, noise(rng, [p], stall))
            per_peer.append(seq)
        body = merge(rng, per_peer)
    else:
        body = [noise(rng, peers, stall) for _ in range(rng.choice([8, 15, 30, 50]))]
    if rng.random() < 0.03:
        body.insert(rng.randrange(len(body) + 1), rng.choice(["frobnicate 1", "hs x in", "open", "conn -1", "hs 1 sideways"]))
    ops += body
    if rng.random() < 0.75:
        ops += ["events"]
        ops += ["prelease", "cmdrelease"] if any(o in ("phold", "cmdhold", "cmdfill") for o in body) else []
        for p in peers:
            ops += [f"release {p} in", f"release {p} out", f"release {p} in age=1", f"release {p} out age=1"] if stall else []
            ops += [f"unhold {p}", f"disc {p}"]
        ops += ["events", "state"]
        if rng.random() < 0.15:
            ops += ["shutdown"]
    elif rng.random() < 0.3:
        ops += ["shutdown"]
    return ops


def witness_cases():
    """Deterministic cases: the known findings and a few hand-written dialogues."""
    stale_notice = ["cfg auto=0 dial=1", "conn 1", "subin 1", "hs 1 in", "events", "accept 1", "subout 1", "hs 1 out",
                    "events", "stall 1 in", "rclose 1 in", "close 1", "subin 1", "release 1 in age=1", "events",
                    "hs 1 in", "events"]
    late_closed = ["cfg auto=0 dial=1", "conn 1", "subin 1", "hs 1 in", "events", "accept 1", "subout 1", "hs 1 out",
                   "events", "stall 1 in", "close 1", "events", "subin 1", "hs 1 in", "events", "accept 1", "subout 1",
                   "hs 1 out", "events", "release 1 in age=1", "events", "state"]
    dangling = ["cfg auto=0 dial=1", "conn 1", "subin 1", "hs 1 in", "events", "accept 1", "events", "subfail 1", "events", "state",
                "open 1", "state", "events", "disc 1", "events"]
    stale_accept = ["cfg auto=0 dial=1", "conn 1", "open 1", "subin 1", "subout 1", "hs 1 in", "events", "rreset 1 out",
                    "subin 1", "hs 1 in", "accept 1", "subout 1", "hs 1 out", "events", "reject 1", "events", "disc 1",
                    "events"]
    plain = ["cfg auto=1 dial=1", "conn 1", "conn 2", "open 1", "open 2", "subin 1", "subout 1", "subout 2", "hs 1 in",
             "hs 1 out", "rread 1 in", "rread 1 out", "events", "state", "hs 2 out", "subin 2", "hs 2 in", "events",
             "send 2 0102", "rread 2 out", "rsend 2 in 0a0b", "events", "disc 2", "events", "state", "timer 1", "close 1",
             "events", "disc 1", "events", "state"]
    # open_answered_once_witness: the old task's late notice resets the state of a newly accepted stream, whose
    # answer (opened / open failure) never comes
    stale_request = ["cfg auto=0 dial=1", "conn 1", "subin 1", "hs 1 in", "events", "accept 1", "subout 1", "hs 1 out",
                     "events", "stall 1 in", "rclose 1 in", "close 1", "subin 1", "hs 1 in", "events", "accept 1", "state",
                     "release 1 in age=1", "events", "state", "disc 1", "events", "state"]
    # scheduling only, nothing stalled: the task of the old stream is not polled across a disconnect, a reconnect and
    # the start of the next negotiation, then runs: harmless on the real code (shutdown.send(()) => quiet close)
    held_ok = ["cfg auto=0 dial=1", "conn 1"] + frag_in(1) + ["hold 1", "disc 1", "conn 1", "subin 1", "hs 1 in", "events",
               "state", "unhold 1", "events", "state", "accept 1", "subout 1", "hs 1 out", "events", "send 1 07",
               "rread 1 out", "disc 1", "events", "state"]
    held_ok2 = ["cfg auto=1 dial=1", "conn 1"] + frag_out(1) + ["hold 1", "rclose 1 in", "disc 1", "conn 1", "open 1",
                "subin 1", "unhold 1", "events", "open 1", "subout 1", "hs 1 in", "hs 1 out", "events", "state", "disc 1",
                "events", "state"]
    # late-closed-report: the old task is not polled until the next stream has been negotiated and reported
    held_late = ["cfg auto=0 dial=1", "conn 1"] + frag_in(1) + ["hold 1", "disc 1", "conn 1"] + frag_in(1) + \
                ["unhold 1", "events", "state", "send 1 05", "events", "disc 1", "events", "state"]
    return [stale_notice, late_closed, dangling, stale_accept, plain, stale_request, held_ok, held_ok2, held_late]


def corpus():
    return witness_cases()


def gen_cases(rng, tier):
    n = {"quick": 1500, "thorough": 40000, "search": 6000}[tier]
    for _ in range(n):
        yield gen_case(rng, tier)


def mutate_case(rng, case, n):
    for _ in range(n):
        c = list(case)
        for _ in range(rng.randrange(1, 4)):
            if len(c) < 2:
                break
            i = rng.randrange(1, len(c))
            r = rng.random()
            if r < 0.4:
                del c[i]
            elif r < 0.7:
                c.insert(i, rng.choice(case[1:]))
            else:
                c.insert(i, noise(rng, PEERS, False))
        if rng.random() < 0.5:
            # scheduling mutation: hold the tasks of a peer over a stretch of the case
            p = rng.choice(PEERS)
            i = rng.randrange(1, len(c) + 1)
            j = rng.randrange(i, min(len(c), i + 8) + 1)
            c.insert(j, f"unhold {p}")
            c.insert(i, f"hold {p}")
        yield c


# ------------------------------------------------------------------ oracle

EV = re.compile(r"(validate|opened|closed|fail|notif)\((\d+)(?:,([^)]*))?\)")
CALL = re.compile(r"\b(open|fc)\((\d+)(?:,s(\d+))?\)")
STALLED = re.compile(r"\bstalled\((\d+)\)")


def parse_events(o):
    m = re.match(r"\[(.*?)\]", o)
    if not m:
        return []
    res = []
    for tok in m.group(1).split():
        e = EV.fullmatch(tok)
        if e:
            res.append((e.group(1), int(e.group(2)), e.group(3) or ""))
    return res


def oracle(case, out):
    """The property as written in properties.jsonl, evaluated on the user-visible observations only."""
    bad = []
    auto = 0
    connected, taint, dangling = set(), set(), set()
    view_open = {}          # user's view: stream open?
    answers_due = {}        # peer -> number of unanswered requests (open commands accepted by the handle + accepts)
    pipes_req_by_accept = {}    # peer -> the outstanding transport request stems from an accept / has seen a subin
    last_validate_step = {}     # peer -> op index at which the latest validate(p) of the current round was drained
    accept_steps = {}           # peer -> op indices of accept ops
    open_ok_steps = {}          # peer -> op indices of `open p` answered ok, since the last round boundary
    qualifying = {}             # peer -> (step) of a qualifying open request not yet answered
    quiet = {}                  # peer -> no negotiation can be in progress (user's knowledge)
    pending_req_kind = {}       # peer -> 'accept' | 'open+subin' | 'open' for the outstanding transport request
    subin_since_events = set()
    all_accepts = {}
    last_terminal = {}
    boundary_step = {}
    round_answer = {}
    nodrain = set()
    held = set()                # peers whose connection task(s) are currently not being polled (`hold`)
    held_since_opened = set()   # a hold was placed on the peer's task since its stream was reported opened
    hold_step = {}              # peer -> op index of the latest effective `hold`
    unhold_step = {}            # peer -> op index of the `unhold` that ended the latest hold
    prev_events = -1            # op index of the previous `events` op
    late = set()                # the protocol reported opened / open failure for the peer while an old task was held:
                                # its NotificationStreamClosed is late (finding late-closed-report)
    burst = False               # the protocol loop has just worked through a backlog (`phold … prelease`): meanwhile no
                                # connection task was polled, i.e. every task was held back for the length of the burst
    held_qual = {}              # peer -> step of an open request sent while the protocol loop is held that must be answered
                                # once it runs (nothing else was fed to the protocol for that peer during the hold)
    held_touch = set()          # peers for which a negotiation may have been started while the protocol loop was held
    held_reqs = []              # peers of the open requests the handle has sent while the adapter holds the commands back
    cmd_held = proto_held = False   # the adapter keeps user commands from the protocol / does not poll the protocol loop
    maxsz = 64
    sinks = {}                  # sink number -> (peer, number of closed(peer) events the user had seen when it was taken)
    closed_seen = {}            # peer -> number of closed(peer) events drained
    in_pipes = {}               # peer -> inbound pipes in order of creation
    first_frame = {}            # inbound pipe -> first frame the remote wrote on it (its handshake)
    later_frames = {}           # peer -> frames the remote wrote on inbound pipes after the first one

    def v(kind, msg, i, **kw):
        d = {"kind": kind, "msg": msg, "step": i, "op": case[i] if i < len(case) else None,
             "out": out[i] if i < len(out) else None, "stale_conn_task": False, "dangling_pending_open": False,
             "stale_accept": False}
        vp = kw.pop("peer", None)
        d["stale_conn_task"] = vp in taint
        d["held_late"] = vp in late
        d.update(kw)
        bad.append(d)

    # does the case end with the draining suffix (events; disc all; events)?
    final_suffix = len(case) >= 3 and case[-1] == "state" and case[-2] == "events" and case[-3].startswith("disc ")

    n = min(len(case), len(out))

    def check_qualifying(p, upto):
        # open_answered_once, quiescence part, in the one situation that is decidable from the outside: the request
        # was sent for a connected peer with nothing in progress and nothing owed by the transport, it started no
        # transport call, and no answer arrived while the connection lasted (an `events` op must follow to know).
        i, has_call = qualifying.pop(p)
        if has_call:
            return
        drains = [j for j in range(i, upto) if case[j] == "events"]
        answered = any(e[1] == p and e[0] in ("opened", "fail") for j in drains for e in parse_events(out[j]))
        if drains and not answered:
            v("open-unanswered", f"open request for connected idle peer {p} at step {i} started nothing and was "
              f"not answered while the connection lasted", i, dangling_pending_open=(p in dangling),
              peer=p)

    def overtakes_held(p):
        # an event drained now was put on the user channel after the previous drain; it overtakes the
        # NotificationStreamClosed of the old stream of `p` because of the scheduler iff the old stream's task was
        # being held back at some moment since then
        return p in held or (p in held_since_opened and unhold_step.get(p, -1) > prev_events) or burst

    for i in range(n):
        op, o = case[i], out[i]
        t = op.split()
        late_closed_now = set()
        was_touched = False
        if not t:
            continue
        peer = int(t[1]) if len(t) > 1 and t[1].isdigit() else None
        if o.startswith("panic"):
            v("panic", f"protocol panicked in `{op}`: {o}", i, peer=peer)
            break
        if o == "skipped":
            break
        if o in ("bad-op", "ignored"):
            continue
        if t[0] == "cfg":
            auto = 1 if "auto=1" in op else 0
            m = re.search(r"\bmax=(\d+)", op)
            maxsz = int(m.group(1)) if m else 64
            continue
        if t[0] in ("cmdhold", "cmdfill"):
            cmd_held = True
        if t[0] == "cmdrelease":
            cmd_held = False
            # the open requests sent meanwhile reach the protocol now
            for rp in held_reqs:
                open_ok_steps.setdefault(rp, []).append(i)
                subin_since_events.add(rp)
                last_terminal[rp] = False
                quiet[rp] = False
            held_reqs = []
        if t[0] == "phold":
            proto_held = True
        if t[0] == "prelease":
            burst = burst or proto_held
            proto_held = False
            # what was fed to the protocol meanwhile is handled now (an `events` in between saw nothing of it)
            for hp in held_touch:
                subin_since_events.add(hp)
                last_terminal[hp] = False
                quiet[hp] = False
            held_touch = set()
            for hp, i0 in held_qual.items():
                if hp not in qualifying:
                    qualifying[hp] = (i0, re.search(r"\bopen\(%d," % hp, o) is not None or hp in nodrain)
            held_qual = {}
        elif proto_held and peer is not None and t[0] not in ("open", "events", "state"):
            # anything else fed for that peer during the hold may legitimately be handled before the request
            held_qual.pop(peer, None)
        if t[0] == "shutdown":
            if not o.startswith("exited"):
                v("protocol-did-not-exit", f"the user dropped the handle but NotificationProtocol::run() did not return: {o}", i)
            break
        # ---- batch variants: every peer of the set that has no open stream is one open request
        batch_peers = []
        if t[0] in ("openb", "tryopenb") and len(t) == 2 and o.split()[0] == "ok":
            for x in t[1].split(","):
                if x.isdigit() and int(x) not in batch_peers and not view_open.get(int(x)):
                    batch_peers.append(int(x))
            for bp in batch_peers:
                subin_since_events.add(bp)
                last_terminal[bp] = False
        # ---- sink clones (sink_send_after_close_fails)
        if t[0] == "sink" and peer is not None:
            m = re.search(r"sink=(\d+)", o)
            if o.startswith("ok") and m:
                sinks[int(m.group(1))] = (peer, closed_seen.get(peer, 0))
                if not view_open.get(peer):
                    v("sink-for-closed-stream", f"notification_sink({peer}) returned a sink although the user has not been "
                      f"told that a stream to {peer} is open", i, peer=peer)
            elif o.startswith("none") and view_open.get(peer):
                v("no-sink-for-open-stream", f"notification_sink({peer}) returned None while the stream is open", i, peer=peer)
        if t[0] in ("ssend", "sasend") and peer in sinks and o.split()[0] == "ok":
            sp, seen = sinks[peer]
            if closed_seen.get(sp, 0) > seen:
                v("sink-send-after-close", f"a notification was accepted through a sink of peer {sp} taken before the user saw "
                  f"NotificationStreamClosed({sp})", i, peer=sp)
        # ---- what the remote writes on inbound substreams: the first frame is the handshake
        if t[0] == "subin" and peer is not None:
            m = re.search(r"pipe=(\d+)", o)
            if m:
                in_pipes.setdefault(peer, []).append(int(m.group(1)))
        if t[0] in ("hs", "rsend") and peer is not None and len(t) > 2 and t[2] == "in" and o.split()[0] == "ok":
            rest = t[3:]
            age = 0
            if rest and rest[0].startswith("age="):
                age = int(rest[0][4:]) if rest[0][4:].isdigit() else 0
                rest = rest[1:]
            pl = in_pipes.get(peer, [])
            if age < len(pl):
                k = pl[-1 - age]
                fr = ("aa%02x" % (k % 256)) if t[0] == "hs" else (rest[0].lower() if rest else "")
                if k not in first_frame:
                    first_frame[k] = fr
                else:
                    later_frames.setdefault(peer, set()).add(fr)
        if peer is not None and t[0] in ("subin", "open", "accept", "conn"):
            # ops that can start a negotiation round; an event drained later may predate them
            subin_since_events.add(peer)
            last_terminal[peer] = False
            was_touched = peer in held_touch
            if proto_held:
                held_touch.add(peer)
        for m in STALLED.finditer(o):
            # a `Substream::close()` of a connection task of that peer is suspended (explicitly stalled close)
            taint.add(int(m.group(1)))
        if t[0] == "hold":
            m = re.search(r"held=(\d+)", o)
            if m and int(m.group(1)) > 0:
                held.add(peer)
                held_since_opened.add(peer)
                hold_step[peer] = i
        if t[0] == "unhold":
            if peer in held:
                unhold_step[peer] = i
            held.discard(peer)
        if t[0] == "conn":
            connected.add(peer)
            (nodrain.add if "drain=0" in op else nodrain.discard)(peer)
            quiet[peer] = True
        if t[0] == "disc":
            if peer in qualifying:
                check_qualifying(peer, i)
            connected.discard(peer)
            quiet[peer] = False
            pending_req_kind.pop(peer, None)
        if t[0] == "subin":
            quiet[peer] = False
            subin_since_events.add(peer)
            if pending_req_kind.get(peer) == "open":
                pending_req_kind[peer] = "open+subin"
        if t[0] in ("hs", "rclose", "rreset", "rsend", "timer", "dialfail"):
            pass
        if t[0] == "accept":
            accept_steps.setdefault(peer, []).append(i)
            all_accepts.setdefault(peer, []).append(i)
        for m in CALL.finditer(o):
            if m.group(1) == "open":
                cp = int(m.group(2))
                pending_req_kind[cp] = "accept" if t[0] == "accept" else "open"
                quiet[cp] = False
        if t[0] == "subfail":
            if pending_req_kind.get(peer) in ("accept", "open+subin"):
                dangling.add(peer)
            pending_req_kind.pop(peer, None)
        if t[0] == "subout":
            pending_req_kind.pop(peer, None)
        for rp in ([peer] if t[0] == "open" and o.split()[0] == "ok" else batch_peers):
            if cmd_held:
                held_reqs.append(rp)
                quiet[rp] = False
                continue
            open_ok_steps.setdefault(rp, []).append(i)
            if (proto_held and not cmd_held and rp in connected and quiet.get(rp) and not view_open.get(rp)
                    and rp not in qualifying and rp not in pending_req_kind and not was_touched and t[0] == "open"):
                # the loop is not running, but everything it has queued for this peer (a close notice at most) is taken
                # before the command
                held_qual[rp] = i
            if (rp in connected and quiet.get(rp) and not view_open.get(rp) and rp not in qualifying
                    and rp not in pending_req_kind and not cmd_held and not proto_held):
                # connected, nothing in progress as far as anybody can know: the request must be answered
                # (batch_open_answers_each: every peer of a batch is owed its own answer)
                has_call = re.search(r"\bopen\(%d," % rp, o) is not None or rp in nodrain
                qualifying[rp] = (i, has_call)
            quiet[rp] = False
        # ---- user events
        for kind, p, extra in parse_events(o) if t[0] == "events" else []:
            if kind in ("validate", "opened"):
                hs = re.search(r"hs=([0-9a-f]*)", extra)
                if hs and len(hs.group(1)) // 2 > maxsz:
                    v("handshake-over-limit", f"a handshake of {len(hs.group(1)) // 2} bytes was handed to the user "
                      f"(limit {maxsz})", i, peer=p)
            if kind == "validate":
                last_validate_step[p] = i
                round_answer[p] = None
            elif kind == "opened":
                if view_open.get(p) and overtakes_held(p):
                    late.add(p)
                if view_open.get(p):
                    v("opened-twice", f"stream to peer {p} reported opened while already open", i,
                      peer=p)
                view_open[p] = True
                # inbound_after_accept
                lv = last_validate_step.get(p)
                if lv is not None:
                    if round_answer.get(p) != "accept":
                        v("opened-without-accept", f"stream to peer {p} opened although the user never accepted the "
                          f"inbound substream announced at step {lv}", i,
                          stale_accept=any(a <= lv for a in all_accepts.get(p, [])), peer=p)
                else:
                    if not (auto == 1 and any(j > boundary_step.get(p, -1) for j in open_ok_steps.get(p, []))):
                        v("opened-without-accept", f"stream to peer {p} opened without validation and auto-accept "
                          f"does not apply", i, peer=p)
                last_validate_step.pop(p, None)
                accept_steps[p] = []
                qualifying.pop(p, None)
                if p not in held and hold_step.get(p, -1) <= prev_events:
                    # this stream was reported after the hold had been placed: its task is not a held one
                    held_since_opened.discard(p)
            elif kind == "closed":
                if not view_open.get(p):
                    v("closed-without-opened", f"stream to peer {p} reported closed but it was not open", i,
                      peer=p)
                view_open[p] = False
                closed_seen[p] = closed_seen.get(p, 0) + 1
                if p in held_since_opened or burst:
                    # the task of the old stream was held back for a while: its report may come after the next
                    # negotiation round has started (that round's bookkeeping stays; nothing is known to be quiet)
                    late_closed_now.add(p)
                    quiet[p] = False
                    if p not in held:
                        held_since_opened.discard(p)
                else:
                    last_validate_step.pop(p, None)
                    accept_steps[p] = []
                    quiet[p] = p in connected and p not in subin_since_events
            elif kind == "fail":
                if view_open.get(p) and overtakes_held(p):
                    late.add(p)
                if view_open.get(p):
                    v("failure-while-open", f"open failure for peer {p} while its stream is open", i,
                      peer=p)
                last_validate_step.pop(p, None)
                accept_steps[p] = []
                qualifying.pop(p, None)
                quiet[p] = (p in connected) and extra != "valpending" and p not in subin_since_events
            elif kind == "notif":
                if not view_open.get(p):
                    v("notification-while-closed", f"notification from peer {p} delivered outside an open period", i,
                      peer=p)
                if len(extra) // 2 > maxsz:
                    v("oversized-notification", f"a notification of {len(extra) // 2} bytes was delivered (limit {maxsz})",
                      i, peer=p)
                if (extra in [first_frame.get(k) for k in in_pipes.get(p, [])]
                        and extra not in later_frames.get(p, set())):
                    v("handshake-delivered-as-notification", f"the first frame the remote wrote on an inbound substream of "
                      f"peer {p} (its handshake {extra}) was delivered as a notification", i, peer=p)
        if t[0] == "events":
            for kind, p, extra in parse_events(o):
                if kind == "closed" and p in late_closed_now:
                    last_terminal[p] = False
                elif kind == "closed" or (kind == "fail" and extra != "valpending"):
                    last_terminal[p] = p not in subin_since_events
                elif kind in ("opened", "validate", "fail"):
                    last_terminal[p] = False
            for p in connected:
                if last_terminal.get(p) and p not in subin_since_events and not view_open.get(p):
                    quiet[p] = True
            subin_since_events.clear()
            for kind, p, extra in parse_events(o):
                if kind in ("opened", "closed"):
                    # the event was put on the channel some time after the previous drain: an open request accepted
                    # by the handle since then may belong to the next round already
                    boundary_step[p] = prev_events
            prev_events = i
            burst = False
        if t[0] in ("accept", "reject"):
            quiet[peer] = False
        if t[0] in ("accept", "reject") and peer in last_validate_step and round_answer.get(peer) is None:
            # the handle keeps one pending validation per peer: the first answer after the drain counts
            round_answer[peer] = t[0]
            if t[0] == "reject":
                last_validate_step.pop(peer, None)      # the round ends silently
        # closed_on_disconnect: checked at the end (after the draining suffix)
    complete = n == len(case) and not any(x.startswith("panic") or x == "skipped" for x in out[:n])
    if complete and final_suffix and not proto_held and not cmd_held:
        last = len(case) - 1
        for p, is_open in view_open.items():
            # only for peers that really are disconnected at the end (a shrunk case may end with a `disc` of
            # some other, unconnected peer)
            if is_open and p not in connected and p not in held:
                v("not-closed-on-disconnect", f"connection to peer {p} lost but its open stream was never reported "
                  f"closed", last, peer=p)
    if complete:
        for p in list(qualifying):
            check_qualifying(p, n)
    return bad


def stats(case, out, acc):
    for op, o in zip(case, out):
        t = op.split()[0] if op.split() else "?"
        bump(acc, "op:" + t)
        if o.startswith("panic"):
            bump(acc, "panic")
        if o == "ignored":
            bump(acc, "ignored")
        if t == "events":
            for kind, p, extra in parse_events(o):
                bump(acc, "ev:" + kind + (":" + extra if kind == "fail" else ""))
        if t == "state":
            for m in re.finditer(r"\d+:([a-z]+)", o):
                bump(acc, "st:" + m.group(1))
    bump(acc, "case-len:%d" % (10 * (len(case) // 10)))
    bump(acc, case[0])


def nontrivial(case, out):
    return any(("opened(" in o or "fail(" in o) for o in out)


def matches_known(k, v):
    sig = k.get("signature", {})
    if sig.get("stale_conn_task"):
        # only with an explicitly stalled close in the history (`stall ...` that really suspended a close():
        # the adapter then prints `stalled(p)`); a stale notice / late report without one is NOT this finding
        return bool(v.get("stale_conn_task"))
    if sig.get("held_late"):
        return bool(v.get("held_late")) and not v.get("stale_conn_task")
    if sig.get("dangling_pending_open"):
        return v.get("kind") == "open-unanswered" and bool(v.get("dangling_pending_open")) and not v.get("stale_conn_task")
    if sig.get("stale_accept"):
        return v.get("kind") == "opened-without-accept" and bool(v.get("stale_accept")) and not v.get("stale_conn_task")
    return False


# ---------------------------------------------------------------- real nodes through the public API (engine: extra_cases)
# `Litep2p::new` (src/lib.rs) and `ConfigBuilder` (src/config.rs) hand every protocol its configuration; the `node` area
# (checks/node.py) builds real nodes, compares the registration record with the wiring model (Model/Node/Wiring.lean)
# and judges this property's real-time scenarios at node level.
from . import node as _node  # noqa: E402
_node.install(globals())
