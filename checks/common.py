"""Helpers shared by the per-property plugins."""
import hashlib


def peer_bytes(i):
    """Same as litep2p::verif::peer(i): identity multihash of an ed25519 key protobuf."""
    return bytes([0x00, 0x24, 0x08, 0x01, 0x12, 0x20]) + i.to_bytes(32, "big")


def sha256_int(b):
    return int.from_bytes(hashlib.sha256(b).digest(), "big")


def peer_key(i):
    """Kademlia key of peer i (sha256 of the peer id bytes) as an integer."""
    return sha256_int(peer_bytes(i))


def bump(d, k, n=1):
    d[k] = d.get(k, 0) + n
