"""C06 — Connection caps (model: Model/Manager/*.lean, adapter: src/verif/c05.rs, shared with C05)."""
from . import mgr_common as M
from .mgr_common import parse_obs, Ghost, stats, nontrivial, model_lines, mutate_case  # noqa: F401 (engine hooks)

ID = "C06"
AREA = M.AREA
LEAN_PROPS = "Litep2pVerif.Props.C06"
THEOREMS = ["limits_inv", "counted_iff_open", "released_once", "two_per_peer", "two_per_peer_reject",
            "below_limit_accepts", "connection_ids_unique", "slot_released_when_connection_ends"]
MANIFEST = {
    "text": "Lean 4 theorems about an executable operational model of the connection manager (PeerState, ConnectionLimits, "
            "TransportManager bookkeeping): limits_inv, counted_iff_open, released_once, two_per_peer(+_reject), "
            "below_limit_accepts — proved by an invariant over ALL input histories (no assumption on the transport) and all "
            "limit configurations incl. none/0. The model is tied to the real TransportManager on every run by a seeded "
            "differential run (scripted Transport, every call/event/peer state/counter compared per step) and a "
            "property-level oracle counting live connections. Coverage round mgr2: connection_ids_unique — dials and the ids the "
            "transports take (TransportHandle::next_connection_id of the handle transport_handle() returns) come from ONE counter; "
            "under the transport contract the ids of all live connections, inbound and outbound, are pairwise distinct, below the "
            "counter, shared with no waiting inbound socket and no dial in flight (so closing one connection releases no other "
            "connection's slot); the adapter allocates inbound ids through the real handle, opens substreams (the other counter) in "
            "between, and reports an id that already names a connection (`id-reuse`). slot_released_when_connection_ends — over the "
            "connection-task model (Model/Conn): whatever protocols have shut down, the manager is told ConnectionClosed exactly "
            "once when the task returns; the tcploop area (real TcpConnection loop + real ProtocolSet, protocols' receivers dropped "
            "before the connection ends, every close path, directly and through the real accept future) runs as extra cases judged by "
            "a C06 oracle (slot-leaked / released-twice / released-early); without protocols the c05 adapter reports closures "
            "through the real ProtocolSet::report_connection_closed.",
    "note": "Trusted: Lean kernel; axioms propext/Quot.sound/Classical.choice; the hand-written model and its sampled tie (adapter "
            "src/verif/c05.rs with a scripted Transport; guarded accessor for the two counters); default feature set (TCP only).",
    "technique": "Lean 4 proof (invariant by induction over all event histories) + model/implementation correspondence check",
    "design_ref": "DESIGN.md §7 C06",
}
RULE = ("closed-loop seeded histories (limit configs none/0/1/2/(3,2)/mixed; 2-3 peers x 3 addresses; dial, dial_address, "
        "add_known_address, every TransportEvent, accept results incl. failures, closures; 5-15 % of cases with arbitrary "
        "contract-breaking events; a stream of adversarial multiaddress shapes) run on the real TransportManager and on the "
        "Lean model; a case is non-trivial if a connection was accepted or rejected and an event was emitted; distinct = "
        "distinct (ops, observations) transcripts by SHA-256; inbound connection ids allocated through the real "
        "TransportHandle, `substream` operations (real TransportService::open_substream) in between; plus ~175 histories of the "
        "real TcpConnection loop (tcploop area, focus C06: protocols shut down before the connection ends via every close path; "
        "f-round: family `order` — a substream finishing negotiation against a full channel, then every exit path)")
TRUSTED_BASE = ["Lean 4.33 kernel", "axioms: propext, Quot.sound, Classical.choice only",
                "connection-task model Model/Conn/{Close,Loop,Permits}.lean tied to TcpConnection::start / ProtocolSet by the tcploop "
                "area (adapter /repo/src/verif/tcploop.rs, checks/tcploop.py)",
                "hand-written model Model/Manager/{PeerState,Limits,Dial}.lean tied to manager/{peer_state,limits,mod}.rs by this correspondence run",
                "adapter /repo/src/verif/c05.rs (scripted Transport, one next() poll to quiescence per op), harness, verif.py, checks/c06.py, checks/mgr_common.py",
                "tokio::select! fairness and FuturesUnordered order are not exercised (one ready source per step)",
                "address-store eviction (capacity 64) outside the model (C10)"]
ASSUMPTIONS = ["default feature set: TCP is the only SupportedTransport",
               "connection_ids_unique: the transport reports an inbound connection under an id it took from the counter and a dialed one "
               "under the id of its dial (the contract `allowed` of Model/Manager/Dial.lean); the limit theorems need no such assumption",
               "fewer than 64 addresses per peer in a case"]
KEEP_PREFIX = 1


def gen_cases(rng, tier):
    return M.gen_cases(rng, tier, share_addr=0.05)


def corpus():
    return [list(c) for c in M.CORPUS]


def oracle(case, out):
    """Counts live connections (accepted, not closed / rolled back) from the observations alone and
    checks them against the configured limits, the two-per-peer cap and the accept/reject answers."""
    bad = []
    t0 = case[0].split()
    if t0[0] != "limits" or len(t0) != 3:
        return bad
    g = Ghost(t0[1], t0[2])

    def v(kind, msg, i):
        bad.append({"kind": kind, "msg": msg, "step": i, "op": case[i], "out": out[i] if i < len(out) else None})

    for i, op in enumerate(case):
        if i == 0 or i >= len(out):
            continue
        o = out[i]
        if o == "skipped" or o.startswith("panic") or o == "bad-op":
            break
        if o == "busy" or op.startswith("protocols ") or M.is_aux(op):
            continue
        obs = parse_obs(o)
        if obs is None:
            break
        prev = g.prev
        t = op.split()
        live_before = {c: set(s) for c, s in g.live.items()}
        if obs["res"].startswith("idclash:"):
            # the transport allocated (TransportHandle::next_connection_id) an id that already names a connection
            old, _, new = obs["res"][len("idclash:"):].partition("=")
            if old in g.live or old in g.owed:
                what = "open connection" if old in g.live else "dial in flight"
                v("id-reuse", f"connection {new} was given the connection id of the {what} {old}: the limit "
                  f"accounting (a set of ids) counts the two as one and closing one releases the other's slot", i)
                break
        g.update(i, op, obs)
        if g.clash:
            break          # a duplicated `as=` label: connection identities are ambiguous from here on
        live_in = {c for c, s in g.live.items() if any(d == "listener" for _, d in s)}
        live_out = {c for c, s in g.live.items() if any(d == "dialer" for _, d in s)}
        if g.max_in is not None and len(live_in) > g.max_in:
            v("limit-in", f"{len(live_in)} open inbound connections with max_incoming {g.max_in}", i)
        if g.max_out is not None and len(live_out) > g.max_out:
            v("limit-out", f"{len(live_out)} open outbound connections with max_outgoing {g.max_out}", i)
        # the counters hold exactly the open connections of a limited direction (released on close)
        want_in = len(live_in) if g.max_in is not None else 0
        want_out = len(live_out) if g.max_out is not None else 0
        if (obs["lim_in"], obs["lim_out"]) != (want_in, want_out):
            v("counter", f"counters {obs['lim_in']}/{obs['lim_out']} but {want_in}/{want_out} counted connections are open", i)
        peers = {}
        for c, s in g.live.items():
            for p, _ in s:
                peers.setdefault(p, set()).add(c)
        for p, cs in peers.items():
            if len(cs) > 2:
                v("three-per-peer", f"peer {p} has {len(cs)} open connections", i)
        if t[0] == "ev" and t[1] == "established":
            p, c, d = int(t[2]), t[3], t[5]
            accepted = any(x[0] == "accept" and x[1] == c for x in obs["calls"])
            rejected = any(x[0] == "reject" and x[1] == c for x in obs["calls"])
            if accepted == rejected:
                v("accept-xor-reject", "an established connection must be answered by exactly one of accept/reject", i)
            if prev is not None:
                was = prev["st"].get(p, "")
                if rejected and not obs["events"]:
                    # a rejected connection disturbs nothing
                    if obs["st"] != prev["st"] or (obs["lim_in"], obs["lim_out"]) != (prev["lim_in"], prev["lim_out"]):
                        v("reject-disturbs", f"rejecting {c} changed peer states or counters", i)
                pend_before = prev["pend"]
                fresh_id = c not in live_before and c not in {a["conn"] for a in g.ledger}
                if d == "listener" and not was.startswith("C") and fresh_id and \
                        (g.max_in is None or len({x for x, s in live_before.items() if any(dd == "listener" for _, dd in s)}) < g.max_in):
                    if not accepted:
                        v("below-limit-rejected", f"inbound connection from unconnected peer {p} below the limit was not accepted", i)
        if t[0] == "ev" and t[1] == "pendingin":
            n_in = len({x for x, s in live_before.items() if any(dd == "listener" for _, dd in s)})
            want = "acceptp" if (g.max_in is None or n_in < g.max_in) else "rejectp"
            if [x[0] for x in obs["calls"]] != [want]:
                v("pending-inbound", f"pending inbound socket answered {obs['calls']}, expected {want}", i)
    return bad


def matches_known(k, v):
    return False


# ---------------------------------------------------------------- the real connection end (engine: extra_cases)
# The manager releases a slot when the connection's ProtocolSet tells it `ConnectionClosed`
# (ProtocolSet::report_connection_closed, called by the connection task on every exit path). The `tcploop` area drives
# the REAL TcpConnection loop with a real ProtocolSet whose manager channel the adapter reads; here its cases (focus:
# protocols that shut down before the connection ends) are judged by `tcploop.oracle_c06`.
def extra_cases(rng, tier):
    from . import tcploop
    yield "TCPLOOP", tcploop.gen_cases(rng, tier, focus="C06")


def oracle_extra(xpid, case, out):
    from . import tcploop
    return [dict(v, msg="(real TcpConnection loop + ProtocolSet, tcploop area) " + v["msg"]) for v in tcploop.oracle_c06(case, out)]


def stats_extra(xpid, case, out, acc):
    from . import tcploop
    tcploop.stats(case, out, acc)


# ---------------------------------------------------------------- the close report itself (engine: extra_cases)
# "Capacity is released exactly when a counted connection closes": the manager releases a slot when
# `ProtocolSet::report_connection_closed` tells it. The c07 area drives that function with full / closed channels on
# both sides (protocols AND manager); judged here are its verdicts about the manager's report (seeded change C06-g1:
# `try_send` towards a full manager channel drops the report, the slot leaks).
from . import cross as _cross  # noqa: E402
_cross.install(globals(), "C07", "ProtocolSet close report, c07 area",
               keep=lambda v: "manager" in v["msg"], count={"quick": 200, "thorough": 4000, "search": 400})

# ---------------------------------------------------------------- real nodes through the public API (engine: extra_cases)
# `Litep2p::new` (src/lib.rs) and `ConfigBuilder` (src/config.rs) hand every protocol its configuration; the `node` area
# (checks/node.py) builds real nodes, compares the registration record with the wiring model (Model/Node/Wiring.lean)
# and judges this property's real-time scenarios at node level.
from . import node as _node  # noqa: E402
_node.install(globals())
