"""C18 — peer ids are canonical, round-trip and match the libp2p reference.

Model: lean/Litep2pVerif/Model/Id/{Varint,Multihash,PeerId,Base58}.lean; adapter: /repo/src/verif/c18.rs;
reference area (libp2p-identity 0.2.14 + multiaddr 0.18.2): harness/src/local/c18ref.rs. The harness area
`c18` runs the litep2p adapter and the reference side by side and answers `<litep2p> | <reference>`; the
model driver answers the same pair from its two independently transcribed models, so every input is
compared three ways."""
import hashlib
from .common import bump

ID = "C18"
AREA = "c18"
LEAN_PROPS = "Litep2pVerif.Props.C18"
THEOREMS = ["derive_rule", "derive_eq_reference", "ed25519_id_form", "print_parse", "parse_print_partial",
            "parse_print_witness", "base58_roundtrip", "text_roundtrip", "serde_roundtrip", "accepts_eq_reference",
            "into_multiaddr_total", "multiaddr_roundtrip", "parse_total"]
CONSTS = ["MAX_INLINE_KEY_LENGTH"]
CONST_TABLE = [
    ("MAX_INLINE_KEY_LENGTH", "src/peer_id.rs", r"const MAX_INLINE_KEY_LENGTH: usize = ([^;]+);", 42),
]
MANIFEST = {
    "text": "Lean 4 theorems about executable models of unsigned-varint's decode/read/encode loops (u64, incl. the silent "
            "truncation of the 10th byte), multihash read/write, litep2p's PeerId functions, an independently transcribed model "
            "of libp2p-identity's PeerId (the reference, = multiaddr::PeerId) and bs58's encode/decode loops: derivation rule, "
            "ed25519 id form, print/parse and (partial, with witness) parse/print canonicity, base58 and text/serde round trips, "
            "acceptance equal to the reference, the infallible conversion into multiaddr::PeerId never panics, total parsers. "
            "Every run ties the models to the code three ways (model / litep2p / libp2p-identity) on structured inputs.",
    "note": "Trusted: Lean kernel; axioms propext/Classical.choice/Quot.sound; the hand-written models and their tie (sampled "
            "differential runs through adapter src/verif/c18.rs and harness/src/local/c18ref.rs); SHA-256 is a parameter of the "
            "model (32-byte output assumed), computed by Python hashlib in the run; ed25519 point validity is taken from the "
            "implementation; multiaddr text/binary framing is compared, not modelled. parse_print is partial: unsigned-varint "
            "drops the high bits of a 10-byte varint, so non-canonical encodings are accepted (known finding c18-varint-trunc).",
    "technique": "Lean 4 proof (structural induction over the decode loops, positional-numeral uniqueness for base58) + "
                 "three-way model/implementation/reference correspondence check",
    "design_ref": "DESIGN.md §7 C18",
}
RULE = ("seeded inputs: multihash byte strings of codes 0x00/0x12/0x11/0x13/0x16/0xb220/multi-byte with digest lengths 0..70 "
        "(boundaries 32/42/43/64/65), non-minimal, truncating and overflowing varints, trailing bytes, truncations, random "
        "bytes; key blobs of 0..100 bytes and ed25519 keys; base58 strings (valid ids, leading '1's, invalid and non-ASCII "
        "characters, long strings); each through from_bytes, from_str, multiaddr, serde on litep2p, libp2p-identity and the "
        "model; a case is non-trivial if it has accepted and rejected inputs; distinct = distinct transcripts by SHA-256")
TRUSTED_BASE = ["Lean 4.33 kernel", "axioms: propext, Classical.choice, Quot.sound only",
                "hand-written models Model/Id/*.lean tied to peer_id.rs, unsigned-varint, multihash, bs58 and libp2p-identity "
                "by this three-way correspondence run",
                "adapter /repo/src/verif/c18.rs, harness (src/local/c18ref.rs), verif.py, checks/c18.py",
                "SHA-256 is a parameter of the model; values come from Python hashlib (h=…) and are compared with the real code",
                "ed25519 point validity (valid=…) and applicability of the reference to a key blob (ref=…) are taken from the "
                "implementation's answers (checker mode)",
                "multiaddr's text/binary component framing and serde data formats are exercised (round trips), not modelled"]
ASSUMPTIONS = ["hash output is 32 bytes (SHA-256)", "usize is 64 bits", "strings handed to from_str are valid UTF-8 (Rust &str)"]
KEEP_PREFIX = 0

ALPHA = "123456789ABCDEFGHJKLMNPQRSTUVWXYZabcdefghijkmnopqrstuvwxyz"
MAX_INLINE = 42


# ------------------------------------------------------------------ specification-level helpers

def varint(n):
    out = bytearray()
    while True:
        b = n & 0x7F
        n >>= 7
        if n == 0:
            out.append(b)
            return bytes(out)
        out.append(b | 0x80)


def mh(code, digest, size=None):
    return varint(code) + varint(len(digest) if size is None else size) + digest


def strict_varint(bs):
    """Minimal-encoding varint < 2^64 at the head of bs -> (value, length) or None."""
    n = 0
    for i, b in enumerate(bs[:10]):
        n |= (b & 0x7F) << (7 * i)
        if b < 0x80:
            if (b == 0 and i > 0) or n >= 1 << 64:
                return None
            return n, i + 1
    return None


def spec_valid(bs):
    """The specification: a peer id is code 0x12 with a digest of at most 64 bytes, or code 0x00 with at most 42
    bytes, minimally encoded, nothing after the digest."""
    a = strict_varint(bs)
    if not a:
        return False
    code, l1 = a
    b = strict_varint(bs[l1:])
    if not b:
        return False
    size, l2 = b
    if size > 64 or len(bs) != l1 + l2 + size:
        return False
    return code == 0x12 or (code == 0 and size <= MAX_INLINE)


def head_varint_lens(bs):
    """Lengths of the first two varints by continuation bits only."""
    res, pos = [], 0
    for _ in range(2):
        n = 0
        while pos + n < len(bs) and bs[pos + n] >= 0x80:
            n += 1
        n += 1
        res.append((pos, n))
        pos += n
    return res


def trunc_signature(bs):
    """Known finding c18-varint-trunc: one of the two header varints is 10 bytes long and its last byte has bits
    above bit 0 (which `k << 63` silently drops)."""
    for pos, n in head_varint_lens(bs):
        if n == 10 and pos + 9 < len(bs) and 0x02 <= bs[pos + 9] <= 0x7F:
            return True
    return False


def b58enc(bs):
    n = int.from_bytes(bs, "big")
    s = ""
    while n:
        s = ALPHA[n % 58] + s
        n //= 58
    z = len(bs) - len(bs.lstrip(b"\0"))
    return "1" * z + s


def b58dec(s):
    """-> bytes or ('char'|'nonascii', index) like bs58 (first offending byte of the UTF-8 form)."""
    raw = s.encode()
    n = 0
    for i, c in enumerate(raw):
        if c > 127:
            return ("nonascii", i)
        d = ALPHA.find(chr(c))
        if d < 0:
            return ("char", i)
        n = n * 58 + d
    z = len(s) - len(s.lstrip("1"))
    body = n.to_bytes((n.bit_length() + 7) // 8, "big")
    return b"\0" * z + body


def derive(blob):
    if len(blob) <= MAX_INLINE:
        return bytes([0, len(blob)]) + blob
    return bytes([0x12, 0x20]) + hashlib.sha256(blob).digest()


# ------------------------------------------------------------------ generator

CODES = [0x00, 0x12, 0x11, 0x13, 0x16, 0xb220, 0xb260, 0x01, 0x7f, 0x80, 0x1012, 0x3fff, 0x4000, 1 << 32, 1 << 63,
         (1 << 64) - 1, 0x1200, 0x92]
LENS = [0, 1, 20, 31, 32, 33, 41, 42, 43, 44, 63, 64, 65, 66, 70]


def rbytes(rng, n):
    return bytes(rng.getrandbits(8) for _ in range(n))


def pad_varint(n, total, last):
    """Over-long encoding of n: continuation bytes up to `total` bytes, final byte `last`."""
    out = bytearray()
    for i in range(total - 1):
        out.append((n >> (7 * i)) & 0x7F | 0x80)
    out.append(last)
    return bytes(out)


def gen_multihash(rng):
    """A valid or near-valid peer id byte string."""
    r = rng.random()
    code = rng.choice([0, 0x12]) if r < 0.55 else rng.choice(CODES) if r < 0.9 else rng.getrandbits(rng.choice([7, 14, 21, 64]))
    n = rng.choice(LENS) if rng.random() < 0.6 else rng.randrange(0, 71)
    if code == 0x12 and rng.random() < 0.5:
        n = 32
    if code == 0 and rng.random() < 0.3:
        n = 36
    digest = rbytes(rng, n)
    base = mh(code, digest)
    m = rng.random()
    if m < 0.55:
        return base
    if m < 0.62:      # trailing bytes
        return base + rbytes(rng, rng.choice([1, 1, 2, 5]))
    if m < 0.70:      # truncation
        return base[:rng.randrange(0, len(base))] if base else base
    if m < 0.76:      # size field disagrees with the digest
        return mh(code, digest, size=max(0, n + rng.choice([-2, -1, 1, 2, 200, 300])))
    if m < 0.82:      # non-minimal code or size (trailing zero byte)
        k = rng.choice([2, 3, 9, 10])
        if rng.random() < 0.5:
            return pad_varint(code % (1 << 62), k, 0) + varint(n) + digest
        return varint(code) + pad_varint(n, k, 0) + digest
    if m < 0.90:      # 10-byte varints: bit 63 set / truncated high bits / overflow
        last = rng.choice([0x01, 0x02, 0x03, 0x7e, 0x7f, 0x40, 0x81, 0xff])
        if rng.random() < 0.5:
            return pad_varint(code % (1 << 62), 10, last) + varint(n) + digest
        return varint(code) + pad_varint(n, 10, last) + digest
    if m < 0.94:      # too many continuation bytes
        return bytes([0x80 | rng.getrandbits(7) for _ in range(rng.choice([10, 11, 12]))]) + varint(n) + digest
    if m < 0.97:
        return rbytes(rng, rng.randrange(0, 80))
    return b""


def gen_string(rng):
    r = rng.random()
    if r < 0.5:
        s = b58enc(gen_multihash(rng))
    elif r < 0.6:
        s = "1" * rng.randrange(0, 6) + b58enc(gen_multihash(rng))
    elif r < 0.7:
        s = "".join(rng.choice(ALPHA) for _ in range(rng.randrange(0, 70)))
    elif r < 0.85:
        s = list(b58enc(gen_multihash(rng)) or "1")
        i = rng.randrange(0, len(s))
        s[i] = rng.choice(["0", "O", "I", "l", " ", "+", "/", "é", "€", "\x00", "\x7f", "~"])
        s = "".join(s)
    elif r < 0.9:
        s = "".join(chr(rng.randrange(1, 128)) for _ in range(rng.randrange(0, 20)))
    elif r < 0.95:
        s = rng.choice(["1", "11"]) * rng.randrange(0, 40)
    else:
        s = "".join(rng.choice(ALPHA) for _ in range(rng.choice([200, 400, 600])))
    return s


def hx(s):
    return "0x" + s.encode().hex()


def hb(b):
    return "0x" + b.hex()


def pk_line(blob):
    return f"frompk 0x{blob.hex()} h={hashlib.sha256(blob).hexdigest()}"


def gen_case(rng, n_ops):
    ops = []
    for _ in range(n_ops):
        r = rng.random()
        if r < 0.30:
            ops.append("frombytes " + hb(gen_multihash(rng)))
        elif r < 0.42:
            n = rng.choice([0, 1, 35, 36, 37, 41, 42, 43, 44, 64, 65, 100]) if rng.random() < 0.5 else rng.randrange(0, 101)
            blob = rbytes(rng, n)
            if rng.random() < 0.3:
                blob = bytes([8, 1, 0x12, 0x20]) + rbytes(rng, 32)
            ops.append(pk_line(blob))
        elif r < 0.48:
            ops.append("edid " + hb(rbytes(rng, rng.choice([32] * 12 + [31, 33, 0]))))
        elif r < 0.60:
            ops.append("fromstr " + hx(gen_string(rng)))
        elif r < 0.68:
            ops.append("b58dec " + hx(gen_string(rng)))
        elif r < 0.74:
            n = rng.choice([0, 1, 2, 34, 38, 66, 150])
            ops.append("b58enc " + hb(bytes(rng.randrange(0, 4)) + rbytes(rng, n)))
        elif r < 0.84:
            ops.append("tomultiaddr " + hb(gen_multihash(rng)))
        elif r < 0.92:
            ops.append("serde " + hb(gen_multihash(rng)))
        elif r < 0.96:
            ops.append("deser hr " + hx(gen_string(rng)))
        else:
            ops.append("deser bin " + hb(gen_multihash(rng)))
    return ops


def grid_cases(codes, lens, chunk=200):
    """Every (code, digest length) header pair, digest bytes fixed."""
    ops = []
    for c in codes:
        for n in lens:
            ops.append("frombytes " + hb(mh(c, bytes([(c + i) & 0xFF for i in range(n)]))))
            if len(ops) == chunk:
                yield ops
                ops = []
    if ops:
        yield ops


def corpus():
    z32 = bytes(32)
    sha_id = mh(0x12, bytes(range(32)))
    ed = bytes([8, 1, 0x12, 0x20]) + bytes(range(32))
    unit = bytes.fromhex("1620644bcc7e564373040999aac89e7622f3ca71fba1d972fd94a31c3bfbf24e3938")
    c = [
        # the known finding: 10-byte varints whose 10th byte carries bits that `<< 63` drops
        ["frombytes " + hb((pad_varint(0x12, 10, 0x02) + varint(32) + z32)),
         "frombytes " + hb((varint(0x12) + pad_varint(32, 10, 0x7e) + z32)),
         "frombytes " + hb((pad_varint(0, 10, 0x02) + varint(4) + b"abcd"))],
        # boundaries of the derivation and acceptance rules
        [pk_line(bytes(41)), pk_line(bytes(42)), pk_line(bytes(43)), pk_line(ed), pk_line(b""),
         "frombytes " + hb(mh(0, bytes(42))), "frombytes " + hb(mh(0, bytes(43))),
         "frombytes " + hb(mh(0x12, bytes(64))), "frombytes " + hb(mh(0x12, bytes(65))),
         "frombytes " + hb(mh(0x12, b"")), "frombytes " + hb(unit), "frombytes 0xff", "frombytes 0x",
         "tomultiaddr " + hb(mh(0, bytes(42))), "tomultiaddr " + hb(mh(0, bytes(43))),
         "tomultiaddr " + hb(mh(0x12, bytes(64))), "tomultiaddr " + hb(sha_id),
         "serde " + hb(sha_id), "serde " + hb(mh(0, ed)), "serde " + hb(mh(0, bytes(43))),
         "fromstr " + hx(b58enc(sha_id)), "fromstr " + hx("not base58: 0"), "fromstr " + hx(""),
         "fromstr " + hx("1" + b58enc(sha_id)), "deser hr " + hx(b58enc(mh(0, ed))), "deser bin " + hb(sha_id),
         "edid " + hb(bytes(32)), "edid 0x3b6a27bcceb6a42d62a3a8d02a6f0d73653215771de243a63ac048a18b59da29",
         "b58dec " + hx("11Ldp"), "b58dec " + hx("1O"), "b58dec " + hx("1é"), "b58enc 0x0000010203ff", "b58enc 0x"],
    ]
    return c


def gen_cases(rng, tier):
    n = {"quick": 260, "thorough": 42000, "search": 1500}[tier]
    for _ in range(n):
        yield gen_case(rng, rng.choice([10, 20, 30]))
    if tier == "quick":
        yield from grid_cases([0, 0x12, 0x11, 0x13, 0x16, 0xb220, 0x80, 0x1200], range(0, 71))
    elif tier == "search":
        yield from grid_cases(CODES, range(0, 71))
    else:
        # exhaustive header grid: every code below 2^14 (all 1- and 2-byte varints) with every digest length 0..70
        yield from grid_cases(range(0, 1 << 14), range(0, 71), chunk=500)
        yield from grid_cases(CODES, range(0, 71))


# ------------------------------------------------------------------ checker mode inputs for the model

def split_obs(o):
    if " | " in o:
        a, b = o.split(" | ", 1)
        return a, b
    return o, None


def model_lines(case, impl):
    """ed25519 point validity and the applicability of the reference to a key blob are outside the model: they
    are read off the implementation's answer and handed to the model as an input."""
    if impl is None:
        return case
    res = []
    for i, op in enumerate(case):
        o = impl[i] if i < len(impl) else ""
        a, b = split_obs(o)
        if op.startswith("edid "):
            op += " valid=" + ("0" if a == "err badkey" and b == "err badkey" else "1")
        elif op.startswith("frompk "):
            op += " ref=" + ("0" if b == "-" else "1")
        res.append(op)
    return res


# ------------------------------------------------------------------ oracle

def arg_bytes(t, i=1):
    return bytes.fromhex(t[i][2:]) if len(t) > i and t[i].startswith("0x") else b""


def oracle(case, out):
    bad = []

    def v(kind, msg, i, **kw):
        bad.append({"kind": kind, "msg": msg, "step": i, "op": case[i], "out": out[i] if i < len(out) else None, **kw})

    def check_parse(i, X, a, b, errs=("err multihash",), what="from_bytes"):
        """a = litep2p's answer to parsing the bytes X, b = the reference's (None if not applicable)."""
        ok = a.startswith("ok ")
        if b is not None and b != "-":
            if ok != b.startswith("ok "):
                v("accept-mismatch", f"{what}: litep2p says {a!r}, libp2p-identity says {b!r}", i)
            elif ok and a != b:
                v("value-mismatch", f"{what}: litep2p parsed {a!r}, libp2p-identity {b!r}", i)
        if spec_valid(X):
            if a != "ok " + X.hex():
                v("reject-valid", f"{what} answered {a!r} for the valid peer id {X.hex()}", i)
        elif ok:
            Y = bytes.fromhex(a[3:])
            if spec_valid(Y) and trunc_signature(X):
                # OBSERVATION, not a violation of C18 as stated: unsigned-varint 0.8 drops the high bits of a
                # 10th varint byte, so these non-canonical bytes parse (identically in the reference) to a valid id
                # that re-prints canonically. Lean: parse_print_witness / parse_print_partial.
                pass
            else:
                v("accept-invalid", f"{what} accepted the invalid peer id {X.hex()} as {a!r}", i)
        elif a not in errs:
            v("error-class", f"{what} answered {a!r}", i)

    for i, op in enumerate(case):
        if i >= len(out):
            break
        o = out[i]
        t = op.split()
        if o.startswith("panic"):
            v("panic", f"panic in {t[0]}: {o}", i)
            break
        if o == "skipped":
            break
        if o == "bad-op" or not t:
            continue
        a, b = split_obs(o)
        try:
            if t[0] == "frombytes":
                check_parse(i, arg_bytes(t), a, b)
            elif t[0] == "frompk":
                blob = arg_bytes(t)
                want = "ok " + derive(blob).hex()
                if a != want:
                    v("derive", f"peer id of a {len(blob)}-byte key encoding is {a!r}, the rule says {want!r}", i)
                if b not in (None, "-") and b != a:
                    v("derive-reference", f"litep2p derives {a!r}, libp2p-identity {b!r}", i)
            elif t[0] == "edid":
                key = arg_bytes(t)
                if a != b:
                    v("derive-reference", f"ed25519 key: litep2p {a!r}, libp2p-identity {b!r}", i)
                if a.startswith("ok ") and a != "ok 002408011220" + key.hex():
                    v("ed25519-form", f"ed25519 peer id {a!r} is not 00 24 08 01 12 20 ‖ key", i)
                if not a.startswith("ok ") and a != "err badkey":
                    v("error-class", f"edid answered {a!r}", i)
            elif t[0] in ("fromstr", "deser") :
                hr = t[0] == "fromstr" or t[1] == "hr"
                raw = arg_bytes(t, 1 if t[0] == "fromstr" else 2)
                errs = ("err invalid",) if t[0] == "deser" else ("err multihash",)
                if hr:
                    X = b58dec(raw.decode())
                    if isinstance(X, tuple):
                        want = "err invalid" if t[0] == "deser" else "err b58"
                        if a != want:
                            v("b58-accept", f"{t[0]} answered {a!r} for a string that is not base58", i)
                        if b not in (None, "-") and b != "err b58":
                            v("accept-mismatch", f"reference answered {b!r} for a string that is not base58", i)
                        continue
                    check_parse(i, X, a, b, errs, "from_str")
                else:
                    check_parse(i, raw, a, b, errs, "deserialize")
            elif t[0] == "b58dec":
                X = b58dec(arg_bytes(t).decode())
                want = f"err b58:{X[0]}:{X[1]}" if isinstance(X, tuple) else "ok " + X.hex()
                if a != want:
                    v("base58", f"base58 decoding gave {a!r}, expected {want!r}", i)
            elif t[0] == "b58enc":
                want = "ok " + b58enc(arg_bytes(t))
                if a.strip() != want.strip():
                    v("base58", f"base58 encoding gave {a!r}, expected {want!r}", i)
            elif t[0] == "tomultiaddr":
                X = arg_bytes(t)
                if a.startswith("err diverge") or a.startswith("err spurious"):
                    v("multiaddr-roundtrip", f"multiaddr round trip of {X.hex()}: {a!r}", i)
                    continue
                if b is not None and (b.startswith("err diverge")):
                    v("multiaddr-reference", f"multiaddr text and binary forms disagree on {X.hex()}: {b!r}", i)
                    continue
                check_parse(i, X, a, b, ("err multihash",), "multiaddr round trip")
            elif t[0] == "serde":
                X = arg_bytes(t)
                if spec_valid(X):
                    want = f"ok {b58enc(X)} {X.hex()}"
                    if a != want:
                        v("serde-roundtrip", f"serde of {X.hex()} gave {a!r}, expected {want!r}", i)
                elif a.startswith("ok "):
                    s, y = a.split()[1:3]
                    Y = bytes.fromhex(y)
                    if spec_valid(Y) and trunc_signature(X) and s == b58enc(Y):
                        pass    # same observation as above
                    else:
                        v("accept-invalid", f"serde accepted the invalid peer id {X.hex()}: {a!r}", i)
                elif a != "err multihash":
                    v("serde-roundtrip", f"serde of {X.hex()}: {a!r}", i)
        except (ValueError, IndexError, UnicodeDecodeError):
            continue
    return bad


def stats(case, out, acc):
    for op, o in zip(case, out):
        t = op.split()
        a, b = split_obs(o)
        cls = a.split()[0] + (" " + a.split()[1] if a.startswith("err") and len(a.split()) > 1 else "")
        cls = cls.split(":")[0] + (":" + cls.split(":")[1] if ":" in cls else "")
        bump(acc, f"{t[0]}:{cls}")
        if t[0] == "frombytes" and len(t) > 1:
            X = arg_bytes(t)
            bump(acc, "frombytes-len:%d" % (10 * (len(X) // 10)))
            if trunc_signature(X):
                bump(acc, "frombytes:10-byte-varint-truncating")
        if t[0] == "frompk" and len(t) > 1:
            n = len(arg_bytes(t))
            bump(acc, "frompk:" + ("<=42" if n <= 42 else ">42"))
            if b not in (None, "-"):
                bump(acc, "frompk:reference-applicable")
    bump(acc, "cases")


def nontrivial(case, out):
    return any(o.startswith("ok ") for o in out) and any(o.startswith("err ") for o in out)


def matches_known(k, v):
    sig = k.get("signature", {})
    return v.get("kind") == sig.get("kind") and v.get("sig") == sig.get("sig")
