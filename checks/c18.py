"""C18 — peer ids are canonical, round-trip and match the libp2p reference.

Model: lean/Litep2pVerif/Model/Id/{Varint,Multihash,PeerId,Base58}.lean; adapter: /repo/src/verif/c18.rs;
reference area (libp2p-identity 0.2.14 + multiaddr 0.18.2): harness/src/local/c18ref.rs. The harness area
`c18` runs the litep2p adapter and the reference side by side and answers `<litep2p> | <reference>`; the
model driver answers the same pair from its two independently transcribed models, so every input is
compared three ways."""
import hashlib
from .common import bump

ID = "C18"
AREA = "c18"
LEAN_PROPS = "Litep2pVerif.Props.C18"
THEOREMS = ["key_bytes_roundtrip", "keypair_parse_sound", "key_length_rules", "verify_total",
            "derive_rule", "derive_eq_reference", "ed25519_id_form", "print_parse", "parse_print_partial",
            "parse_print_witness", "base58_roundtrip", "text_roundtrip", "serde_roundtrip", "accepts_eq_reference",
            "into_multiaddr_total", "multiaddr_roundtrip", "parse_total"]
CONSTS = ["MAX_INLINE_KEY_LENGTH"]
CONST_TABLE = [
    ("MAX_INLINE_KEY_LENGTH", "src/peer_id.rs", r"const MAX_INLINE_KEY_LENGTH: usize = ([^;]+);", 42),
]
MANIFEST = {
    "text": "Lean 4 theorems about executable models of unsigned-varint's decode/read/encode loops (u64, incl. the silent "
            "truncation of the 10th byte), multihash read/write, litep2p's PeerId functions, an independently transcribed model "
            "of libp2p-identity's PeerId (the reference, = multiaddr::PeerId) and bs58's encode/decode loops: derivation rule, "
            "ed25519 id form, print/parse and (partial, with witness) parse/print canonicity, base58 and text/serde round trips, "
            "acceptance equal to the reference, the infallible conversion into multiaddr::PeerId never panics, total parsers. "
            "Every run ties the models to the code three ways (model / litep2p / libp2p-identity) on structured inputs. "
            "Coverage round: the ed25519 key material of src/crypto/ed25519.rs and crypto/mod.rs — Keypair/SecretKey/PublicKey "
            "byte forms (length rules, zeroing of the caller's buffer on success only, consistency of the two keypair halves), "
            "verify on malformed signatures, protobuf key blobs through both PublicKey and RemotePublicKey, and the remaining "
            "PeerId conversions (TryFrom<Vec<u8>>, TryFrom<Multihash>, Into<Multihash>) — with the curve arithmetic as a "
            "parameter (key_bytes_roundtrip, keypair_parse_sound, key_length_rules, verify_total), compared three ways.",
    "note": "Trusted: Lean kernel; axioms propext/Classical.choice/Quot.sound; the hand-written models and their tie (sampled "
            "differential runs through adapter src/verif/c18.rs and harness/src/local/c18ref.rs); SHA-256 is a parameter of the "
            "model (32-byte output assumed), computed by Python hashlib in the run; ed25519 point validity is taken from the "
            "implementation; for the key operations the curve facts (public key derived from a seed, point validity, signature "
            "validity) come from libp2p-identity/ed25519-dalek on the reference side and test vectors computed once with it; multiaddr text/binary framing is compared, not modelled. parse_print is partial: unsigned-varint "
            "drops the high bits of a 10-byte varint, so non-canonical encodings are accepted (known finding c18-varint-trunc).",
    "technique": "Lean 4 proof (structural induction over the decode loops, positional-numeral uniqueness for base58) + "
                 "three-way model/implementation/reference correspondence check",
    "design_ref": "DESIGN.md §7 C18",
}
RULE = ("seeded inputs: multihash byte strings of codes 0x00/0x12/0x11/0x13/0x16/0xb220/multi-byte with digest lengths 0..70 "
        "(boundaries 32/42/43/64/65), non-minimal, truncating and overflowing varints, trailing bytes, truncations, random "
        "bytes; key blobs of 0..100 bytes and ed25519 keys; base58 strings (valid ids, leading '1's, invalid and non-ASCII "
        "characters, long strings); each through from_bytes, from_str, multiaddr, serde on litep2p, libp2p-identity and the "
        "model; keypair buffers (valid, halves of different keys, flipped bits, invalid points, lengths 0..72), secret/public "
        "keys of every nearby length, protobuf key blobs (other types, wrong length prefixes, swapped/missing/repeated/unknown "
        "fields, truncations), signatures (valid, flipped, wrong key/message, lengths 0..128, all-zero/all-ff) and conv; a case is non-trivial if it has accepted and rejected inputs; distinct = distinct transcripts by SHA-256")
TRUSTED_BASE = ["Lean 4.33 kernel", "axioms: propext, Classical.choice, Quot.sound only",
                "hand-written models Model/Id/*.lean tied to peer_id.rs, unsigned-varint, multihash, bs58 and libp2p-identity "
                "by this three-way correspondence run",
                "adapter /repo/src/verif/c18.rs, harness (src/local/c18ref.rs), verif.py, checks/c18.py",
                "SHA-256 is a parameter of the model; values come from Python hashlib (h=…) and are compared with the real code",
                "ed25519 point validity (valid=…) and applicability of the reference to a key blob (ref=…) are taken from the "
                "implementation's answers (checker mode)",
                "multiaddr's text/binary component framing and serde data formats are exercised (round trips), not modelled",
                "ed25519-dalek's curve arithmetic is the parameter `Curve` of Model/Id/Keys.lean; its values come from the "
                "reference side (derive=/valid=/sigok=/sig=) and the embedded test vectors KEYS/SIGS of checks/c18.py; "
                "libp2p-identity's protobuf key decoding is compared only where both sides accept"]
ASSUMPTIONS = ["hash output is 32 bytes (SHA-256)", "usize is 64 bits", "strings handed to from_str are valid UTF-8 (Rust &str)",
               "a signature made by ed25519-dalek verifies under the matching key (edsign … v=1 is echoed, not derived)"]
KEEP_PREFIX = 0

ALPHA = "123456789ABCDEFGHJKLMNPQRSTUVWXYZabcdefghijkmnopqrstuvwxyz"
MAX_INLINE = 42


# ------------------------------------------------------------------ specification-level helpers

def varint(n):
    out = bytearray()
    while True:
        b = n & 0x7F
        n >>= 7
        if n == 0:
            out.append(b)
            return bytes(out)
        out.append(b | 0x80)


def mh(code, digest, size=None):
    return varint(code) + varint(len(digest) if size is None else size) + digest


def strict_varint(bs):
    """Minimal-encoding varint < 2^64 at the head of bs -> (value, length) or None."""
    n = 0
    for i, b in enumerate(bs[:10]):
        n |= (b & 0x7F) << (7 * i)
        if b < 0x80:
            if (b == 0 and i > 0) or n >= 1 << 64:
                return None
            return n, i + 1
    return None


def spec_valid(bs):
    """The specification: a peer id is code 0x12 with a digest of at most 64 bytes, or code 0x00 with at most 42
    bytes, minimally encoded, nothing after the digest."""
    a = strict_varint(bs)
    if not a:
        return False
    code, l1 = a
    b = strict_varint(bs[l1:])
    if not b:
        return False
    size, l2 = b
    if size > 64 or len(bs) != l1 + l2 + size:
        return False
    return code == 0x12 or (code == 0 and size <= MAX_INLINE)


def head_varint_lens(bs):
    """Lengths of the first two varints by continuation bits only."""
    res, pos = [], 0
    for _ in range(2):
        n = 0
        while pos + n < len(bs) and bs[pos + n] >= 0x80:
            n += 1
        n += 1
        res.append((pos, n))
        pos += n
    return res


def trunc_signature(bs):
    """Known finding c18-varint-trunc: one of the two header varints is 10 bytes long and its last byte has bits
    above bit 0 (which `k << 63` silently drops)."""
    for pos, n in head_varint_lens(bs):
        if n == 10 and pos + 9 < len(bs) and 0x02 <= bs[pos + 9] <= 0x7F:
            return True
    return False


def b58enc(bs):
    n = int.from_bytes(bs, "big")
    s = ""
    while n:
        s = ALPHA[n % 58] + s
        n //= 58
    z = len(bs) - len(bs.lstrip(b"\0"))
    return "1" * z + s


def b58dec(s):
    """-> bytes or ('char'|'nonascii', index) like bs58 (first offending byte of the UTF-8 form)."""
    raw = s.encode()
    n = 0
    for i, c in enumerate(raw):
        if c > 127:
            return ("nonascii", i)
        d = ALPHA.find(chr(c))
        if d < 0:
            return ("char", i)
        n = n * 58 + d
    z = len(s) - len(s.lstrip("1"))
    body = n.to_bytes((n.bit_length() + 7) // 8, "big")
    return b"\0" * z + body


def derive(blob):
    if len(blob) <= MAX_INLINE:
        return bytes([0, len(blob)]) + blob
    return bytes([0x12, 0x20]) + hashlib.sha256(blob).digest()


# ------------------------------------------------------------------ generator

CODES = [0x00, 0x12, 0x11, 0x13, 0x16, 0xb220, 0xb260, 0x01, 0x7f, 0x80, 0x1012, 0x3fff, 0x4000, 1 << 32, 1 << 63,
         (1 << 64) - 1, 0x1200, 0x92]
LENS = [0, 1, 20, 31, 32, 33, 41, 42, 43, 44, 63, 64, 65, 66, 70]


def rbytes(rng, n):
    return bytes(rng.getrandbits(8) for _ in range(n))


def pad_varint(n, total, last):
    """Over-long encoding of n: continuation bytes up to `total` bytes, final byte `last`."""
    out = bytearray()
    for i in range(total - 1):
        out.append((n >> (7 * i)) & 0x7F | 0x80)
    out.append(last)
    return bytes(out)


def gen_multihash(rng):
    """A valid or near-valid peer id byte string."""
    r = rng.random()
    code = rng.choice([0, 0x12]) if r < 0.55 else rng.choice(CODES) if r < 0.9 else rng.getrandbits(rng.choice([7, 14, 21, 64]))
    n = rng.choice(LENS) if rng.random() < 0.6 else rng.randrange(0, 71)
    if code == 0x12 and rng.random() < 0.5:
        n = 32
    if code == 0 and rng.random() < 0.3:
        n = 36
    digest = rbytes(rng, n)
    base = mh(code, digest)
    m = rng.random()
    if m < 0.55:
        return base
    if m < 0.62:      # trailing bytes
        return base + rbytes(rng, rng.choice([1, 1, 2, 5]))
    if m < 0.70:      # truncation
        return base[:rng.randrange(0, len(base))] if base else base
    if m < 0.76:      # size field disagrees with the digest
        return mh(code, digest, size=max(0, n + rng.choice([-2, -1, 1, 2, 200, 300])))
    if m < 0.82:      # non-minimal code or size (trailing zero byte)
        k = rng.choice([2, 3, 9, 10])
        if rng.random() < 0.5:
            return pad_varint(code % (1 << 62), k, 0) + varint(n) + digest
        return varint(code) + pad_varint(n, k, 0) + digest
    if m < 0.90:      # 10-byte varints: bit 63 set / truncated high bits / overflow
        last = rng.choice([0x01, 0x02, 0x03, 0x7e, 0x7f, 0x40, 0x81, 0xff])
        if rng.random() < 0.5:
            return pad_varint(code % (1 << 62), 10, last) + varint(n) + digest
        return varint(code) + pad_varint(n, 10, last) + digest
    if m < 0.94:      # too many continuation bytes
        return bytes([0x80 | rng.getrandbits(7) for _ in range(rng.choice([10, 11, 12]))]) + varint(n) + digest
    if m < 0.97:
        return rbytes(rng, rng.randrange(0, 80))
    return b""


def gen_string(rng):
    r = rng.random()
    if r < 0.5:
        s = b58enc(gen_multihash(rng))
    elif r < 0.6:
        s = "1" * rng.randrange(0, 6) + b58enc(gen_multihash(rng))
    elif r < 0.7:
        s = "".join(rng.choice(ALPHA) for _ in range(rng.randrange(0, 70)))
    elif r < 0.85:
        s = list(b58enc(gen_multihash(rng)) or "1")
        i = rng.randrange(0, len(s))
        s[i] = rng.choice(["0", "O", "I", "l", " ", "+", "/", "é", "€", "\x00", "\x7f", "~"])
        s = "".join(s)
    elif r < 0.9:
        s = "".join(chr(rng.randrange(1, 128)) for _ in range(rng.randrange(0, 20)))
    elif r < 0.95:
        s = rng.choice(["1", "11"]) * rng.randrange(0, 40)
    else:
        s = "".join(rng.choice(ALPHA) for _ in range(rng.choice([200, 400, 600])))
    return s


def hx(s):
    return "0x" + s.encode().hex()


def hb(b):
    return "0x" + b.hex()


def pk_line(blob):
    return f"frompk 0x{blob.hex()} h={hashlib.sha256(blob).hexdigest()}"


def gen_case(rng, n_ops):
    ops = []
    for _ in range(n_ops):
        r = rng.random()
        if r < 0.30:
            ops.append("frombytes " + hb(gen_multihash(rng)))
        elif r < 0.42:
            n = rng.choice([0, 1, 35, 36, 37, 41, 42, 43, 44, 64, 65, 100]) if rng.random() < 0.5 else rng.randrange(0, 101)
            blob = rbytes(rng, n)
            if rng.random() < 0.3:
                blob = bytes([8, 1, 0x12, 0x20]) + rbytes(rng, 32)
            ops.append(pk_line(blob))
        elif r < 0.48:
            ops.append("edid " + hb(rbytes(rng, rng.choice([32] * 12 + [31, 33, 0]))))
        elif r < 0.60:
            ops.append("fromstr " + hx(gen_string(rng)))
        elif r < 0.68:
            ops.append("b58dec " + hx(gen_string(rng)))
        elif r < 0.74:
            n = rng.choice([0, 1, 2, 34, 38, 66, 150])
            ops.append("b58enc " + hb(bytes(rng.randrange(0, 4)) + rbytes(rng, n)))
        elif r < 0.84:
            ops.append("tomultiaddr " + hb(gen_multihash(rng)))
        elif r < 0.92:
            ops.append("serde " + hb(gen_multihash(rng)))
        elif r < 0.96:
            ops.append("deser hr " + hx(gen_string(rng)))
        else:
            ops.append("deser bin " + hb(gen_multihash(rng)))
    return ops


# ------------------------------------------------------------------ ed25519 key material (coverage round)
# (secret seed, public key) pairs and signatures computed once with ed25519-dalek through the harness
KEYS = [('ebfa4601b9f6b6d3373d231317e46cb9542e4b78e0459245c3ead8b59b31837f', 'bdb7d852db2ca3d361ec90c623d20ef90cdc05afdfeb934d234a0d4641752325'),
        ('56045463bc746fd6edbca6f9b894dccc22e21b3ece9b988ad8f54584608cc3be', '6caf91595f2ab7cc9eb619dd3c6bdfb1352f97acd6da5b0b314e6548cf80bb5a'),
        ('94193baf40a2f6e3cef7e5c883f9916c40d851e7d4a40dffaaa883cb536efed4', '57da48f93723a6d5f9eb82b7371b6243d411adfeb7f8ff5153878bdcf0180b37'),
        ('99f8a15b8a566c6d6f3b70846b87eca7eb9035ee910b6ce6c7f79f243185a4ac', 'c85e0ca129739b72db22896aa018523bf30d299453efad3445514e4885f62869'),
        ('ee8cc77b923b0e28e05a3aac0eb267bb97d83895f27ee2d423302e3819f54431', '3c5e5a4c57287bc1814728bb0940d4fe471dac94169a011418c67d7ae27fa9fb'),
        ('78360a2441f364fc896041facb21a8ac41164df8d1dbbd2c8c51b4d70c76b72d', '0b5dbaeda782126735822209bec8154aa73e25307e3922864bae6e37cfee1b45'),
        ('78bdedeee33063c033e8d2135f8c808d2323ba8414be023328b8f9a7e73409df', 'ed36e508c2e8a456887b7092c1ede8ee859d92a4cfe4f80fb9634898516e4144'),
        ('6ab974cf7361cc9070cba974d585e2a2858a39728843fd52fe46b6fa97bc224c', '3c639e7448c6087417ef2ac6fbbeff5f0f6393b8997358295f05dd63687f5930')]
_NOISE = '6e6f6973652d6c69627032702d7374617469632d6b65793a000102030405060708090a0b0c0d0e0f101112131415161718191a1b1c1d1e1f'
SIGS = [(0, '', 'd44bacc92ec475d8a36ace8ef5ce64f3dccf9b7ee1b48d6b2533eca29ecbef8ee1c4aaccfac3605f4d1322e8bd624a4e84cf72c0a6c959859264a4d7d32e500f'),
        (0, _NOISE, '74471ab2609734c7dbf16e1714c4b2339505ff1ce1721f21e1ff1bc08e9b9948b93e28867d5e692c3d7048718202ae4e395e2a6b1b05bd4cae136dfca7d6500e'),
        (0, '616263', 'ab3f68a8d484dd749b7872dd82c4c362b190ded1c7fdcbbf135d36315e22c2ce43f40e968f272a7f7aab4e9586d09f0ece20500b22956b1e07b131497fc7940a'),
        (1, '', '158fcff3c1a68548a91cac5f5f117b7abcb64815631d698d74ca0843ce00420f3fae9d2cd5ef1aad70929a9560e1ec3625ad03a25d2e7af8b1328a519660cf00'),
        (1, _NOISE, '153b80e507a4c47dddc35968f14ecb1de7e4d89237dce1d9fd7b391a967da24b634488715e6161a9c35806611e1ce6e1d49f2a9c70dfe391e47d7544963ed90a'),
        (1, '616263', '0ca5a4eabcb761aae97f31eca7b7453dfce9f2f06c1a8b602041f3e92d51dc8345662031bf84bc4d94ac520ba4f7188dcc1027be12fafad1c60612f51d63d204'),
        (2, '', '8bc96297390f0eb5294f62449ba3707c308f0d6af836d3f6b827ad31e04d9cb347203bda28e3cb7e868966cee6c43006456fecef71f4ccec172c44c497fcfc08'),
        (2, _NOISE, 'c80c324c31197126fd8d47d68979836bf352323220cc0f9eba10c543fd9e01ab71275998c9c975b9d85856ece9cce8980fa265b2704b22b6a5f8d0490ae0eb03'),
        (2, '616263', '56bcddf2ade670cca42897737de897f14a4a302f9ca7e5fb48e76471e21c39f591ae6f12aee24b40c4ad4deae88e2932b0668e5d1272afba33b00498ddd98a02'),
        (3, '', '5456dd444b7bf673f025de5d04fa703a205c7b5ea2a355b5c32d37a57745b3f997192033ec84e33cb6097f7faf9df7d05593937de57f66a1edb0ee953df09b0e'),
        (3, _NOISE, '2059990973ac0873fcf0ffc2a20bed9f1f4222e2e4970df47c8a8e126b6458b7e170b06f2d17344307d958f1e77ad3c04208fa1a3246905b6679886f885f7402'),
        (3, '616263', '0246a43644ec0224e1a1e19d01216eeda904e5a1802036bc4a70babf2e0b9bc40d11437fd1bb25d6913feb3771d6ca699492864959c23977776593d627585d06')]
# a 32-byte string that is not a curve point (y = 2 has no x), and small-order / non-canonical encodings
BAD_POINTS = ["0200000000000000000000000000000000000000000000000000000000000000",
              "ffffffffffffffffffffffffffffffffffffffffffffffffffffffffffffffff"]


def flip(b, rng):
    b = bytearray(b)
    if b:
        k = rng.randrange(len(b))
        b[k] ^= 1 << rng.randrange(8)
    return bytes(b)


def gen_keys(rng, n_ops):
    """Keypair / secret key / public key byte forms, protobuf key blobs, signature verification with malformed
    signatures, and the remaining PeerId conversions."""
    ops = []
    for _ in range(n_ops):
        sk, pk = (bytes.fromhex(x) for x in rng.choice(KEYS))
        r = rng.random()
        if r < 0.22:
            q = rng.random()
            if q < 0.35:
                buf = sk + pk
            elif q < 0.5:
                buf = sk + bytes.fromhex(rng.choice(KEYS)[1])                # public half of another key
            elif q < 0.6:
                buf = flip(sk + pk, rng)
            elif q < 0.7:
                buf = sk + bytes.fromhex(rng.choice(BAD_POINTS))
            elif q < 0.85:
                buf = (sk + pk + rbytes(rng, 8))[:rng.choice([0, 1, 31, 32, 33, 63, 65, 72])]
            else:
                buf = rbytes(rng, 64)
            ops.append("kpbytes " + hb(buf))
        elif r < 0.34:
            n = rng.choice([32] * 6 + [0, 1, 31, 33, 64])
            ops.append("skbytes " + hb((sk + rbytes(rng, 32))[:n]))
        elif r < 0.44:
            q = rng.random()
            k = pk if q < 0.5 else bytes.fromhex(rng.choice(BAD_POINTS)) if q < 0.6 else rbytes(rng, 32) if q < 0.75 else \
                (pk + pk)[:rng.choice([0, 31, 33, 64])]
            ops.append("pkbytes " + hb(k))
        elif r < 0.60:
            q = rng.random()
            canon = bytes([8, 1, 0x12, 0x20]) + pk
            if q < 0.3:
                blob = canon
            elif q < 0.4:
                blob = bytes([8, rng.choice([0, 2, 3, 4, 0x7f]), 0x12, 0x20]) + pk       # other key types
            elif q < 0.5:
                blob = bytes([8, 1, 0x12, rng.choice([0x1f, 0x21, 0])]) + pk             # wrong length prefix
            elif q < 0.58:
                blob = bytes([0x12, 0x20]) + pk + bytes([8, 1])                          # fields swapped
            elif q < 0.66:
                blob = bytes([0x12, 0x20]) + pk                                          # type missing
            elif q < 0.72:
                blob = canon + bytes([0x18, 5])                                          # unknown field
            elif q < 0.78:
                blob = bytes([8, 0]) + canon                                             # type repeated: last wins
            elif q < 0.84:
                blob = bytes([8, 1, 0x12, 0x20]) + bytes.fromhex(rng.choice(BAD_POINTS))
            elif q < 0.92:
                blob = flip(canon, rng)
            else:
                blob = canon[:rng.randrange(0, len(canon))]
            ops.append("pkproto " + hb(blob))
        elif r < 0.82:
            i, msg, sig = rng.choice(SIGS)
            key = bytes.fromhex(KEYS[i][1])
            msg, sig = bytes.fromhex(msg), bytes.fromhex(sig)
            q = rng.random()
            if q < 0.3:
                pass
            elif q < 0.42:
                sig = flip(sig, rng)
            elif q < 0.52:
                msg = flip(msg, rng) if msg else b"x"
            elif q < 0.6:
                key = bytes.fromhex(rng.choice(KEYS)[1])
            elif q < 0.85:
                sig = (sig + sig)[:rng.choice([0, 1, 32, 63, 65, 96, 128])]             # malformed lengths
            elif q < 0.92:
                sig = bytes(64) if rng.random() < 0.5 else b"\xff" * 64
            else:
                key = bytes.fromhex(rng.choice(BAD_POINTS)) if rng.random() < 0.5 else key[:31]
            ops.append(f"edverify {hb(key)} {hb(msg)} {hb(sig)}")
        elif r < 0.88:
            n = rng.choice([32] * 5 + [31, 33, 0])
            ops.append(f"edsign {hb((sk + sk)[:n])} {hb(rbytes(rng, rng.choice([0, 3, 56])))}")
        else:
            ops.append("conv " + hb(gen_multihash(rng)))
    return ops


def grid_cases(codes, lens, chunk=200):
    """Every (code, digest length) header pair, digest bytes fixed."""
    ops = []
    for c in codes:
        for n in lens:
            ops.append("frombytes " + hb(mh(c, bytes([(c + i) & 0xFF for i in range(n)]))))
            if len(ops) == chunk:
                yield ops
                ops = []
    if ops:
        yield ops


def corpus():
    z32 = bytes(32)
    sha_id = mh(0x12, bytes(range(32)))
    ed = bytes([8, 1, 0x12, 0x20]) + bytes(range(32))
    unit = bytes.fromhex("1620644bcc7e564373040999aac89e7622f3ca71fba1d972fd94a31c3bfbf24e3938")
    c = [
        # the known finding: 10-byte varints whose 10th byte carries bits that `<< 63` drops
        ["frombytes " + hb((pad_varint(0x12, 10, 0x02) + varint(32) + z32)),
         "frombytes " + hb((varint(0x12) + pad_varint(32, 10, 0x7e) + z32)),
         "frombytes " + hb((pad_varint(0, 10, 0x02) + varint(4) + b"abcd"))],
        # boundaries of the derivation and acceptance rules
        [pk_line(bytes(41)), pk_line(bytes(42)), pk_line(bytes(43)), pk_line(ed), pk_line(b""),
         "frombytes " + hb(mh(0, bytes(42))), "frombytes " + hb(mh(0, bytes(43))),
         "frombytes " + hb(mh(0x12, bytes(64))), "frombytes " + hb(mh(0x12, bytes(65))),
         "frombytes " + hb(mh(0x12, b"")), "frombytes " + hb(unit), "frombytes 0xff", "frombytes 0x",
         "tomultiaddr " + hb(mh(0, bytes(42))), "tomultiaddr " + hb(mh(0, bytes(43))),
         "tomultiaddr " + hb(mh(0x12, bytes(64))), "tomultiaddr " + hb(sha_id),
         "serde " + hb(sha_id), "serde " + hb(mh(0, ed)), "serde " + hb(mh(0, bytes(43))),
         "fromstr " + hx(b58enc(sha_id)), "fromstr " + hx("not base58: 0"), "fromstr " + hx(""),
         "fromstr " + hx("1" + b58enc(sha_id)), "deser hr " + hx(b58enc(mh(0, ed))), "deser bin " + hb(sha_id),
         "edid " + hb(bytes(32)), "edid 0x3b6a27bcceb6a42d62a3a8d02a6f0d73653215771de243a63ac048a18b59da29",
         "b58dec " + hx("11Ldp"), "b58dec " + hx("1O"), "b58dec " + hx("1é"), "b58enc 0x0000010203ff", "b58enc 0x"],
    ]
    k0s, k0p = (bytes.fromhex(x) for x in KEYS[0])
    sig0 = bytes.fromhex(SIGS[0][2])
    c.append(["kpbytes " + hb(k0s + k0p), "kpbytes " + hb(k0s + bytes.fromhex(KEYS[1][1])), "kpbytes " + hb(k0s + k0p[:31]),
              "kpbytes " + hb(k0s + k0p + b"\0"), "kpbytes 0x", "skbytes " + hb(k0s), "skbytes " + hb(k0s[:31]), "skbytes " + hb(k0s + b"\0"),
              "pkbytes " + hb(k0p), "pkbytes " + hb(k0p[:31]), "pkbytes 0x" + BAD_POINTS[0],
              "pkproto " + hb(bytes([8, 1, 0x12, 0x20]) + k0p), "pkproto " + hb(bytes([8, 0, 0x12, 0x20]) + k0p), "pkproto 0x0801", "pkproto 0x",
              f"edverify {hb(k0p)} 0x {hb(sig0)}", f"edverify {hb(k0p)} 0x {hb(sig0[:63])}", f"edverify {hb(k0p)} 0x {hb(sig0 + b'x')}",
              f"edverify {hb(k0p)} 0x 0x", f"edverify {hb(k0p)} 0x61 {hb(sig0)}", f"edsign {hb(k0s)} 0x616263",
              "conv " + hb(mh(0x12, bytes(32))), "conv " + hb(mh(0x13, bytes(32))), "conv 0x"])
    return c


def gen_cases(rng, tier):
    n = {"quick": 260, "thorough": 42000, "search": 1500}[tier]
    for _ in range(n):
        yield gen_case(rng, rng.choice([10, 20, 30]))
    for _ in range({"quick": 80, "thorough": 6000, "search": 400}[tier]):
        yield gen_keys(rng, rng.choice([10, 20, 30]))
    if tier == "quick":
        yield from grid_cases([0, 0x12, 0x11, 0x13, 0x16, 0xb220, 0x80, 0x1200], range(0, 71))
    elif tier == "search":
        yield from grid_cases(CODES, range(0, 71))
    else:
        # exhaustive header grid: every code below 2^14 (all 1- and 2-byte varints) with every digest length 0..70
        yield from grid_cases(range(0, 1 << 14), range(0, 71), chunk=500)
        yield from grid_cases(CODES, range(0, 71))


# ------------------------------------------------------------------ checker mode inputs for the model

def split_obs(o):
    if " | " in o:
        a, b = o.split(" | ", 1)
        return a, b
    return o, None


def model_lines(case, impl):
    """ed25519 point validity and the applicability of the reference to a key blob are outside the model: they
    are read off the implementation's answer and handed to the model as an input."""
    if impl is None:
        return case
    res = []
    for i, op in enumerate(case):
        o = impl[i] if i < len(impl) else ""
        a, b = split_obs(o)
        if op.startswith("edid "):
            op += " valid=" + ("0" if a == "err badkey" and b == "err badkey" else "1")
        elif op.startswith("frompk "):
            op += " ref=" + ("0" if b == "-" else "1")
        elif op.split() and op.split()[0] in ("kpbytes", "skbytes", "pkbytes") and o.count(" | ") == 2:
            op += " " + o.split(" | ")[2]                      # the curve library's facts (reference side)
        elif op.startswith("pkproto ") and b is not None:
            op += " valid=" + ("0" if a == "err badkey" else "1") + " ref=" + b.replace(" ", ":")
        elif op.startswith("edverify ") and b is not None:
            op += " valid=" + ("0" if b == "err badkey" else "1") + " sigok=" + ("1" if b == "true" else "0")
        elif op.startswith("edsign ") and b is not None and b.startswith("ok "):
            op += " sig=" + b.split()[1]
        res.append(op)
    return res


# ------------------------------------------------------------------ oracle

def arg_bytes(t, i=1):
    return bytes.fromhex(t[i][2:]) if len(t) > i and t[i].startswith("0x") else b""


def pb_fields(blob):
    """Minimal protobuf reader: {field number: last value} (varints as int, length-delimited as bytes); None if
    malformed."""
    res, i = {}, 0
    try:
        while i < len(blob):
            key, sh = 0, 0
            while True:
                c = blob[i]; i += 1
                key |= (c & 0x7f) << sh; sh += 7
                if c < 0x80:
                    break
            fn, wt = key >> 3, key & 7
            if wt == 0:
                val, sh = 0, 0
                while True:
                    c = blob[i]; i += 1
                    val |= (c & 0x7f) << sh; sh += 7
                    if c < 0x80:
                        break
                res[fn] = val
            elif wt == 2:
                n, sh = 0, 0
                while True:
                    c = blob[i]; i += 1
                    n |= (c & 0x7f) << sh; sh += 7
                    if c < 0x80:
                        break
                if i + n > len(blob):
                    return None
                res[fn] = blob[i:i + n]; i += n
            elif wt == 1:
                i += 8
            elif wt == 5:
                i += 4
            else:
                return None
        return res if i == len(blob) else None
    except IndexError:
        return None


def oracle(case, out):
    bad = []

    def v(kind, msg, i, **kw):
        bad.append({"kind": kind, "msg": msg, "step": i, "op": case[i], "out": out[i] if i < len(out) else None, **kw})

    def check_parse(i, X, a, b, errs=("err multihash",), what="from_bytes"):
        """a = litep2p's answer to parsing the bytes X, b = the reference's (None if not applicable)."""
        ok = a.startswith("ok ")
        if b is not None and b != "-":
            if ok != b.startswith("ok "):
                v("accept-mismatch", f"{what}: litep2p says {a!r}, libp2p-identity says {b!r}", i)
            elif ok and a != b:
                v("value-mismatch", f"{what}: litep2p parsed {a!r}, libp2p-identity {b!r}", i)
        if spec_valid(X):
            if a != "ok " + X.hex():
                v("reject-valid", f"{what} answered {a!r} for the valid peer id {X.hex()}", i)
        elif ok:
            Y = bytes.fromhex(a[3:])
            if spec_valid(Y) and trunc_signature(X):
                # OBSERVATION, not a violation of C18 as stated: unsigned-varint 0.8 drops the high bits of a
                # 10th varint byte, so these non-canonical bytes parse (identically in the reference) to a valid id
                # that re-prints canonically. Lean: parse_print_witness / parse_print_partial.
                pass
            else:
                v("accept-invalid", f"{what} accepted the invalid peer id {X.hex()} as {a!r}", i)
        elif a not in errs:
            v("error-class", f"{what} answered {a!r}", i)

    for i, op in enumerate(case):
        if i >= len(out):
            break
        o = out[i]
        t = op.split()
        if o.startswith("panic"):
            v("panic", f"panic in {t[0]}: {o}", i)
            break
        if o == "skipped":
            break
        if o == "bad-op" or not t:
            continue
        a, b = split_obs(o)
        try:
            if t[0] == "frombytes":
                check_parse(i, arg_bytes(t), a, b)
            elif t[0] == "frompk":
                blob = arg_bytes(t)
                want = "ok " + derive(blob).hex()
                if a != want:
                    v("derive", f"peer id of a {len(blob)}-byte key encoding is {a!r}, the rule says {want!r}", i)
                if b not in (None, "-") and b != a:
                    v("derive-reference", f"litep2p derives {a!r}, libp2p-identity {b!r}", i)
            elif t[0] == "edid":
                key = arg_bytes(t)
                if a != b:
                    v("derive-reference", f"ed25519 key: litep2p {a!r}, libp2p-identity {b!r}", i)
                if a.startswith("ok ") and a != "ok 002408011220" + key.hex():
                    v("ed25519-form", f"ed25519 peer id {a!r} is not 00 24 08 01 12 20 ‖ key", i)
                if not a.startswith("ok ") and a != "err badkey":
                    v("error-class", f"edid answered {a!r}", i)
            elif t[0] in ("kpbytes", "skbytes", "pkbytes"):
                buf = arg_bytes(t)
                parts = o.split(" | ")
                a, b = parts[0], parts[1] if len(parts) > 1 else None
                facts = dict(x.split("=", 1) for x in (parts[2].split() if len(parts) > 2 else []))
                if b is not None and a != b:
                    v("key-reference", f"{t[0]}: litep2p {a!r}, libp2p-identity {b!r}", i)
                f = dict(x.split("=", 1) for x in a.split()[1:] if "=" in x)
                if t[0] == "kpbytes":
                    good = len(buf) == 64 and facts.get("valid") == "1" and facts.get("derive") == buf[32:].hex()
                    if a.startswith("ok "):
                        if not good:
                            v("key-accept", f"keypair of {len(buf)} bytes accepted although the halves do not form a valid pair", i)
                        if f.get("pub") != buf[32:].hex() or f.get("sec") != buf[:32].hex() or f.get("rt") != "1":
                            v("key-roundtrip", f"parsed keypair does not print back to its bytes: {a!r}", i)
                        if f.get("zeroed") != "1":
                            v("key-not-wiped", "the input buffer was not zeroed on success", i)
                        if f.get("c") != "1":
                            v("key-inconsistent", f"secret()/From conversions disagree: {a!r}", i)
                    else:
                        if good:
                            v("key-refused", "a valid 64-byte keypair was refused", i)
                        if f.get("kept") != "1":
                            v("key-buffer", "the input buffer of a refused keypair was modified", i)
                elif t[0] == "skbytes":
                    if a.startswith("ok ") != (len(buf) == 32):
                        v("key-length", f"secret key of {len(buf)} bytes: {a!r}", i)
                    if a.startswith("ok "):
                        if f.get("sec") != buf.hex() or f.get("zeroed") != "1":
                            v("key-roundtrip", f"secret key {a!r}", i)
                        if facts.get("derive") not in (None, "-") and f.get("pub") != facts["derive"]:
                            v("key-derive", f"public key of the secret differs from the curve library's: {a!r}", i)
                    elif f.get("kept") != "1":
                        v("key-buffer", "the input buffer of a refused secret key was modified", i)
                else:
                    good = len(buf) == 32 and facts.get("valid") == "1"
                    if a.startswith("ok ") != good:
                        v("key-accept" if a.startswith("ok ") else "key-refused", f"public key of {len(buf)} bytes (valid point: {facts.get('valid')}): {a!r}", i)
                    if a.startswith("ok ") and a != f"ok {buf.hex()} c=1":
                        v("key-roundtrip", f"public key {a!r}", i)
            elif t[0] == "pkproto":
                blob = arg_bytes(t)
                if a.startswith("err inconsistent"):
                    v("key-inconsistent", f"PublicKey and RemotePublicKey decode the same blob differently: {a!r}", i)
                if a.startswith("ok "):
                    K = bytes.fromhex(a[3:])
                    fields = pb_fields(blob)
                    if len(K) != 32 or fields is None or fields.get(1) != 1 or fields.get(2) != K:
                        v("key-accept", f"key blob {blob.hex()} decoded to {a!r}", i)
                    if b is not None and b.startswith("ok ") and a != b:
                        v("key-reference", f"litep2p {a!r}, libp2p-identity {b!r}", i)
                elif blob[:4] == bytes([8, 1, 0x12, 0x20]) and len(blob) == 36 and b is not None and b.startswith("ok "):
                    v("key-refused", f"canonical ed25519 key blob refused: {a!r}", i)
            elif t[0] == "edverify":
                sig = arg_bytes(t, 3)
                if a != b:
                    v("verify-reference", f"litep2p {a!r}, libp2p-identity {b!r}", i)
                if len(sig) != 64 and a == "true":
                    v("verify-malformed", f"a {len(sig)}-byte signature verified", i)
                if a not in ("true", "false", "err badkey"):
                    v("error-class", f"edverify answered {a!r}", i)
            elif t[0] == "edsign":
                if a != b:
                    v("sign-reference", f"litep2p {a!r}, libp2p-identity {b!r}", i)
                if a.startswith("ok ") and (len(a.split()[1]) != 128 or not a.endswith(" v=1")):
                    v("sign-verify", f"signature does not verify / has the wrong size: {a!r}", i)
                if a.startswith("ok ") != (len(arg_bytes(t)) == 32):
                    v("key-length", f"secret key of {len(arg_bytes(t))} bytes: {a!r}", i)
            elif t[0] == "conv":
                if a.startswith("err inconsistent"):
                    v("conversion", "TryFrom<Vec<u8>> / TryFrom<Multihash> / From<PeerId> disagree with from_bytes", i)
                else:
                    check_parse(i, arg_bytes(t), a, b)
            elif t[0] in ("fromstr", "deser") :
                hr = t[0] == "fromstr" or t[1] == "hr"
                raw = arg_bytes(t, 1 if t[0] == "fromstr" else 2)
                errs = ("err invalid",) if t[0] == "deser" else ("err multihash",)
                if hr:
                    X = b58dec(raw.decode())
                    if isinstance(X, tuple):
                        want = "err invalid" if t[0] == "deser" else "err b58"
                        if a != want:
                            v("b58-accept", f"{t[0]} answered {a!r} for a string that is not base58", i)
                        if b not in (None, "-") and b != "err b58":
                            v("accept-mismatch", f"reference answered {b!r} for a string that is not base58", i)
                        continue
                    check_parse(i, X, a, b, errs, "from_str")
                else:
                    check_parse(i, raw, a, b, errs, "deserialize")
            elif t[0] == "b58dec":
                X = b58dec(arg_bytes(t).decode())
                want = f"err b58:{X[0]}:{X[1]}" if isinstance(X, tuple) else "ok " + X.hex()
                if a != want:
                    v("base58", f"base58 decoding gave {a!r}, expected {want!r}", i)
            elif t[0] == "b58enc":
                want = "ok " + b58enc(arg_bytes(t))
                if a.strip() != want.strip():
                    v("base58", f"base58 encoding gave {a!r}, expected {want!r}", i)
            elif t[0] == "tomultiaddr":
                X = arg_bytes(t)
                if a.startswith("err diverge") or a.startswith("err spurious"):
                    v("multiaddr-roundtrip", f"multiaddr round trip of {X.hex()}: {a!r}", i)
                    continue
                if b is not None and (b.startswith("err diverge")):
                    v("multiaddr-reference", f"multiaddr text and binary forms disagree on {X.hex()}: {b!r}", i)
                    continue
                check_parse(i, X, a, b, ("err multihash",), "multiaddr round trip")
            elif t[0] == "serde":
                X = arg_bytes(t)
                if spec_valid(X):
                    want = f"ok {b58enc(X)} {X.hex()}"
                    if a != want:
                        v("serde-roundtrip", f"serde of {X.hex()} gave {a!r}, expected {want!r}", i)
                elif a.startswith("ok "):
                    s, y = a.split()[1:3]
                    Y = bytes.fromhex(y)
                    if spec_valid(Y) and trunc_signature(X) and s == b58enc(Y):
                        pass    # same observation as above
                    else:
                        v("accept-invalid", f"serde accepted the invalid peer id {X.hex()}: {a!r}", i)
                elif a != "err multihash":
                    v("serde-roundtrip", f"serde of {X.hex()}: {a!r}", i)
        except (ValueError, IndexError, UnicodeDecodeError):
            continue
    return bad


def stats(case, out, acc):
    for op, o in zip(case, out):
        t = op.split()
        a, b = split_obs(o)
        cls = a.split()[0] + (" " + a.split()[1] if a.startswith("err") and len(a.split()) > 1 else "")
        cls = cls.split(":")[0] + (":" + cls.split(":")[1] if ":" in cls else "")
        bump(acc, f"{t[0]}:{cls}")
        if t[0] == "frombytes" and len(t) > 1:
            X = arg_bytes(t)
            bump(acc, "frombytes-len:%d" % (10 * (len(X) // 10)))
            if trunc_signature(X):
                bump(acc, "frombytes:10-byte-varint-truncating")
        if t[0] == "frompk" and len(t) > 1:
            n = len(arg_bytes(t))
            bump(acc, "frompk:" + ("<=42" if n <= 42 else ">42"))
            if b not in (None, "-"):
                bump(acc, "frompk:reference-applicable")
    bump(acc, "cases")


def nontrivial(case, out):
    return any(o.startswith("ok ") for o in out) and any(o.startswith("err ") for o in out)


def matches_known(k, v):
    sig = k.get("signature", {})
    return v.get("kind") == sig.get("kind") and v.get("sig") == sig.get("sig")
