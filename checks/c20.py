"""C20 — Bitswap blocks are verified against their CID; responses are split within the size limit.

Model: Model/Bitswap/{Prefix,Batch}.lean, adapter: src/verif/c20.rs (child module of bitswap)."""
import hashlib
from .common import bump

ID = "C20"
AREA = "c20"
LEAN_PROPS = "Litep2pVerif.Props.C20"
THEOREMS = ["cid_self_certifying", "malformed_dropped", "prefix_roundtrip", "batches_partition",
            "batch_size_bound_partial", "batch_size_bound", "fitting_blocks_sent_once", "batch_oversize_witness",
            "presence_within_limit", "blocks_sent_regardless_of_presences",
            "response_delivered_or_dropped_whole", "cached_failure_requeues_whole",
            "fresh_substream_runs_queue_in_order", "queue_untouched_by_other_events",
            "per_frame_timeout_only", "slow_link_flushes_whole_queue", "frame_over_timeout_fails_call",
            "response_command_never_dropped"]
CONSTS = ["MAX_MESSAGE_SIZE", "MAX_BATCH_SIZE", "MAX_BATCH_BLOCKS", "BITSWAP_WRITE_TIMEOUT_SECS", "BITSWAP_CMD_CHANNEL_SIZE"]
_CFG = "src/protocol/libp2p/bitswap/config.rs"
_MOD = "src/protocol/libp2p/bitswap/mod.rs"
_WT_RX = r"const WRITE_TIMEOUT: Duration = Duration::from_secs\(([^)]+)\);"
CONST_TABLE = [
    ("BITSWAP_CMD_CHANNEL_SIZE", "src/lib.rs", r"const DEFAULT_CHANNEL_SIZE: usize = (\d+)usize;", 4096),
    ("BITSWAP_WRITE_TIMEOUT_SECS", _MOD, _WT_RX, 15),
    ("MAX_MESSAGE_SIZE", _CFG, r"pub const MAX_MESSAGE_SIZE: usize = ([^;]+);", 4194304),
    ("MAX_BATCH_SIZE", _CFG, r"pub const MAX_BATCH_SIZE: usize = ([^;]+);", 2097152),
    ("MAX_BATCH_BLOCKS", _CFG, r"pub const MAX_BATCH_BLOCKS: usize = ([^;]+);", 32768),
]
MANIFEST = {
    "text": "Lean 4 theorems about an executable model of the bitswap prefix codec, block_to_response / the inbound "
            "payload loop (hash family as a parameter) and extract_next_batch / send_response (presence message, then "
            "the block loop; size guards, the codec's frame limit and the abort on a write error) / the prost size of a "
            "blocks and of a presences message: cid_self_certifying, malformed_dropped, prefix_roundtrip, "
            "batches_partition (all block lists, termination by fuel with sufficiency proof), batch_size_bound (on the "
            "regenerated constants), fitting_blocks_sent_once, presence_within_limit (a presence message is written "
            "only if its encoding is within MAX_MESSAGE_SIZE, and first), blocks_sent_regardless_of_presences (for "
            "every mix of presences and blocks send_response returns Ok, writes an optional presence message followed "
            "by exactly the messages of the block-only response, every message within MAX_MESSAGE_SIZE; an oversized "
            "presence list is skipped as a whole - the code's actual behaviour - and never prevents blocks from being "
            "sent); the protocol level (Model/Bitswap/Proto.lean: the struct's maps outbound / pending_outbound / "
            "pending_substreams / pending_dials / inbound, every handler of the event loop, open_substream_or_dial, "
            "the far end of every outbound substream with a write failure at any message index): "
            "response_delivered_or_dropped_whole (in every history each send_request/send_response call is for an action "
            "exactly as handed over and writes the first messages of its complete sequence - a retry restarts the "
            "response), cached_failure_requeues_whole, fresh_substream_runs_queue_in_order, "
            "queue_untouched_by_other_events (a queued response is dropped only by dial failure, open failure, closed "
            "connection, failed open after the dial, a failed call on the fresh substream, or when no substream can be "
            "had); time (the far end of a substream takes a given virtual time to accept each message; every "
            "send_framed has its own WRITE_TIMEOUT budget - the constant is read from bitswap/mod.rs -, nothing bounds a "
            "call, a queue flush or a loop iteration): per_frame_timeout_only (over a far end that accepts every message "
            "within WRITE_TIMEOUT a call writes all messages of its action however long that takes in total), "
            "slow_link_flushes_whole_queue (the actions queued during the open / dial are all sent, in order, over such a "
            "substream and it is cached), frame_over_timeout_fails_call (a message slower than WRITE_TIMEOUT fails its "
            "call after exactly the messages before it); the command channel between BitswapHandle and run() (Model/Bitswap/Cmd.lean: "
            "the bounded channel of Model/Kad/Events.lean with the user as producer): response_command_never_dropped (whatever "
            "the capacity and however many commands are handed over while the loop is not polled - the user's send().await "
            "suspends at a full channel - the loop receives exactly the commands handed over, each once, in order, and the state "
            "is that of handling them all); plus a seeded correspondence run of the real functions (send_response over an in-memory yamux "
            "substream with the codec of the real Config, on_message_received on a real Bitswap instance; the real Bitswap::run() loop with its BitswapHandle and a "
            "real TransportService on a paused tokio clock, the harness playing connections, dials, substream "
            "opens/failures, inbound messages (whole, in pieces with virtual time in between, or held back across other "
            "operations) and the far ends of the substreams (failing, stalling, or slow: a virtual delay per message)) "
            "against the "
            "model and a property-level oracle that recomputes digests with hashlib.",
    "note": "Trusted: Lean kernel; axioms propext/Classical.choice/Quot.sound; the hand-written models and their tie "
            "(sampled differential runs through adapter src/verif/c20.rs); hash functions, prost, cid, multihash, "
            "unsigned-varint, yamux are outside the proof (unsigned-varint's decode loop and prost's length formula are "
            "modelled and compared on every run). Defect DESIGN §8-p (per-block encoding overhead not counted by the "
            "batching) was confirmed on the real code and repaired by a `fix:` commit (MAX_BATCH_BLOCKS); the witness "
            "is replayed on every run.",
    "technique": "Lean 4 proof (structural induction over all block lists / byte strings) + model/implementation "
                 "correspondence check + independent oracle",
    "design_ref": "DESIGN.md §7 C20, §8-p",
}
RULE = ("seeded cases of 4-9 operations: prefix_enc/prefix_dec (boundary values, truncation at every offset, trailing "
        "bytes, non-minimal and 10/11-byte varints, version 2, length 256), inbound/message (every supported multihash "
        "code, unsupported codes, CID v0/v1, odd codecs, data sizes 0..1 MiB, tampered payloads, malformed prefixes "
        "mixed with valid blocks), batches (size vectors around MAX_BATCH_SIZE — in the thorough tier every vector of "
        "length <= 4 over {0,1,M/2,M/2+1,M-1,M,M+1} —, sums crossing it, runs of tiny and "
        "empty blocks around MAX_BATCH_BLOCKS, the 381301-block witness; about a third of the responses also carry "
        "presence entries interleaved with the blocks: 1..1000 mostly, rarely the largest count whose message fits "
        "MAX_MESSAGE_SIZE, that count + 1, 104000, 105000, 120000, 262144 — the two boundary counts are corpus cases of "
        "every run) run on the real code and on the Lean model; "
        "a case is non-trivial if it has a delivered and a dropped block or a response split into >= 2 messages; "
        "every fifth case (fourth in the thorough tier) is a protocol-level dialogue on the real event loop: responses "
        "and requests over a cached substream that fails or stalls at every message index, over a fresh one, after a "
        "dial, with dial failures, open failures, closed connections, dead command channels, manager-view races, "
        "queued actions behind a retry, slow but healthy links (every fifth dialogue: a response of 3-5 block messages "
        "- or a queue of several actions - over a fresh substream, after a dial, over the cached substream, with a "
        "virtual delay per message of WRITE_TIMEOUT/n+1 .. WRITE_TIMEOUT so that the whole exceeds WRITE_TIMEOUT while no "
        "message does; in a fifth of them one message is slower than WRITE_TIMEOUT), inbound frames arriving in 2-4 "
        "pieces with 0 ms .. 10 min between them or held back across other operations, inbound want-lists of every shape (valid v0/v1 CIDs, truncated at any offset, "
        "trailing bytes, bad versions, want types 0..2^31-1), inbound blocks and presences, undecodable / oversized / "
        "closed / reset inbound substreams; "
        "three burst cases per run (more in the thorough tier): N one-block responses handed to the real BitswapHandle "
        "while run() is not polled, N = capacity of the command channel (exactly full), capacity + 1 (the user's future "
        "suspends holding the last one) and capacity + 2..300, over the cached substream / queued behind the open of a "
        "fresh one / queued behind a dial - every block must be written exactly once, in the order handed over; "
        "distinct = distinct (ops, observations) transcripts by SHA-256")
TRUSTED_BASE = ["Lean 4.33 kernel", "axioms: propext, Classical.choice, Quot.sound only",
                "hand-written models Model/Bitswap/{Prefix,Batch,Proto,Cmd}.lean (Cmd: the bounded command channel, on Model/Kad/Events.lean) tied to bitswap/mod.rs by this correspondence run",
                "adapters /repo/src/verif/c20.rs and c20_proto.rs (one hook line in Bitswap::run publishing the maps), "
                "harness, verif.py, checks/c20.py",
                "protocol level: tokio (paused clock), TransportService, the mpsc channels and Substream::send_framed are "
                "run for real; the transport manager, the connections and the far ends of the substreams are played by "
                "the adapter",
                "hash functions are parameters of the theorems; in the correspondence run digests come from Python "
                "hashlib (sha2, sha3, blake2b) and a pure-Python Keccak checked against hashlib's SHA-3",
                "prost encoding modelled by its length formula only; cid/multihash/unsigned-varint/yamux as black boxes "
                "(unsigned-varint's u64 decode/encode loops are modelled exactly)"]
ASSUMPTIONS = ["batching ops: the only write error is the codec's rejection of a frame above its limit (modelled; "
               "send_response aborts the whole response on any write error or timeout); protocol-level ops: a substream "
               "accepts a chosen number of complete messages and then fails (at most two bytes into the next message) or "
               "stalls until WRITE_TIMEOUT, and takes a chosen virtual time (tokio's paused clock) before it accepts the "
               "first byte of each message - the time of a message is not spread over its bytes; a failure never "
               "corrupts an accepted message",
               "time is virtual: the paused tokio clock advances to the next timer only when no task can run, so "
               "computation takes no time and two timers set for the same instant fire together (a message that takes "
               "exactly WRITE_TIMEOUT is accepted: tokio's Timeout polls the write first)",
               "protocol level: events are handled one operation at a time (run to quiescence); an inbound message is "
               "either prost-decodable or not (inbad uses payloads that are not); want types are non-negative",
               "oracle, protocol level: 'sent exactly once and in order' is judged per substream (a retry after a write "
               "failure re-sends the whole response over the next substream: at-least-once on the wire, which the "
               "property does not exclude); a response that reaches no substream completely must be explained by an "
               "injected failure or an outstanding open / dial",
               "Code::try_from(c) followed by .code() returns c (multihash-derive)",
               "usize is 64 bits; sums of block sizes do not overflow",
               "oracle: the node's hash set is within {sha1, sha2, sha3, keccak, blake2b, blake2s, md5}; a block delivered "
               "under any other multihash code cannot be re-hashed by the oracle and is reported",
               "oracle, slow links: WRITE_TIMEOUT is read from bitswap/mod.rs (its value is not part of the property); a "
               "substream whose every message takes at most WRITE_TIMEOUT counts as healthy - a response cut short on it "
               "or lost is reported -, one with a slower message counts as failing",
               "oracle: a block 'fits a message' iff its data is at most 2 MiB (MAX_BATCH_SIZE); the message limit is the "
               "protocol's 4 MiB; both are fixed in the oracle, not read from the repository"]
KEEP_PREFIX = 0

MSG_LIMIT = 4 * 1024 * 1024       # bitswap 1.2.0: maximum message size
BATCH_LIMIT = 2 * 1024 * 1024     # data per message; a block above it never fits
CAP = 32768                       # blocks per message after the repair (generator boundaries only)

# ------------------------------------------------------------------ hashes (independent of the node)

_RC = [0x0000000000000001, 0x0000000000008082, 0x800000000000808A, 0x8000000080008000, 0x000000000000808B,
       0x0000000080000001, 0x8000000080008081, 0x8000000000008009, 0x000000000000008A, 0x0000000000000088,
       0x0000000080008009, 0x000000008000000A, 0x000000008000808B, 0x800000000000008B, 0x8000000000008089,
       0x8000000000008003, 0x8000000000008002, 0x8000000000000080, 0x000000000000800A, 0x800000008000000A,
       0x8000000080008081, 0x8000000000008080, 0x0000000080000001, 0x8000000080008008]
_ROT = [[0, 36, 3, 41, 18], [1, 44, 10, 45, 2], [62, 6, 43, 15, 61], [28, 55, 25, 21, 56], [27, 20, 39, 8, 14]]
_M = (1 << 64) - 1


def _rol(x, n):
    n %= 64
    return ((x << n) | (x >> (64 - n))) & _M if n else x


def _keccak_f(a):
    for rc in _RC:
        c = [a[x][0] ^ a[x][1] ^ a[x][2] ^ a[x][3] ^ a[x][4] for x in range(5)]
        d = [c[(x - 1) % 5] ^ _rol(c[(x + 1) % 5], 1) for x in range(5)]
        a = [[a[x][y] ^ d[x] for y in range(5)] for x in range(5)]
        b = [[0] * 5 for _ in range(5)]
        for x in range(5):
            for y in range(5):
                b[y][(2 * x + 3 * y) % 5] = _rol(a[x][y], _ROT[x][y])
        a = [[b[x][y] ^ ((~b[(x + 1) % 5][y]) & b[(x + 2) % 5][y]) for y in range(5)] for x in range(5)]
        a[0][0] ^= rc
    return a


def keccak(data, outlen, suffix=0x01):
    rate = 200 - 2 * outlen
    p = bytearray(data)
    p.append(suffix)
    while len(p) % rate:
        p.append(0)
    p[-1] |= 0x80
    a = [[0] * 5 for _ in range(5)]
    for off in range(0, len(p), rate):
        blk = p[off:off + rate]
        for i in range(rate // 8):
            a[i % 5][i // 5] ^= int.from_bytes(blk[8 * i:8 * i + 8], "little")
        a = _keccak_f(a)
    out = b"".join(a[i % 5][i // 5].to_bytes(8, "little") for i in range(25))
    return out[:outlen]


assert keccak(b"abc", 32, 0x06) == hashlib.sha3_256(b"abc").digest()
assert keccak(b"x" * 300, 64, 0x06) == hashlib.sha3_512(b"x" * 300).digest()

KECCAK_MAX = 8192     # pure Python: keep inputs small

HASHES = {
    0x12: lambda d: hashlib.sha256(d).digest(),
    0x13: lambda d: hashlib.sha512(d).digest(),
    0x14: lambda d: hashlib.sha3_512(d).digest(),
    0x15: lambda d: hashlib.sha3_384(d).digest(),
    0x16: lambda d: hashlib.sha3_256(d).digest(),
    0x17: lambda d: hashlib.sha3_224(d).digest(),
    0x1a: lambda d: keccak(d, 28),
    0x1b: lambda d: keccak(d, 32),
    0x1c: lambda d: keccak(d, 48),
    0x1d: lambda d: keccak(d, 64),
    0xb220: lambda d: hashlib.blake2b(d, digest_size=32).digest(),
    0xb240: lambda d: hashlib.blake2b(d, digest_size=64).digest(),
}
NODE_CODES = sorted(HASHES)                 # what multihash-codetable computes with sha2+blake2b+sha3
KECCAK_CODES = {0x1a, 0x1b, 0x1c, 0x1d}
EXTRA = {                                   # not compiled into the node; verifiable if ever delivered
    0x11: lambda d: hashlib.sha1(d).digest(),
    0xb250: lambda d: hashlib.blake2s(d, digest_size=16).digest(),
    0xb260: lambda d: hashlib.blake2s(d, digest_size=32).digest(),
    0xd5: lambda d: hashlib.md5(d).digest(),
}
UNSUPPORTED = [0x11, 0x00, 0xb250, 0xb260, 0x1e, 0xd5, 0x1053, 0x10, 0x18, 0x19, 0xb221, 0xb23f, 0x1200, 0x92,
               (1 << 64) - 1, 1 << 63, 0x7f, 0x80]
MUST_DELIVER = {0x12, 0x1b, 0xb220}         # pinned by the code's own regression test / comments


def digest(code, data):
    f = HASHES.get(code) or EXTRA.get(code)
    if f is None:
        return None
    if code in KECCAK_CODES and len(data) > KECCAK_MAX:
        return None
    return f(data)


# ------------------------------------------------------------------ wire helpers

def uvar(n):
    out = bytearray()
    while True:
        b = n & 0x7f
        n >>= 7
        if n:
            out.append(b | 0x80)
        else:
            out.append(b)
            return bytes(out)


def read_uvar(b, i):
    """Plain LEB128 reader (no width limit, no minimality rule): (value, next index) or None."""
    n, s = 0, 0
    while i < len(b):
        n |= (b[i] & 0x7f) << s
        s += 7
        i += 1
        if not b[i - 1] & 0x80:
            return n, i
    return None


def lenient_prefix(b):
    """Four LEB128 numbers if they can be read at all (used to pick the code whose digest the model
    is given, and to classify clearly malformed prefixes)."""
    i, vals = 0, []
    for _ in range(4):
        r = read_uvar(b, i)
        if r is None:
            return None, i
        vals.append(r[0])
        i = r[1]
    return vals, i


def canonical(b):
    """True iff `b` is exactly the minimal encoding of four numbers, each < 2^63 (<= 9 bytes)."""
    vals, i = lenient_prefix(b)
    return vals is not None and i == len(b) and b == b"".join(uvar(v) for v in vals) and all(v < 1 << 63 for v in vals)


def hx(b):
    return b.hex() if b else "-"


def parse_data(s):
    if s == "-":
        return b""
    if "," in s:
        n, f = s.split(",")
        return bytes([int(f)]) * int(n)
    return bytes.fromhex(s)


def show_data(d):
    if not d:
        return "-"
    if d.count(d[0]) == len(d):
        return f"{len(d)},{d[0]}"
    return d.hex()


def parse_cid(b):
    """(version, codec, code, digest) of binary CID bytes, or None."""
    if len(b) == 34 and b[0] == 0x12 and b[1] == 0x20:
        return 0, 0x70, 0x12, b[2:]
    r = read_uvar(b, 0)
    if r is None or r[0] != 1:
        return None
    c = read_uvar(b, r[1])
    if c is None:
        return None
    m = read_uvar(b, c[1])
    if m is None:
        return None
    ln = read_uvar(b, m[1])
    if ln is None or len(b) - ln[1] != ln[0]:
        return None
    return 1, c[0], m[0], b[ln[1]:]


def parse_sizes(s):
    res = []
    if s == "-":
        return res
    for item in s.split(","):
        if "*" in item:
            a, b = item.split("*")
            res += [int(a)] * int(b)
        else:
            res.append(int(item))
    return res


def parse_rle(s):
    res = []
    if s == "-":
        return res
    for item in s.split("+"):
        a, b = item.split("*")
        res += [int(a)] * int(b)
    return res


# ------------------------------------------------------------------ generator

VALS64 = [0, 1, 2, 0x55, 0x70, 0x71, 127, 128, 129, 255, 256, 16383, 16384, 2097151, 2097152, (1 << 32) - 1, 1 << 32,
          (1 << 35), (1 << 56) - 1, 1 << 56, (1 << 63) - 1, 1 << 63, (1 << 64) - 1]
CODECS = [0x55, 0x55, 0x70, 0x70, 0x71, 0, 1, 0x0129, 1 << 32, (1 << 64) - 1, 0x80]
DIGEST_LEN = {0x12: 32, 0x13: 64, 0x14: 64, 0x15: 48, 0x16: 32, 0x17: 28, 0x1a: 28, 0x1b: 32, 0x1c: 48, 0x1d: 64,
              0xb220: 32, 0xb240: 64}


def rand_data(rng, code=None):
    r = rng.random()
    if r < 0.08:
        return b""
    if r < 0.55:
        return bytes(rng.getrandbits(8) for _ in range(rng.choice([1, 2, 5, 31, 32, 33, 55, 56, 64, 71, 72, 100])))
    if r < 0.75:
        return bytes(rng.getrandbits(8) for _ in range(rng.choice([111, 112, 127, 128, 135, 136, 137, 143, 144, 200, 1000])))
    if r < 0.9:
        return bytes([rng.getrandbits(8)]) * rng.choice([1, 7, 136, 4096, 8192])
    if code in KECCAK_CODES:
        return bytes([rng.getrandbits(8)]) * rng.choice([2000, 8192])
    return bytes([rng.getrandbits(8)]) * rng.choice([65536, 100000, 1 << 20])


def prefix_bytes(v, codec, mh, ln):
    return uvar(v) + uvar(codec) + uvar(mh) + uvar(ln)


def mangle(rng, p):
    """Malformed / borderline variants of a prefix."""
    k = rng.randrange(11)
    if k == 0:
        return p[:rng.randrange(0, len(p))]                                   # truncated
    if k == 1:
        return p + bytes([rng.choice([0, 1, 0x20, 0x80, 0xff])])               # trailing byte
    if k == 2:
        return p + p                                                           # eight varints
    if k == 3:
        return p[:-1] + bytes([p[-1] | 0x80, 0x00])                            # non-minimal last varint
    if k == 4:
        return bytes([p[0] | 0x80, 0x00]) + p[1:]                              # non-minimal version
    if k == 5:
        return uvar(rng.choice([2, 3, 127, 128, 1 << 63])) + p[1:]             # bad version
    if k == 6:
        vals, _ = lenient_prefix(p)
        return prefix_bytes(vals[0], vals[1], vals[2], rng.choice([256, 257, 1 << 20, (1 << 64) - 1]))
    if k == 7:
        # ten-byte varint for the codec; the tenth byte carries more than one bit
        vals, _ = lenient_prefix(p)
        return uvar(vals[0]) + b"\xff" * 9 + bytes([rng.choice([0x01, 0x02, 0x03, 0x7f, 0x7e])]) + uvar(vals[2]) + uvar(vals[3])
    if k == 8:
        vals, _ = lenient_prefix(p)
        return uvar(vals[0]) + b"\x80" * 10 + b"\x01" + uvar(vals[2]) + uvar(vals[3])   # eleven bytes
    if k == 9:
        return bytes(rng.getrandbits(8) for _ in range(rng.randrange(0, 8)))
    return b""


def block_item(rng):
    """(prefix bytes, data) of one inbound block."""
    r = rng.random()
    if r < 0.55:
        code = rng.choice(NODE_CODES)
    elif r < 0.8:
        code = rng.choice(UNSUPPORTED)
    else:
        code = rng.choice([0x12, 0x1b, 0xb220])
    r = rng.random()
    if r < 0.2:
        v, codec = 0, rng.choice([0x70, 0x70, 0x70, 0x55, 0x71, 0])
    else:
        v, codec = 1, rng.choice(CODECS)
    ln = DIGEST_LEN.get(code, 32)
    if rng.random() < 0.15:
        ln = rng.choice([0, 1, 20, 31, 33, 64, 255])       # the length in the prefix is not used by the code
    p = prefix_bytes(v, codec, code, ln)
    if rng.random() < 0.22:
        p = mangle(rng, p)
    return p, rand_data(rng, code)


def item_token(p, d):
    vals, _ = lenient_prefix(p)
    h = None
    if vals is not None:
        h = digest(vals[2] & ((1 << 64) - 1), d)
    tok = f"{hx(p)}:{show_data(d)}"
    return tok, h


def op_inbound(rng):
    p, d = block_item(rng)
    tok, h = item_token(p, d)
    line = f"inbound {hx(p)} {show_data(d)}"
    if h is not None:
        line += " h=" + h.hex()
    ops = [line]
    if rng.random() < 0.35 and d:
        # tampered payload under the same prefix
        t = bytearray(d)
        i = rng.randrange(len(t))
        t[i] ^= 1 << rng.randrange(8)
        t = bytes(t)
        _, h2 = item_token(p, t)
        ops.append(f"inbound {hx(p)} {show_data(t)}" + (" h=" + h2.hex() if h2 is not None else ""))
    return ops


def op_message(rng):
    n = rng.choice([0, 1, 1, 2, 3, 4, 6])
    toks = []
    for _ in range(n):
        p, d = block_item(rng)
        if len(d) > 8192:
            d = d[:4096]
        tok, h = item_token(p, d)
        toks.append(tok + (":" + h.hex() if h is not None else ""))
    return ["message " + " ".join(toks)] if toks else ["message"]


def op_prefix(rng):
    if rng.random() < 0.4:
        v = rng.choice([0, 1, 1])
        return [f"prefix_enc {v} {rng.choice(VALS64)} {rng.choice(VALS64 + NODE_CODES)} {rng.choice([0, 1, 20, 32, 64, 127, 128, 255])}"]
    p = prefix_bytes(rng.choice([0, 1, 1, 1]), rng.choice(VALS64), rng.choice(VALS64 + NODE_CODES),
                     rng.choice([0, 1, 20, 32, 64, 127, 128, 255]))
    r = rng.random()
    if r < 0.35:
        return [f"prefix_dec {hx(p)}"]
    if r < 0.5:
        return [f"prefix_dec {hx(p[:k])}" for k in range(len(p))]            # truncation at every offset
    return [f"prefix_dec {hx(mangle(rng, p))}"]


PREFIX_KINDS = ["1 85 18 32", "1 85 18 32", "0 112 18 32", "1 113 45600 32", "1 18446744073709551615 18446744073709551615 64",
                "1 0 0 0", "1 85 27 32", "1 112 19 64"]
BAD_PREFIX_KINDS = ["0 85 18 32", "0 112 18 20", "0 112 19 32", "1 85 18 65", "2 85 18 32"]
M = BATCH_LIMIT


def repo_cap():
    """MAX_BATCH_BLOCKS as it stands in the repository now (search tier only: when the proof about the
    constants no longer checks, look for a failing response at the boundaries of the CURRENT values)."""
    try:
        import extract_consts
        return int(extract_consts.extract()[0].get("MAX_BATCH_BLOCKS", CAP))
    except Exception:  # noqa
        return CAP


_WT_MS = None


def write_timeout_ms():
    """`WRITE_TIMEOUT` of bitswap/mod.rs as it stands in the repository (ms). The generator places the
    per-frame delays of a slow link around it; the oracle needs it to tell a frame that legitimately
    timed out from one that did not (the value itself is not part of the property)."""
    global _WT_MS
    if _WT_MS is None:
        try:
            import os, re
            import extract_consts
            src = open(os.path.join(extract_consts.REPO, _MOD)).read()
            _WT_MS = 1000 * extract_consts.rust_int(re.search(_WT_RX, src).group(1))
        except Exception:  # noqa
            _WT_MS = 15000
    return _WT_MS


def uvar_len(n):
    return len(uvar(n))


def cid_len(kind):
    """len(cid.to_bytes()) for a `<v> <codec> <mh> <dlen>` kind (generator only)."""
    v, codec, mh, dlen = map(int, kind.split())
    mhl = uvar_len(mh) + uvar_len(dlen) + dlen
    return mhl if v == 0 else 1 + uvar_len(codec) + mhl


def presences_len(kind, n):
    """Encoded size of the presence message of `n` entries as the adapter builds them (Have iff i % 3 == 0):
    used by the generator to aim at the size limit, never by the oracle."""
    c = cid_len(kind)
    body = (1 + uvar_len(c) + c) if c else 0
    have = 1 + uvar_len(body) + body
    dont = 1 + uvar_len(body + 2) + body + 2
    haves = (n + 2) // 3
    return 2 + haves * have + (n - haves) * dont if n else 0


def max_fitting_presences(kind):
    lo, hi = 0, 1 << 18
    while lo < hi:
        mid = (lo + hi + 1) // 2
        if presences_len(kind, mid) <= MSG_LIMIT:
            lo = mid
        else:
            hi = mid - 1
    return lo


PRES_MAX = 1 << 18


def pick_presences(rng, tier, kind):
    """Number of presence entries of a response: mostly none or few; rarely around the message limit."""
    r = rng.random()
    if r < 0.62:
        return None
    big = {"quick": 0.03, "thorough": 0.08, "search": 0.25}[tier]
    if rng.random() >= big:
        return rng.choice([0, 1, 1, 2, 3, 4, 7, 10, 100, 1000])
    try:
        edge = max_fitting_presences(kind)
    except ValueError:
        edge = 101475
    return min(PRES_MAX, rng.choice([edge, edge + 1, edge + 1, edge - 1, 104000, 105000, 120000, PRES_MAX, 2 * edge]))


def with_presences(rng, tier, op):
    kind = " ".join(op.split()[1:5])
    n = pick_presences(rng, tier, kind)
    return op if n is None else f"{op} pres={n}"


def op_batches(rng, tier):
    return [with_presences(rng, tier, op) for op in op_batches_blocks(rng, tier)]


def op_batches_blocks(rng, tier):
    if tier == "search" and rng.random() < 0.3:
        cap = max(1, min(repo_cap(), 1 << 21))
        size = rng.choice([M // cap, max(M // cap, 1) - 1, 1, 0, 16])
        n = min(rng.choice([cap, cap + 1, 2 * cap]), 1 << 21)
        while size * n > 100 * (1 << 20):
            n //= 2
        return [f"batches {rng.choice(PREFIX_KINDS[4:5] + PREFIX_KINDS[:2])} {size}*{n}"]
    kind = rng.choice(PREFIX_KINDS) if rng.random() < 0.93 else rng.choice(BAD_PREFIX_KINDS)
    r = rng.random()
    if r < 0.45:
        # small sizes, any mix (cheap)
        runs = [str(rng.choice([0, 1, 2, 10, 100, 1000, 4096])) + (f"*{rng.choice([2, 3, 10, 100])}" if rng.random() < 0.3 else "")
                for _ in range(rng.randrange(0, 7))]
    elif r < 0.8:
        # around the batch limit; at most ~8 MiB per operation
        pool = [M - 1, M, M + 1, M // 2, M // 2 + 1, M // 2 - 1, M // 3, M - 10, 10, 9, 11, 1, 0, M + 100, 3 * M // 4, M // 4]
        runs, total = [], 0
        for _ in range(rng.randrange(1, 7)):
            s = rng.choice(pool)
            if total + s > 4 * M + 10:
                s = rng.choice([0, 1, 10])
            total += s
            runs.append(str(s))
    elif r < 0.97:
        # many tiny / empty blocks around the block-count cap
        n = rng.choice([CAP - 1, CAP, CAP + 1, 2 * CAP, 2 * CAP + 1, 1000, 40000, 65537])
        runs = [f"{rng.choice([0, 0, 1, 1, 2, 31])}*{n}"]
        if rng.random() < 0.4:
            runs.insert(rng.randrange(2), str(rng.choice([M, M - CAP, M - CAP + 1, M + 1, 5])))
    else:
        n = rng.choice([381300, 381301, 400000]) if tier != "quick" or rng.random() < 0.2 else 70000
        runs = [f"{rng.choice([0, 1])}*{n}"]
    return [f"batches {kind} {','.join(runs) if runs else '-'}"]


# ------------------------------------------------------------------ protocol level: generator

PKINDS = ["1/85/18/32", "1/85/18/32", "0/112/18/32", "1/113/45600/32", "1/18446744073709551615/18446744073709551615/64",
          "1/85/27/32"]
BIG = M // 2 + 1            # two of these do not share a batch: one message each


def batches_of(sizes):
    """Number of block messages of a response (generator only; the block-count cap is not reached here)."""
    q = [x for x in sizes]
    n = 0
    while True:
        while q and q[0] > M:
            q.pop(0)
        if not q:
            return n
        total = 0
        k = 0
        while k < len(q) and total + q[k] <= M:
            total += q[k]
            k += 1
        del q[:k]
        n += 1


def plan_tokens(tokens):
    """The tokens after `subopen s<n>` / `plan s<n>` -> (frames the far end accepts before a call on it
    fails - refused, stalled, or a frame slower than WRITE_TIMEOUT - or None, delays)."""
    budget, late, delays = None, None, []
    for x in tokens:
        if x.startswith("slow="):
            delays = [int(d) for d in x[5:].split(",")]
            late = next((j for j, d in enumerate(delays) if d > write_timeout_ms()), None)
        elif "=" in x:
            budget = int(x.split("=")[1].split(".")[0])
    if late is not None:
        budget = late if budget is None else min(budget, late)
    return budget, delays


class Sim:
    """Book-keeping of names (s<n>, i<k>) and liveness for the generator: which operations make sense next.
    Not used by the oracle."""

    def __init__(self):
        self.conns, self.view, self.out, self.pend, self.psubs = {}, {}, {}, {}, {}
        self.dials, self.opens, self.next, self.inb, self.nin, self.far = set(), {}, 0, {}, 0, {}
        self.fill, self.idx = 0, 0
        self.held = set()

    def open_sub(self, p):
        if self.conns.get(p) is True:
            n = self.next
            self.next += 1
            self.opens[n] = p
            return n
        return None

    def open_or_dial(self, p):
        n = self.open_sub(p)
        if n is not None:
            self.psubs[n] = p
            return
        v = self.view.get(p, "d")
        if v == "g":
            self.dials.add(p)
        elif v == "d" and 1 <= p <= 3:
            self.dials.add(p)
            self.view[p] = "g"
        else:
            self.pend.pop(p, None)

    def write(self, n, frames):
        """True iff all `frames` messages are accepted by substream n."""
        far = self.far[n]
        if far[0] is None:
            return True
        if frames <= far[0]:
            far[0] -= frames
            return True
        far[0] = 0
        return False

    def command(self, p, frames):
        if p in self.out:
            n = self.out[p]
            if self.write(n, frames):
                return
            self.far[n][1] = True
            del self.out[p]
        q = self.pend.get(p)
        if q:
            q.append(frames)
        else:
            self.pend[p] = [frames]
            self.open_or_dial(p)

    def apply(self, op):
        t = op.split()
        if t[0] == "conn":
            p = int(t[1])
            if p not in self.conns:
                self.conns[p] = len(t) == 2
                self.view[p] = "c"
                if p in self.dials:
                    self.dials.discard(p)
                    n = self.open_sub(p)
                    if n is None:
                        self.pend.pop(p, None)
                    else:
                        self.psubs[n] = p
        elif t[0] == "disc":
            p = int(t[1])
            if p in self.conns:
                del self.conns[p]
                self.view[p] = "d"
                if p in self.out:
                    self.far[self.out.pop(p)][1] = True
                self.pend.pop(p, None)
                self.dials.discard(p)
                self.psubs = {n: q for n, q in self.psubs.items() if q != p}
                self.inb.pop(p, None)
        elif t[0] == "conndead":
            p = int(t[1])
            if self.conns.get(p) is True:
                self.conns[p] = False
        elif t[0] == "dialfail":
            p = int(t[1])
            if p not in self.conns:
                self.view[p] = "d"
            if p in self.dials:
                self.dials.discard(p)
                self.pend.pop(p, None)
        elif t[0] == "view":
            self.view[int(t[1])] = t[2]
        elif t[0] in ("subopen", "subfail"):
            n = int(t[1][1:])
            p = self.opens.pop(n, None)
            if p is None:
                return
            self.psubs.pop(n, None) if t[0] == "subopen" else None
            if t[0] == "subfail":
                if self.psubs.pop(n, None) is not None:
                    self.pend.pop(p, None)
                return
            budget = plan_tokens(t[2:])[0]
            self.far[n] = [budget, False]
            q = self.pend.pop(p, None)
            if q is None:
                self.far[n][1] = True
                return
            for frames in q:
                if not self.write(n, frames):
                    self.far[n][1] = True
                    return
            if p in self.out:
                self.far[self.out[p]][1] = True
            self.out[p] = n
        elif t[0] == "plan":
            n = int(t[1][1:])
            if n in self.far and not self.far[n][1]:
                self.far[n][0] = plan_tokens(t[2:])[0]
        elif t[0] in ("resp", "req"):
            self.command(int(t[1]), self.frames_of(t))
        elif t[0] == "insub":
            p = int(t[1])
            if p in self.conns:
                self.inb[p] = self.nin
                self.nin += 1
        elif t[0] in ("inbad", "inbig", "inclose", "inreset"):
            k = int(t[1][1:])
            if t[0] in ("inbad", "inbig") and k in self.held:
                return
            self.held.discard(k)
            for p, v in list(self.inb.items()):
                if v == k:
                    del self.inb[p]
        elif t[0] == "inmsg" and any(a.startswith("hold=") for a in t):
            k = int(t[1][1:])
            if k in self.inb.values():
                self.held.add(k)
        elif t[0] == "inrest":
            self.held.discard(int(t[1][1:]))

    @staticmethod
    def frames_of(t):
        if t[0] == "req":
            return 1
        if t[3] == "-":
            return 0
        items = t[3].split(",")
        sizes = [int(x[1:].split(".")[0]) for x in items if x[0] == "b"]
        return (1 if any(x[0] in "hd" for x in items) else 0) + batches_of(sizes)

    # ---- content with identities that are unique within the case
    def block(self, size):
        if size == 0:
            return "b0.0"
        self.fill = self.fill % 250 + 1
        return f"b{size}.{self.fill}"

    def presence(self, rng):
        self.idx += 1
        return f"{rng.choice('hd')}{self.idx}"


def p_response(rng, sim, shape=None):
    """Entries of a response. Shapes: tiny (one message), multi (presence message + two or three block
    messages), odd (empty, only presences, oversized / empty blocks in between)."""
    shape = shape or rng.choice(["tiny", "tiny", "multi", "multi", "multi", "odd"])
    if shape == "tiny":
        items = [sim.block(rng.choice([1, 5, 100, 4096])) for _ in range(rng.randrange(1, 4))]
        if rng.random() < 0.5:
            items.insert(rng.randrange(len(items) + 1), sim.presence(rng))
    elif shape == "multi":
        n = rng.choice([2, 2, 2, 3])
        items = [sim.block(rng.choice([BIG, BIG, BIG + 7, M])) for _ in range(n)]
        if rng.random() < 0.6:
            items.insert(rng.randrange(len(items) + 1), sim.block(rng.choice([1, 10, 1000])))
        if rng.random() < 0.7:
            items.insert(rng.randrange(len(items) + 1), sim.presence(rng))
    else:
        r = rng.random()
        if r < 0.2:
            return "-"
        if r < 0.45:
            items = [sim.presence(rng) for _ in range(rng.randrange(1, 4))]
        elif r < 0.75:
            items = [sim.block(rng.choice([M + 1, 0, 3, BIG])) for _ in range(rng.randrange(1, 5))]
        else:
            items = [sim.block(M + 1)]
    return ",".join(items)


def p_wants(rng, sim):
    if rng.random() < 0.1:
        return "-"
    items = []
    for _ in range(rng.randrange(1, 5)):
        sim.idx += 1
        items.append(f"{rng.choice('bh')}{sim.idx}")
    return ",".join(items)


def cid_bytes(kind, i):
    v, codec, mh, dlen = map(int, kind.split("/"))
    digest = i.to_bytes(4, "little") + b"\xab" * (dlen - 4)
    mhb = uvar(mh) + uvar(dlen) + digest
    return mhb if v == 0 else uvar(1) + uvar(codec) + mhb


def in_cid(rng, sim):
    """CID bytes of a wantlist / presence entry: mostly valid, else a near miss."""
    sim.idx += 1
    c = cid_bytes(rng.choice(PKINDS), sim.idx)
    r = rng.random()
    if r < 0.6:
        return c
    k = rng.randrange(8)
    if k == 0:
        return c[:rng.randrange(len(c))]                       # truncated at any offset
    if k == 1:
        return c + bytes([rng.getrandbits(8)])                 # trailing byte (read_bytes ignores it)
    if k == 2:
        return uvar(rng.choice([0, 2, 3, 128])) + c[1:]        # explicit v0 / unknown version
    if k == 3:
        return b"\x81\x00" + c[1:]                             # non-minimal version varint
    if k == 4:
        return b"\x01\x55\x12\x41" + b"\x07" * 65              # digest of 65 bytes
    if k == 5:
        return b"\x12\x20" + b"\x09" * rng.choice([31, 32, 33])
    if k == 6:
        return b""
    return bytes(rng.getrandbits(8) for _ in range(rng.randrange(1, 12)))


def in_message(rng, sim):
    """Arguments of `inmsg`: a want-list of every shape, blocks, presences."""
    args = []
    r = rng.random()
    if r < 0.6:
        n = rng.choice([1, 1, 2, 3, 5])
        args.append("w=" + "+".join(f"{hx(in_cid(rng, sim))}/{rng.choice([0, 0, 1, 1, 2, 3, 255, 2147483647])}"
                                    for _ in range(n)))
    elif r < 0.7:
        args.append("nowl")
    if rng.random() < 0.35:
        toks = []
        for _ in range(rng.randrange(1, 4)):
            p, d = block_item(rng)
            if len(d) > 8192:
                d = d[:4096]
            tok, h = item_token(p, d)
            toks.append(tok + (":" + h.hex() if h is not None else ""))
        args.append("b=" + "+".join(toks))
    if rng.random() < 0.3:
        args.append("p=" + "+".join(f"{hx(in_cid(rng, sim))}/{rng.choice([0, 1, 1, 2, 77])}"
                                    for _ in range(rng.randrange(1, 4))))
    return " ".join(args)


def slow_delays(rng, frames, late=False):
    """Per-message delays of a slow link for a flush of `frames` messages: each within WRITE_TIMEOUT, all
    together beyond it (when there are at least two); `late`: one message takes longer than WRITE_TIMEOUT."""
    wt = write_timeout_ms()
    n = max(frames, 2)
    lo = wt // n + 1
    r = rng.random()
    if r < 0.4:
        ds = [rng.choice([lo, lo, wt // 2 + 1, wt - 1, wt])]
    elif r < 0.8:
        ds = [rng.choice([lo, wt // 2 + 1, wt - 1, wt, rng.randrange(lo, wt + 1)]) for _ in range(min(n, 12))]
    else:
        ds = [rng.choice([0, 1, 1000]) for _ in range(min(n, 12) - 1)] + [wt]
        ds[rng.randrange(len(ds))] = wt
    if late:
        j = rng.randrange(0, min(n, 12))
        ds += [ds[-1]] * (j + 1 - len(ds))
        ds[j] = rng.choice([wt + 1, wt + 1, 2 * wt, wt + 1000])
    return ds


def slow_token(rng, frames, late=False):
    return " slow=" + ",".join(map(str, slow_delays(rng, frames, late)))


def fate(rng, frames):
    """How a substream ends: healthy (possibly a slow link), or a write failure / stall at a message index."""
    r = rng.random()
    slow = slow_token(rng, frames, rng.random() < 0.3) if rng.random() < 0.12 else ""
    if r < 0.45:
        return slow
    k = rng.randrange(0, max(frames, 1) + 1)
    if r < 0.85:
        return f" fail={k}" + (f".{rng.choice([1, 2])}" if rng.random() < 0.3 else "") + slow
    return f" stall={k}" + slow


def arrival(rng):
    """How an inbound frame arrives: whole, in pieces with time in between (reads have no timeout), or only
    its beginning for now."""
    r = rng.random()
    if r < 0.5:
        return ""
    if r < 0.78:
        cuts = sorted(rng.sample(range(1, 48), rng.choice([1, 1, 2, 3])))
        return f" cut={','.join(map(str, cuts))} gap={rng.choice([0, 1, 5000, 15000, 15001, 20000, 60000, 600000])}"
    return f" hold={rng.choice([1, 1, 2, 3, 10, 50])}"


def long_response(rng, sim, n):
    """A response of `n` block messages (plus a presence message sometimes): n blocks no two of which share a
    batch, small blocks and presences in between."""
    items = [sim.block(rng.choice([BIG, BIG, BIG + 7, M])) for _ in range(n)]
    if rng.random() < 0.4:
        items.insert(rng.randrange(len(items) + 1), sim.block(rng.choice([1, 10, 1000])))
    if rng.random() < 0.4:
        items.insert(rng.randrange(len(items) + 1), sim.presence(rng))
    return ",".join(items)


CMD_CAP = 4096      # capacity of the handle -> event loop command channel (checked against the repo: CONST_TABLE)


def burst_block(i):
    """block of response `i` of a `burst` (adapter and driver use the same rule)"""
    return (1 + i // 251, i % 251)


def gen_burst_case(rng, n, variant):
    """More responses than the command channel holds, handed over while the event loop is not polled: `cached`: over the
    substream the protocol already holds; `fresh`: queued behind the open of a substream, flushed when it opens; `dial`:
    queued behind the dial (peer not connected yet)."""
    kind = rng.choice(PKINDS)
    p = rng.choice([1, 2, 3])
    ops = ["pnew"]
    if variant == "cached":
        ops += [f"conn {p}", f"req {p} k={kind} b1", "subopen s0", f"burst {p} {n} k={kind}"]
    elif variant == "fresh":
        ops += [f"conn {p}", f"burst {p} {n} k={kind}", "subopen s0"]
    else:
        ops += [f"burst {p} {n} k={kind}", f"conn {p}", "subopen s0"]
    if rng.random() < 0.5:
        ops.append(f"resp {p} k={kind} b40.7")
    return ops


def burst_cases(rng, tier):
    """per run: one burst well above the capacity, the two boundaries (exactly full: no suspension; one more: the last
    command is the one the user is suspended with)"""
    variants = ["cached", "fresh", "dial"]
    rng.shuffle(variants)
    plan = [(CMD_CAP + 1 + rng.randrange(1, 300), variants[0]), (CMD_CAP + 1, variants[1]), (CMD_CAP, variants[2])]
    if tier != "quick":
        plan += [(CMD_CAP + rng.randrange(1, 1500), v) for v in variants] + [(rng.randrange(1, 200), v) for v in variants]
    return [gen_burst_case(rng, n, v) for n, v in plan]


def gen_proto_case(rng, tier):
    """One protocol-level dialogue on the real event loop."""
    sim = Sim()
    ops = ["pnew"]
    kind = rng.choice(PKINDS)

    def emit(op):
        ops.append(op)
        sim.apply(op)

    def resp(p, shape=None):
        emit(f"resp {p} k={kind} {p_response(rng, sim, shape)}")

    family = rng.choice(["cached", "cached", "cached", "fresh", "dial", "walk", "walk", "inbound", "inbound", "slow",
                         "slow", "edges", "edges"])
    p = rng.choice([1, 2, 3])
    if family == "edges":
        # short scripts for arms a random dialogue rarely reaches: a request that fails / times out on the fresh
        # or on the cached substream (with responses queued behind it), events for a substream id the protocol
        # has forgotten (its connection was closed in between)
        wt = write_timeout_ms()
        how = rng.choice(["req-fresh", "req-cached", "stale-open", "stale-fail", "dead-conn", "in-err", "in-err"])
        dead = rng.choice(["stall=0", "fail=0", f"slow={wt + 1}", f"slow={2 * wt}", "fail=0.1"])
        if how != "dead-conn":
            emit(f"conn {p}")
        if how == "dead-conn":
            # the dial succeeds but the connection is gone before a substream can be opened on it
            resp(p, rng.choice(["tiny", "multi"]))
            emit(f"conn {p} dead")
            emit(f"disc {p}")
            emit(f"conn {p}")
        elif how == "in-err":
            # an inbound substream that ends with an error (reset, oversized frame) or cleanly, then a new one
            emit(f"insub {p}")
            emit(f"inmsg i0 {in_message(rng, sim)}".rstrip() + arrival(rng))
            if sim.held and rng.random() < 0.5:
                emit("inrest i0")
            emit(f"{rng.choice(['inreset', 'inreset', 'inbig', 'inclose'])} i0")
            emit(f"inmsg i0 {in_message(rng, sim)}".rstrip())
            emit(f"insub {p}")
            emit(f"inmsg i1 {in_message(rng, sim)}".rstrip() + arrival(rng))
        elif how == "req-fresh":
            emit(f"req {p} k={kind} {p_wants(rng, sim)}")
            if rng.random() < 0.6:
                resp(p, rng.choice(["tiny", "multi"]))          # dropped with the failing request
            emit(f"subopen s0 {dead}")
        elif how == "req-cached":
            resp(p, "tiny")
            emit("subopen s0")
            emit(f"plan s0 {dead}")
            emit(f"req {p} k={kind} {p_wants(rng, sim)}")       # fails over the cached substream, re-queued
            if rng.random() < 0.5:
                resp(p, rng.choice(["tiny", "multi"]))
            if sim.opens:
                emit(f"subopen s{max(sim.opens)}{slow_token(rng, 3) if rng.random() < 0.3 else ''}")
        else:
            resp(p, rng.choice(["tiny", "multi"]))
            emit(f"disc {p}")
            if rng.random() < 0.7:
                emit(f"conn {p}")
            if rng.random() < 0.5:
                q = p % 3 + 1
                emit(f"conn {q}")
                resp(q, "tiny")                                  # another peer's queue must survive
            emit("subopen s0" if how == "stale-open" else "subfail s0")
            for n in sorted(sim.opens):
                emit(f"subopen s{n}")
        resp(p, "tiny")
        if sim.opens:
            emit(f"subopen s{max(sim.opens)}")
    elif family == "slow":
        # a slow but healthy link: every message is accepted within WRITE_TIMEOUT, the response (or the
        # queue) takes longer than that as a whole - over the fresh substream, after a dial, over the cached
        # substream; sometimes one message is slower than WRITE_TIMEOUT (that call fails)
        items = long_response(rng, sim, rng.choice([3, 3, 4, 5]))
        late = rng.random() < 0.2
        how = rng.choice(["fresh", "fresh", "fresh", "cached", "plan", "dial", "dial"])

        def total(queued=True):
            # messages of the flush the delays are laid out for
            return sum(sim.pend.get(p) or []) + (0 if queued else Sim.frames_of(["resp", str(p), "k", items]))

        if how == "fresh":
            emit(f"conn {p}")
            r = rng.random()
            if r < 0.2:
                emit(f"req {p} k={kind} {p_wants(rng, sim)}")
            elif r < 0.35:
                resp(p, "tiny")
            emit(f"resp {p} k={kind} {items}")
            if rng.random() < 0.3:
                resp(p, rng.choice(["tiny", "multi"]))
            emit(f"subopen s0{slow_token(rng, total(), late)}")
        elif how == "dial":
            emit(f"resp {p} k={kind} {items}")
            if rng.random() < 0.3:
                emit(f"req {p} k={kind} {p_wants(rng, sim)}")
            emit(f"conn {p}")
            emit(f"subopen s0{slow_token(rng, total(), late)}")
        else:
            emit(f"conn {p}")
            resp(p, "tiny")
            if how == "cached":
                emit(f"subopen s0{slow_token(rng, total(False), late)}")
            else:
                emit("subopen s0")
                emit(f"plan s0{slow_token(rng, total(False), late)}")
            emit(f"resp {p} k={kind} {items}")
        if rng.random() < 0.3:
            # meanwhile a remote is slow, too
            q = rng.choice([p, 2])
            if q not in sim.conns:
                emit(f"conn {q}")
            emit(f"insub {q}")
            emit(f"inmsg i0 {in_message(rng, sim)}".rstrip() + arrival(rng))
        resp(p, rng.choice(["tiny", "multi"]))
        if sim.opens:
            emit(f"subopen s{max(sim.opens)}{fate(rng, 3)}")
        if sim.held:
            emit(f"inrest i{min(sim.held)}")
    elif family == "cached":
        # a response over a cached substream that dies at message index k; the retry over a fresh one
        emit(f"conn {p}")
        resp(p, "tiny")
        emit(f"subopen s0")
        r = rng.random()
        if r < 0.35:
            resp(p)
        elif r < 0.7:
            emit(f"req {p} k={kind} {p_wants(rng, sim)}")       # over the cached substream
        if rng.random() < 0.15:
            # the cached substream fails under a request
            emit(f"plan s0 fail={rng.choice([0, 0, 1])}")
            emit(f"req {p} k={kind} {p_wants(rng, sim)}")
            if sim.opens:
                emit(f"subopen s{max(sim.opens)}")
        items = p_response(rng, sim, "multi")
        frames = Sim.frames_of(["resp", str(p), "k", items])
        k = rng.randrange(0, frames + 1)
        live = [n for n, f in sim.far.items() if not f[1]]
        emit(f"plan s{live[-1] if live else 0} {rng.choice(['fail', 'fail', 'stall'])}={k}")
        emit(f"resp {p} k={kind} {items}")
        if rng.random() < 0.3:
            resp(p, "tiny")                     # queued behind the retry
        r = rng.random()
        n = max(sim.opens) if sim.opens else 1
        if r < 0.6:
            emit(f"subopen s{n}")
        elif r < 0.8:
            emit(f"subopen s{n}{fate(rng, frames)}")
        elif r < 0.9:
            emit(f"subfail s{n}")
        else:
            emit(f"disc {p}")
        resp(p, "tiny")
    elif family == "fresh":
        emit(f"conn {p}")
        for _ in range(rng.randrange(1, 4)):
            if rng.random() < 0.3:
                emit(f"req {p} k={kind} {p_wants(rng, sim)}")
            else:
                resp(p)
        q = sim.pend.get(p) or [1]
        emit(f"subopen s0{fate(rng, sum(q))}")
        resp(p)
        if sim.opens:
            emit(f"subopen s{max(sim.opens)}")
    elif family == "dial":
        p = rng.choice([1, 2, 3, 3, 4, 5])
        if rng.random() < 0.2:
            emit(f"view {p} {rng.choice('cgd')}")
        resp(p, rng.choice(["tiny", "multi"]))
        if rng.random() < 0.3:
            emit(f"req {p} k={kind} {p_wants(rng, sim)}")
        r = rng.random()
        if r < 0.55:
            emit(f"conn {p}" + (" dead" if rng.random() < 0.3 else ""))
            if sim.opens:
                emit(f"subopen s{max(sim.opens)}{fate(rng, 3)}")
        elif r < 0.85:
            emit(f"dialfail {p}")
            resp(p, "tiny")
            emit(f"conn {p}")
        else:
            emit(f"conn {p}")
            emit(f"conndead {p}")
            resp(p, "tiny")
        resp(p, "tiny")
        if sim.opens:
            emit(f"subopen s{max(sim.opens)}")
    elif family == "inbound":
        emit(f"conn {p}")
        emit(f"insub {p}")
        for _ in range(rng.randrange(2, 7)):
            k = max(sim.nin - 1, 0)
            r = rng.random()
            if r < 0.7:
                emit(f"inmsg i{k} {in_message(rng, sim)}".rstrip() + arrival(rng))
                if k in sim.held and rng.random() < 0.85:
                    if rng.random() < 0.4:
                        # something else happens while the frame is incomplete
                        q = rng.choice([1, 2, 3])
                        emit(rng.choice([f"resp {q} k={kind} {p_response(rng, sim, 'tiny')}",
                                         f"req {q} k={kind} {p_wants(rng, sim)}", f"conn {q}",
                                         f"inmsg i{k} {in_message(rng, sim)}".rstrip()]))
                    emit(f"inrest i{k}")
            elif r < 0.78:
                emit(f"inbad i{k} {rng.choice(['ff', '0a05', '08', '1a0301', '0affffffffffffffffffff01'])}")
            elif r < 0.84:
                emit(f"{rng.choice(['inbig', 'inclose', 'inreset'])} i{k}")
            elif r < 0.92:
                q = rng.choice([p, p, 2, 3])
                if q not in sim.conns:
                    emit(f"conn {q}")
                emit(f"insub {q}")
            else:
                emit(f"disc {p}")
                emit(f"conn {p}")
                emit(f"insub {p}")
    # random walk (also the tail of every family): any operation, names taken from the book-keeping
    steps = rng.randrange(6, 16) if family == "walk" else rng.randrange(0, 4)
    for _ in range(steps):
        r = rng.random()
        p = rng.choice([1, 1, 2, 2, 3, 4])
        if r < 0.3:
            resp(p)
        elif r < 0.37:
            emit(f"req {p} k={kind} {p_wants(rng, sim)}")
        elif r < 0.5:
            emit(f"conn {p}" + (" dead" if rng.random() < 0.1 else ""))
        elif r < 0.56:
            emit(f"disc {p}")
        elif r < 0.6:
            emit(f"dialfail {p}")
        elif r < 0.63:
            emit(f"view {p} {rng.choice('cgd')}")
        elif r < 0.65:
            emit(f"conndead {p}")
        elif r < 0.82:
            n = rng.choice(sorted(sim.opens)) if sim.opens and rng.random() < 0.9 else rng.randrange(0, sim.next + 1)
            if rng.random() < 0.85:
                emit(f"subopen s{n}{fate(rng, 3)}")
            else:
                emit(f"subfail s{n}")
        elif r < 0.9:
            live = [n for n, f in sim.far.items() if not f[1]]
            n = rng.choice(live) if live and rng.random() < 0.9 else rng.randrange(0, sim.next + 1)
            emit(f"plan s{n} {(fate(rng, 3).strip() or 'ok')}")
        elif r < 0.95:
            if p in sim.conns:
                emit(f"insub {p}")
            else:
                emit(f"conn {p}")
        elif r < 0.985 or not sim.held:
            k = rng.randrange(0, sim.nin + 1)
            emit(f"inmsg i{k} {in_message(rng, sim)}".rstrip() + arrival(rng))
        else:
            emit(f"inrest i{rng.choice(sorted(sim.held))}")
    while sim.held and rng.random() < 0.7:
        emit(f"inrest i{min(sim.held)}")
    return ops


def gen_case(rng, tier):
    ops = []
    for _ in range(rng.randrange(3, 7)):
        r = rng.random()
        if r < 0.25:
            ops += op_prefix(rng)
        elif r < 0.5:
            ops += op_inbound(rng)
        elif r < 0.75:
            ops += op_message(rng)
        else:
            ops += op_batches(rng, tier)
    return ops


def exhaustive_vectors(maxlen):
    """Every size vector of length <= maxlen over the boundary pool (thorough tier)."""
    import itertools
    pool = [0, 1, M // 2, M // 2 + 1, M - 1, M, M + 1]
    ops = []
    for k in range(1, maxlen + 1):
        for vec in itertools.product(pool, repeat=k):
            ops.append("batches 1 85 18 32 " + ",".join(map(str, vec)))
    return [ops[i:i + 8] for i in range(0, len(ops), 8)]


def gen_cases(rng, tier):
    n = {"quick": 700, "thorough": 25000, "search": 2500}[tier]
    if tier == "thorough":
        yield from exhaustive_vectors(4)
    # protocol-level dialogues (real event loop) interleaved with the codec / batching cases
    every = {"quick": 5, "thorough": 4, "search": 3}[tier]
    bursts = burst_cases(rng, tier)
    for i in range(n):
        if i % 40 == 7 and bursts:
            yield bursts.pop()
        if i % every == 0:
            yield gen_proto_case(rng, tier)
        else:
            yield gen_case(rng, tier)


def corpus():
    """Always replayed first: the DESIGN §8-p witness (before the repair: one batch of 381301 one-byte
    blocks encodes to 4194313 bytes > MAX_MESSAGE_SIZE and the whole response is silently dropped),
    every supported hasher, and the boundaries of the limits."""
    cases = [["batches 1 85 18 32 1*381300", "batches 1 85 18 32 1*381301", "batches 1 85 18 32 0*524288"]]
    data = b"indexed transaction payload"
    ops = []
    for code in NODE_CODES:
        for v, codec in ((1, 0x55), (0, 0x70)):
            p = prefix_bytes(v, codec, code, DIGEST_LEN[code])
            ops.append(f"inbound {hx(p)} {data.hex()} h={digest(code, data).hex()}")
    cases.append(ops)
    cases.append([f"batches 1 85 18 32 {M},{M + 1},{M - 1},1,1,{M // 2},{M // 2},0,{M}",
                  f"batches 1 85 18 32 1*{CAP},1*{CAP + 1},{M - 2 * CAP - 1},1,1",
                  "batches 1 18446744073709551615 18446744073709551615 64 1*65536,2097152"])
    # presence lists at the message limit: the largest that fits, the first that does not (skipped by the
    # code; the blocks must still go out), a far larger one, and one next to a response of several batches
    k = "1 85 18 32"
    edge = max_fitting_presences(k)
    cases.append([f"batches {k} 1024,2048,512 pres={edge}", f"batches {k} 1024,2048,512 pres={edge + 1}",
                  f"batches {k} 1024,2048,512 pres=120000", f"batches {k} - pres={edge + 1}",
                  f"batches 0 112 18 32 {M},{M},1 pres={max_fitting_presences('0 112 18 32') + 1}",
                  f"batches {k} 7,0,9 pres=2"])
    return cases


def mutate_case(rng, case, n):
    for _ in range(n):
        c = list(case)
        for _ in range(rng.randrange(1, 3)):
            if len(c) > 1 and rng.random() < 0.5:
                del c[rng.randrange(len(c))]
            else:
                c.insert(rng.randrange(len(c) + 1), rng.choice(gen_case(rng, "quick")))
        yield c


# ------------------------------------------------------------------ oracle

def check_delivery(v, i, cid_hex, data_s, sources):
    """One delivered (cid, data) against the blocks that were put on the wire (`sources`: list of
    (prefix bytes, data) still unmatched, in order). Returns the index of the matching source."""
    data = parse_data(data_s)
    try:
        cid = parse_cid(bytes.fromhex(cid_hex))
    except ValueError:
        cid = None
    if cid is None:
        v("cid-unparseable", f"delivered CID {cid_hex} is not a valid CID", i)
        return None
    ver, codec, code, dg = cid
    want = digest(code, data)
    if want is None and not (code in KECCAK_CODES and len(data) > KECCAK_MAX):
        v("unverifiable-hash", f"block delivered under multihash code {code:#x} that the node cannot compute", i)
    elif want is not None and want != dg:
        v("cid-not-self-certifying", f"delivered CID carries digest {dg.hex()} but {code:#x}(data) = {want.hex()}", i)
    # the block must be one that was received, with version / codec / code taken from its prefix
    for j, (p, d) in enumerate(sources):
        if d != data:
            continue
        vals, end = lenient_prefix(p)
        if vals is None:
            continue
        if (vals[0], vals[2] & _M) == (ver, code) and (vals[1] & _M) == codec:
            if end != len(p):
                v("malformed-delivered", f"block with trailing bytes after its prefix {p.hex()} was delivered", i)
            return j
    v("delivered-unknown", f"delivered ({cid_hex}, {data_s}) matches no received block (data and prefix fields)", i)
    return None


def must_drop(p):
    """Clearly malformed / uncomputable by any reading of the format: fewer than four numbers,
    trailing bytes, version not 0/1, or a code outside everything the node could compute."""
    vals, end = lenient_prefix(p)
    if vals is None:
        return "truncated prefix"
    if end != len(p):
        return "trailing bytes"
    if canonical(p):
        if vals[0] > 1:
            return f"CID version {vals[0]}"
        if vals[2] not in HASHES and vals[2] not in EXTRA:
            return f"unknown multihash code {vals[2]:#x}"
        if vals[0] == 0 and (vals[1] != 0x70 or vals[2] != 0x12):
            return "CIDv0 must be dag-pb / sha2-256"
    return None


def must_deliver(p):
    vals, _ = lenient_prefix(p)
    if not canonical(p) or vals[3] > 255:
        return False
    if vals[0] == 1:
        return vals[2] in MUST_DELIVER
    return vals[0] == 0 and vals[1] == 0x70 and vals[2] == 0x12


# ------------------------------------------------------------------ protocol level: oracle

PROTO_OPS = {"conn", "disc", "conndead", "dialfail", "view", "subopen", "subfail", "plan", "resp", "burst", "req", "insub",
             "inmsg", "inbad", "inbig", "inclose", "inreset", "inrest"}


def plan_fails(tokens):
    """Does the far end described by the tokens after `subopen s<n>` / `plan s<n>` ever make a call fail?
    It does when it refuses or stalls a message, or takes longer than WRITE_TIMEOUT for ONE message. A link
    that is merely slow - every message within WRITE_TIMEOUT, however long all of them take - does not:
    whatever fits a message must still be sent over it."""
    for x in tokens:
        if x.startswith("slow="):
            if any(int(d) > write_timeout_ms() for d in x[5:].split(",")):
                return True
        elif x != "ok":
            return True
    return False


def parse_entries(s):
    """`b<size>.<fill>` / `h<i>` / `d<i>` -> [("b", size, fill) | ("p", idx, type)]"""
    out = []
    if s == "-":
        return out
    for it in s.split(","):
        if it[0] == "b":
            a, b = it[1:].split(".")
            out.append(("b", int(a), int(b)))
        else:
            out.append(("p", int(it[1:]), 0 if it[0] == "h" else 1))
    return out


def parse_frames(field):
    """`s<n>=<frame>|<frame>|~k ...` -> {n: [frame]} with frame = (kind letter, encoded len, [items])."""
    res = {}
    if field == "-":
        return res
    for part in field.split(" "):
        name, _, body = part.partition("=")
        name = name.split("@")[0]            # s<n>@<ms>: when the last of them was accepted
        frames = []
        for w in body.split("|"):
            if w.startswith("~"):
                continue
            odd = ""
            if "!" in w:
                w, _, odd = w.partition("!")
            if w[0] in "UE":
                frames.append((w[0], int(w[1:]), [], odd))
                continue
            head, _, items = w.rpartition("/")
            ln = int(head[1:].split("/")[0])
            if w[0] == "B":
                its = [tuple(map(int, x.split("."))) if "x" not in x else (int(x.split(".")[0]), -1)
                       for x in items.split("+")]
            elif w[0] == "P":
                its = [tuple(map(int, x.split("."))) if x[0] != "?" else (-1, -1) for x in items.split("+")]
            else:
                its = []
                for x in items.split("+"):
                    if x[0] in "bh" and x[1:].isdigit():
                        its.append((int(x[1:]), 0 if x[0] == "b" else 1))
                    else:
                        its.append((-1, -1))
            frames.append((w[0], ln, its, odd))
        res[int(name[1:])] = frames
    return res


class ProtoOracle:
    """Judges the dialogue of one protocol instance against the property: no message above the limit; on
    every substream the blocks of a response appear as a prefix of its fitting blocks, in order, each once,
    starting with the first (a retry restarts the whole response); a response is not cut short on a
    substream without an injected failure; and a response handed to the protocol reaches one substream
    completely unless the environment failed it (dial failure, open failure, closed connection, failing
    fresh substream, no address) or its substream / dial is still outstanding at the end."""

    def __init__(self, v):
        self.v = v
        self.sub_peer = {}           # s<n> -> peer
        self.outstanding = {}        # s<n> -> peer (open command not answered)
        self.dialing = set()
        self.connected = set()
        self.failing = {}            # s<n> -> step at which a failure plan was set (latest)
        self.handed = []             # dicts: step, peer, kind, blocks [(size, fill)], pres [(idx, ty)], wants
        self.owner = {}              # ("b", size, fill) / ("p", idx) / ("w", idx) -> index into handed
        self.wire = {}               # s<n> -> [(step, frame)]
        self.excuse = {}             # peer -> [steps of environment failures]
        self.sticky = set()          # peers with view / conndead interference
        self.in_peer = {}            # i<k> -> peer
        self.handed_subs = {}        # s<n> -> peer, substreams given to the protocol
        self.dead_subs = set()       # ... whose connection was closed afterwards
        self.held = {}               # i<k> -> tokens of the `inmsg` whose frame is incomplete
        self.in_alive = {}           # i<k> -> peer: inbound substreams the environment has not ended
        self.bursts = []             # dicts: step, peer, j0 (index of its first response in handed), n, clean

    def note_excuse(self, p, i):
        self.excuse.setdefault(p, []).append(i)

    def step(self, i, t, o):
        f = o.split(";")
        if len(f) != 5:
            self.v("unexpected", f"unexpected observation {o[:80]}", i)
            return
        res, calls, events, writes, _state = f
        op = t[0]
        if op == "conn" and res == "ok":
            self.connected.add(int(t[1]))
            self.dialing.discard(int(t[1]))
            if len(t) > 2:
                self.sticky.add(int(t[1]))       # its command channel is gone: nothing can be opened
        elif op == "disc" and res == "ok":
            p = int(t[1])
            self.connected.discard(p)
            self.in_alive = {k: q for k, q in self.in_alive.items() if q != p}
            self.note_excuse(p, i)
            self.dead_subs |= {n for n, q in self.handed_subs.items() if q == p}
            self.outstanding = {n: q for n, q in self.outstanding.items() if q != p}
        elif op == "dialfail":
            self.dialing.discard(int(t[1]))
            self.note_excuse(int(t[1]), i)
        elif op in ("view", "conndead"):
            self.sticky.add(int(t[1]))
        elif op == "subfail" and res == "ok":
            n = int(t[1][1:])
            self.note_excuse(self.outstanding.pop(n, self.sub_peer.get(n, 0)), i)
        elif op == "subopen" and res == "ok":
            n = int(t[1][1:])
            self.outstanding.pop(n, None)
            self.handed_subs[n] = self.sub_peer.get(n, 0)
            if plan_fails(t[2:]):
                self.failing[n] = i
                self.note_excuse(self.sub_peer.get(n, 0), i)
        elif op == "plan" and res == "ok":
            n = int(t[1][1:])
            if plan_fails(t[2:]):
                self.failing[n] = i
            else:
                self.failing.pop(n, None)
        elif op in ("resp", "req") and res == "ok":
            p = int(t[1])
            h = {"step": i, "peer": p, "blocks": [], "pres": [], "wants": [], "op": op,
                 "connected": p in self.connected}
            if op == "resp":
                for e in parse_entries(t[3]):
                    if e[0] == "b":
                        if 0 < e[1] <= BATCH_LIMIT:
                            h["blocks"].append((e[1], e[2]))
                            self.owner.setdefault(("b", e[1], e[2]), len(self.handed))
                    else:
                        h["pres"].append((e[1], e[2]))
                        self.owner.setdefault(("p", e[1]), len(self.handed))
            elif t[3] != "-":
                for x in t[3].split(","):
                    h["wants"].append((int(x[1:]), 0 if x[0] == "b" else 1))
                    self.owner.setdefault(("w", int(x[1:])), len(self.handed))
            self.handed.append(h)
        elif op == "burst" and (res == "ok" or res.startswith("sus")):
            p, cnt = int(t[1]), int(t[2])
            j0 = len(self.handed)
            clean = True
            for k in range(cnt):
                b = burst_block(k)
                clean = clean and ("b",) + b not in self.owner
                self.owner.setdefault(("b",) + b, j0 + k)
                self.handed.append({"step": i, "peer": p, "blocks": [b], "pres": [], "wants": [], "op": "resp",
                                    "connected": p in self.connected, "burst": True})
            self.bursts.append({"step": i, "peer": p, "j0": j0, "n": cnt, "clean": clean,
                                "connected": p in self.connected})
        elif op == "insub" and res.startswith("i"):
            self.in_peer[int(res[1:])] = int(t[1])
            # (a second inbound substream of a peer replaces the first)
            self.in_alive = {k: q for k, q in self.in_alive.items() if q != int(t[1])}
            self.in_alive[int(res[1:])] = int(t[1])
        elif op in ("inbad", "inbig", "inclose", "inreset") and res == "ok":
            self.in_alive.pop(int(t[1][1:]), None)
        elif op in ("inmsg", "inrest") and res == "none":
            k = int(t[1][1:])
            if k in self.in_alive and (op == "inrest") == (k in self.held):
                self.v("inbound-substream-dropped", f"inbound substream i{k} of peer {self.in_alive[k]} was neither closed "
                       f"nor reset nor replaced, its connection is open and every message on it was well-formed, yet the "
                       f"protocol no longer reads it (reads have no timeout: a slow remote's want-list is lost)", i)
                self.in_alive.pop(k, None)
        if calls != "-":
            for c in calls.split(","):
                w = c.split(":")
                if w[0] == "dial":
                    self.dialing.add(int(w[1]))
                elif w[0] == "open":
                    n = int(w[2][1:])
                    self.sub_peer[n] = int(w[1])
                    self.outstanding[n] = int(w[1])
        for n, frames in parse_frames(writes).items():
            if n in self.dead_subs and frames:
                self.v("written-to-dead-substream", f"s{n} belongs to a connection that was closed before; the "
                       f"protocol still writes to it (the message cannot arrive)", i)
            for fr in frames:
                self.wire.setdefault(n, []).append((i, fr))
                self.check_frame(i, n, fr)

    def check_frame(self, i, n, fr):
        kind, ln, items, odd = fr
        if kind == "U":
            self.v("undecodable-message", f"a frame of {ln} bytes on s{n} is not a bitswap message", i)
        if ln > MSG_LIMIT:
            self.v("message-too-large", f"message of {ln} bytes on s{n} exceeds the {MSG_LIMIT} byte limit", i)
        if "mixed" in odd:
            self.v("mixed-message", f"a message on s{n} mixes want-list / blocks / presences", i)
        p = self.sub_peer.get(n)
        for it in items:
            key = ("b", it[0], it[1]) if kind == "B" else (("p", it[0]) if kind == "P" else ("w", it[0]))
            if kind == "B" and it[0] == 0:
                continue
            j = self.owner.get(key)
            if j is None:
                self.v("unknown-content-sent", f"s{n} carries {key} which no response / request contains", i)
            elif self.handed[j]["peer"] != p:
                self.v("sent-to-wrong-peer", f"{key} was handed over for peer {self.handed[j]['peer']} but written "
                       f"to s{n} of peer {p}", i)

    def finish_bursts(self):
        """Reference rule `response-command-dropped`: every response handed to `send_response` reaches the event loop
        (a full command channel suspends the caller, it drops nothing), so - on substreams that were never told to
        fail - the one-block responses of a burst are written each exactly once, in the order handed over."""
        for b in self.bursts:
            if not b["clean"]:
                continue                     # (a mutated case repeats block contents: not attributable)
            p, j0, cnt = b["peer"], b["j0"], b["n"]
            written = set()
            for n, frames in sorted(self.wire.items()):
                seq = []
                for (_i, (kind, _ln, items, _odd)) in frames:
                    if kind != "B":
                        continue
                    for it in items:
                        j = self.owner.get(("b", it[0], it[1]))
                        if j is not None and j0 <= j < j0 + cnt:
                            seq.append(j - j0)
                if not seq:
                    continue
                bad_order = next((k for k in range(1, len(seq)) if seq[k] <= seq[k - 1]), None)
                gap = next((k for k in range(1, len(seq)) if seq[k] > seq[k - 1] + 1), None)
                if bad_order is not None:
                    self.v("blocks-not-sent-once", f"burst of step {b['step']} on s{n}: response {seq[bad_order]} is written "
                           f"after response {seq[bad_order - 1]} (each once, in the order handed over)", b["step"])
                elif gap is not None and n not in self.failing:
                    self.v("response-command-dropped", f"burst of step {b['step']} on s{n}: response {seq[gap - 1]} is followed "
                           f"by response {seq[gap]}; s{n} was never told to fail", b["step"])
                written |= set(seq)
            missing = [k for k in range(cnt) if k not in written]
            excused = (p in self.sticky or any(i >= b["step"] for i in self.excuse.get(p, []))
                       or p in self.outstanding.values() or p in self.dialing
                       or (not b["connected"] and not (1 <= p <= 3)))
            if missing and not excused:
                self.v("response-command-dropped", f"burst of step {b['step']}: {len(missing)} of {cnt} responses handed to "
                       f"send_response (first: number {missing[0]}) reached no substream although nothing failed and nothing is "
                       f"outstanding for peer {p} (a full command channel must suspend the caller, not drop the response)",
                       b["step"])

    def finish(self, last):
        self.finish_bursts()
        for j, h in enumerate(self.handed):
            if h.get("burst"):
                continue
            want = ([("p",) + x for x in h["pres"]] if h["pres"] else []) + [("b",) + x for x in h["blocks"]]
            want += [("w",) + x for x in h["wants"]]
            if h["op"] == "req" and not h["wants"]:
                continue                      # the empty request carries nothing identifiable
            if not want:
                continue
            delivered = False
            complete_on, seen_on = [], []
            for n, frames in sorted(self.wire.items()):
                got = []
                for (i, (kind, ln, items, odd)) in frames:
                    for it in items:
                        key = ("b", it[0], it[1]) if kind == "B" else (("p", it[0]) if kind == "P" else ("w", it[0]))
                        if self.owner.get(key) == j:
                            got.append((kind.lower(),) + tuple(it))
                if not got:
                    continue
                seen_on.append(n)
                # attempts on one substream: each must be a prefix of the whole response, from its beginning
                pos = 0
                first_bad = None
                for g in got:
                    if pos < len(want) and g == want[pos]:
                        pos += 1
                    elif g == want[0] and pos > 0:
                        pos = 1               # a second attempt on the same substream: not made by this code,
                        first_bad = first_bad or g   # the response restarts only on a NEW substream
                    else:
                        first_bad = first_bad or g
                        break
                if first_bad is not None:
                    self.v("blocks-not-sent-once",
                           f"response of step {h['step']} on s{n}: entries arrive as {got[:4]}..., the response is "
                           f"{want[:4]}... — a (re)transmission must carry the whole response in order, each block once",
                           h["step"])
                    delivered = True          # do not report the same response twice
                    continue
                if pos == len(want):
                    delivered = True
                    complete_on.append(n)
                elif n not in self.failing:
                    self.v("response-truncated", f"response of step {h['step']}: only {pos} of {len(want)} entries were "
                           f"written to s{n}, which was never told to fail", h["step"])
            if complete_on and len(seen_on) > len(complete_on) and min(complete_on) < max(seen_on):
                self.v("sent-twice", f"{h['op']} of step {h['step']} was written completely to s{min(complete_on)} and "
                       f"(partly) again to s{max(seen_on)}", h["step"])
            if delivered:
                continue
            p = h["peer"]
            excused = (p in self.sticky or any(i >= h["step"] for i in self.excuse.get(p, []))
                       or p in self.outstanding.values() or p in self.dialing
                       or (not h["connected"] and not (1 <= p <= 3)))
            if not excused:
                self.v("response-lost", f"{h['op']} of step {h['step']} to peer {p} reached no substream completely "
                       f"although nothing failed and nothing is outstanding for that peer", h["step"])


def check_inbound_events(v, i, t, o, peer_of):
    """`inmsg`: the events the user got for one inbound message."""
    f = o.split(";")
    if len(f) != 5 or f[0] != "ok":
        return
    k = int(t[1][1:])
    wl, payload, pres = None, [], []
    for a in t[2:]:
        if a.startswith("w="):
            wl = [(b"" if h == "-" else bytes.fromhex(h), int(ty)) for h, ty in (x.split("/") for x in a[2:].split("+"))]
        elif a.startswith("b="):
            for tok in a[2:].split("+"):
                parts = tok.split(":")
                payload.append((b"" if parts[0] == "-" else bytes.fromhex(parts[0]), parse_data(parts[1])))
        elif a.startswith("p="):
            pres = [(b"" if h == "-" else bytes.fromhex(h), int(ty)) for h, ty in (x.split("/") for x in a[2:].split("+"))]
    import re
    events = [] if f[2] == "-" else re.split(r",(?=req:|resp:)", f[2])      # (block data may contain a comma)
    for ev in events:
        kind, p, body = ev.split(":", 2)
        if peer_of.get(k) is not None and int(p) != peer_of[k]:
            v("event-wrong-peer", f"event names peer {p}, the message came from peer {peer_of[k]}", i)
        items = [] if body == "-" else body.split("+")
        if not items:
            v("empty-event", f"{kind} event without entries", i)
        if kind == "req":
            rest = list(wl or [])
            for it in items:
                ch, ty = it.split("/")
                cb = bytes.fromhex(ch)
                j = next((j for j, (b, t2) in enumerate(rest) if b[:len(cb)] == cb and t2 == int(ty)), None)
                if parse_cid(cb) is None or int(ty) not in (0, 1) or j is None:
                    v("request-not-in-wantlist", f"request entry {it} matches no want-list entry (CID bytes, type)", i)
                    break
                rest = rest[j + 1:]
        else:
            rest = list(payload)
            prest = list(pres)
            for it in items:
                if it[0] == "B":
                    cid_hex, data_s = it[1:].split(":")
                    j = check_delivery(v, i, cid_hex, data_s, rest)
                    if j is None:
                        break
                    if must_drop(rest[j][0]):
                        v("malformed-delivered", f"block with {must_drop(rest[j][0])} was delivered", i)
                    rest = rest[j + 1:]
                else:
                    ch, ty = it[1:].split("/")
                    cb = bytes.fromhex(ch)
                    j = next((j for j, (b, t2) in enumerate(prest) if b[:len(cb)] == cb and t2 == int(ty)), None)
                    if parse_cid(cb) is None or int(ty) not in (0, 1) or j is None:
                        v("presence-not-in-message", f"presence {it} matches no entry of the message", i)
                        break
                    prest = prest[j + 1:]
    # well-formed entries must come through
    got_req = sum(len(e.split(":", 2)[2].split("+")) for e in events if e.startswith("req:"))
    need = sum(1 for b, ty in (wl or []) if ty in (0, 1) and parse_cid(b) is not None and canonical_cid(b))
    if got_req < need:
        v("want-lost", f"{need} well-formed want-list entries, {got_req} reported to the user", i)
    got_pres = sum(1 for e in events if e.startswith("resp:") for it in e.split(":", 2)[2].split("+") if it[0] == "P")
    need_p = sum(1 for b, ty in pres if ty in (0, 1) and parse_cid(b) is not None and canonical_cid(b))
    if got_pres < need_p:
        v("presence-lost", f"{need_p} well-formed presence entries, {got_pres} reported to the user", i)
    got_blocks = sum(1 for e in events if e.startswith("resp:") for it in e.split(":", 2)[2].split("+") if it[0] == "B")
    need_b = sum(1 for p, d in payload if must_deliver(p))
    if got_blocks < need_b:
        v("valid-block-lost", f"{need_b - got_blocks} well-formed block(s) of the message were not delivered", i)


def canonical_cid(b):
    c = parse_cid(b)
    if c is None:
        return False
    ver, codec, code, dg = c
    if len(dg) > 64 or codec >= 1 << 63 or code >= 1 << 63:
        return False
    mh = uvar(code) + uvar(len(dg)) + dg
    return b == (mh if ver == 0 else uvar(1) + uvar(codec) + mh)


def oracle(case, out):
    bad = []

    def v(kind, msg, i):
        bad.append({"kind": kind, "msg": msg, "step": i, "op": case[i], "out": out[i] if i < len(out) else None})

    proto = None
    for i, op in enumerate(case):
        if i >= len(out):
            break
        o = out[i]
        t = [a for a in op.split() if not a.startswith("h=")]
        if o.startswith("panic"):
            v("panic", f"panic in {t[0] if t else '?'}: {o}", i)
            break
        if o == "skipped":
            break
        if o == "bad-op" or not t:
            continue
        if t[0] == "pnew":
            if proto is not None:
                proto.finish(i)
            proto = ProtoOracle(v)
        elif t[0] in PROTO_OPS:
            if proto is not None:
                try:
                    proto.step(i, t, o)
                    if t[0] == "inmsg" and any(a.startswith("hold=") for a in t):
                        # only the beginning of the frame: nothing may be reported yet
                        if o.startswith("ok;"):
                            proto.held[int(t[1][1:])] = t
                            if o.split(";")[2] != "-":
                                v("event-from-incomplete-frame", "an event was reported before the frame was complete", i)
                    elif t[0] == "inmsg":
                        check_inbound_events(v, i, t, o, proto.in_peer)
                    elif t[0] == "inrest" and o.startswith("ok;"):
                        whole = proto.held.pop(int(t[1][1:]), None)
                        if whole is not None:
                            check_inbound_events(v, i, whole, o, proto.in_peer)
                    elif t[0] in ("inclose", "inreset"):
                        proto.held.pop(int(t[1][1:]), None)
                except (ValueError, IndexError, KeyError) as e:  # noqa
                    v("unexpected", f"unparseable observation {o[:80]} ({e})", i)
        elif t[0] == "prefix_enc" and len(t) == 5:
            want = prefix_bytes(*map(int, t[1:]))
            if o != hx(want):
                v("prefix-encoding", f"to_bytes gave {o}, four unsigned varints are {hx(want)}", i)
        elif t[0] == "prefix_dec" and len(t) == 2:
            b = b"" if t[1] == "-" else bytes.fromhex(t[1])
            vals, end = lenient_prefix(b)
            if o == "none":
                if canonical(b) and vals[0] <= 1 and vals[3] <= 255:
                    v("prefix-roundtrip", f"from_bytes rejected the canonical prefix {t[1]}", i)
            else:
                got = list(map(int, o.split()[1:]))
                if vals is None or end != len(b):
                    v("malformed-accepted", f"from_bytes accepted {t[1]} ({'truncated' if vals is None else 'trailing bytes'})", i)
                elif canonical(b) and got != vals:
                    v("prefix-roundtrip", f"from_bytes({t[1]}) = {got}, encoded were {vals}", i)
                elif got[0] > 1 or got[3] > 255:
                    v("malformed-accepted", f"from_bytes produced version {got[0]} / length {got[3]}", i)
        elif t[0] == "inbound" and len(t) == 3:
            p = b"" if t[1] == "-" else bytes.fromhex(t[1])
            d = parse_data(t[2])
            if o.startswith("ok "):
                _, cid_hex, data_s = o.split()
                why = must_drop(p)
                if why:
                    v("malformed-delivered", f"block with {why} was delivered", i)
                check_delivery(v, i, cid_hex, data_s, [(p, d)])
            elif o == "dropped":
                if must_deliver(p):
                    v("valid-block-lost", f"well-formed block (prefix {t[1]}) was dropped", i)
            else:
                v("unexpected", f"unexpected observation {o}", i)
        elif t[0] == "message":
            src = []
            for tok in t[1:]:
                parts = tok.split(":")
                src.append((b"" if parts[0] == "-" else bytes.fromhex(parts[0]), parse_data(parts[1])))
            delivered = []
            if o.startswith("event "):
                delivered = [x.split(":") for x in o.split()[1:]]
                if not delivered:
                    v("empty-event", "Response event without entries", i)
            elif o != "noevent":
                v("unexpected", f"unexpected observation {o}", i)
                continue
            rest = list(src)
            offset = 0
            matched = set()
            for cid_hex, data_s in delivered:
                j = check_delivery(v, i, cid_hex, data_s, rest)
                if j is None:
                    break
                matched.add(offset + j)
                offset += j + 1
                rest = rest[j + 1:]      # order is preserved, nothing is delivered twice
            else:
                for k, (p, d) in enumerate(src):
                    why = must_drop(p)
                    if k in matched and why:
                        v("malformed-delivered", f"block {k} with {why} was delivered", i)
                # lost valid blocks: count, since equal blocks cannot be told apart
                need = sum(1 for p, d in src if must_deliver(p))
                have = sum(1 for k in matched if must_deliver(src[k][0]))
                if have < need:
                    v("valid-block-lost", f"{need - have} well-formed block(s) of the message were not delivered", i)
        elif t[0] == "batches" and (len(t) == 6 or (len(t) == 7 and t[6].startswith("pres="))):
            sizes = parse_sizes(t[5])
            try:
                body = o[o.index("msgs=[") + 6:o.index("] plan=[")]
            except ValueError:
                v("unexpected", f"unexpected observation {o[:80]}", i)
                continue
            msgs = [m.split("/") for m in body.split()] if body else []
            got = []
            blocks_seen = False
            for enc, r in msgs:
                if r == "undecodable":
                    v("undecodable-message", "a frame on the substream is not a bitswap message", i)
                    continue
                if int(enc) > MSG_LIMIT:
                    v("message-too-large", f"message of {enc} bytes exceeds the {MSG_LIMIT} byte limit", i)
                npres = 0
                if r.startswith("P"):
                    # P<entries>:<haves>[;<blocks rle>]
                    r, _, tail = r.partition(";")
                    npres = int(r[1:].split(":")[0])
                    r = tail or "-"
                    if blocks_seen:
                        v("presence-after-blocks", "block presences were sent after blocks of the same response", i)
                ss = parse_rle(r)
                got += ss
                blocks_seen = blocks_seen or bool(ss)
                if not ss and not npres:
                    v("empty-message", "message without blocks and presences", i)
            want = [s for s in sizes if s <= BATCH_LIMIT]
            got_fit = [s for s in got if s <= BATCH_LIMIT]
            if not o.startswith("ret=ok"):
                v("send-failed", f"send_response returned an error on a healthy substream after {len(msgs)} message(s); "
                  f"{len(got_fit)} of the {len(want)} blocks that fit a message arrived", i)
            if got_fit != want:
                k = next((k for k, (a, b) in enumerate(zip(got_fit, want)) if a != b), min(len(got_fit), len(want)))
                v("blocks-not-sent-once", f"{len(want)} blocks fit a message, {len(got_fit)} arrived; first difference at "
                  f"fitting block {k} (sent sizes {got_fit[k:k + 3]}, expected {want[k:k + 3]})", i)
            if " sub=no" in o or len(got) - len(got_fit) > len(sizes) - len(want):
                v("blocks-reordered", "arrived blocks are not a subsequence of the response", i)
            if " intact=no" in o:
                v("blocks-corrupted", "a block arrived with altered data or prefix", i)
    if proto is not None:
        proto.finish(len(case))
    return bad


def stats(case, out, acc):
    for op, o in zip(case, out):
        t = op.split()
        bump(acc, "op:" + t[0])
        if t[0] in ("inbound", "prefix_dec"):
            bump(acc, f"{t[0]}:{o.split()[0]}")
        elif t[0] == "message":
            bump(acc, f"message:{o.split()[0]}:{len(o.split()) - 1}of{len(t) - 1}")
        elif t[0] == "batches" and o.startswith("ret"):
            try:
                body = o[o.index("msgs=[") + 6:o.index("] plan=[")]
                plan = o[o.index(" plan=[") + 7:o.index("] pplan=[")]
                pplan = o[o.index("pplan=[") + 7:o.index("] sub=")]
                frames = body.split()
                n = sum(1 for f in frames if "/P" not in f)
                bump(acc, "batches:msgs:" + (str(n) if n < 4 else "4+"))
                if len(plan.split()) != n:
                    bump(acc, "batches:dropped-batch")
                if pplan != "-":
                    sent = any("/P" in f for f in frames)
                    bump(acc, "presences:" + ("sent" if sent else "skipped-oversized")
                         + (":with-blocks" if plan else ":alone"))
            except ValueError:
                pass
        if o.startswith("panic"):
            bump(acc, "panic")
        if o == "bad-op":
            bump(acc, "bad-op")


def nontrivial(case, out):
    ok = any(o.startswith("ok ") or o.startswith("event ") or o.startswith("some ") for o in out)
    drop = any(o in ("dropped", "noevent", "none") for o in out)
    split = any(o.startswith("ret=ok") and o[o.index("msgs=[") + 6:o.index("] plan=[")].count("/") >= 2 for o in out
                if "msgs=[" in o and "] plan=[" in o)
    return (ok and drop) or split


def matches_known(k, v):
    # DESIGN §8-p was repaired (`fix:` commit, see known_findings.d/C20.json): nothing is tolerated.
    return False

# ---------------------------------------------------------------- real nodes through the public API (engine: extra_cases)
# `Litep2p::new` (src/lib.rs), `ConfigBuilder` (src/config.rs) and the protocol / transport `Config` builders hand every
# constructed object its configuration; the `node` area (checks/node.py) builds real nodes, compares what the CONSTRUCTED
# objects hold (and what a connection's `ProtocolSet` answers per main / fallback name) with the wiring model
# (Model/Node/Wiring.lean).
from . import node as _node  # noqa: E402
_node.install(globals())
