"""C20 — Bitswap blocks are verified against their CID; responses are split within the size limit.

Model: Model/Bitswap/{Prefix,Batch}.lean, adapter: src/verif/c20.rs (child module of bitswap)."""
import hashlib
from .common import bump

ID = "C20"
AREA = "c20"
LEAN_PROPS = "Litep2pVerif.Props.C20"
THEOREMS = ["cid_self_certifying", "malformed_dropped", "prefix_roundtrip", "batches_partition",
            "batch_size_bound_partial", "batch_size_bound", "fitting_blocks_sent_once", "batch_oversize_witness",
            "presence_within_limit", "blocks_sent_regardless_of_presences"]
CONSTS = ["MAX_MESSAGE_SIZE", "MAX_BATCH_SIZE", "MAX_BATCH_BLOCKS"]
_CFG = "src/protocol/libp2p/bitswap/config.rs"
CONST_TABLE = [
    ("MAX_MESSAGE_SIZE", _CFG, r"pub const MAX_MESSAGE_SIZE: usize = ([^;]+);", 4194304),
    ("MAX_BATCH_SIZE", _CFG, r"pub const MAX_BATCH_SIZE: usize = ([^;]+);", 2097152),
    ("MAX_BATCH_BLOCKS", _CFG, r"pub const MAX_BATCH_BLOCKS: usize = ([^;]+);", 32768),
]
MANIFEST = {
    "text": "Lean 4 theorems about an executable model of the bitswap prefix codec, block_to_response / the inbound "
            "payload loop (hash family as a parameter) and extract_next_batch / send_response (presence message, then "
            "the block loop; size guards, the codec's frame limit and the abort on a write error) / the prost size of a "
            "blocks and of a presences message: cid_self_certifying, malformed_dropped, prefix_roundtrip, "
            "batches_partition (all block lists, termination by fuel with sufficiency proof), batch_size_bound (on the "
            "regenerated constants), fitting_blocks_sent_once, presence_within_limit (a presence message is written "
            "only if its encoding is within MAX_MESSAGE_SIZE, and first), blocks_sent_regardless_of_presences (for "
            "every mix of presences and blocks send_response returns Ok, writes an optional presence message followed "
            "by exactly the messages of the block-only response, every message within MAX_MESSAGE_SIZE; an oversized "
            "presence list is skipped as a whole - the code's actual behaviour - and never prevents blocks from being "
            "sent); plus a seeded correspondence run of the real functions (send_response over an in-memory yamux "
            "substream with the codec of the real Config, on_message_received on a real Bitswap instance) against the "
            "model and a property-level oracle that recomputes digests with hashlib.",
    "note": "Trusted: Lean kernel; axioms propext/Classical.choice/Quot.sound; the hand-written models and their tie "
            "(sampled differential runs through adapter src/verif/c20.rs); hash functions, prost, cid, multihash, "
            "unsigned-varint, yamux are outside the proof (unsigned-varint's decode loop and prost's length formula are "
            "modelled and compared on every run). Defect DESIGN §8-p (per-block encoding overhead not counted by the "
            "batching) was confirmed on the real code and repaired by a `fix:` commit (MAX_BATCH_BLOCKS); the witness "
            "is replayed on every run.",
    "technique": "Lean 4 proof (structural induction over all block lists / byte strings) + model/implementation "
                 "correspondence check + independent oracle",
    "design_ref": "DESIGN.md §7 C20, §8-p",
}
RULE = ("seeded cases of 4-9 operations: prefix_enc/prefix_dec (boundary values, truncation at every offset, trailing "
        "bytes, non-minimal and 10/11-byte varints, version 2, length 256), inbound/message (every supported multihash "
        "code, unsupported codes, CID v0/v1, odd codecs, data sizes 0..1 MiB, tampered payloads, malformed prefixes "
        "mixed with valid blocks), batches (size vectors around MAX_BATCH_SIZE — in the thorough tier every vector of "
        "length <= 4 over {0,1,M/2,M/2+1,M-1,M,M+1} —, sums crossing it, runs of tiny and "
        "empty blocks around MAX_BATCH_BLOCKS, the 381301-block witness; about a third of the responses also carry "
        "presence entries interleaved with the blocks: 1..1000 mostly, rarely the largest count whose message fits "
        "MAX_MESSAGE_SIZE, that count + 1, 104000, 105000, 120000, 262144 — the two boundary counts are corpus cases of "
        "every run) run on the real code and on the Lean model; "
        "a case is non-trivial if it has a delivered and a dropped block or a response split into >= 2 messages; "
        "distinct = distinct (ops, observations) transcripts by SHA-256")
TRUSTED_BASE = ["Lean 4.33 kernel", "axioms: propext, Classical.choice, Quot.sound only",
                "hand-written models Model/Bitswap/{Prefix,Batch}.lean tied to bitswap/mod.rs by this correspondence run",
                "adapter /repo/src/verif/c20.rs, harness, verif.py, checks/c20.py",
                "hash functions are parameters of the theorems; in the correspondence run digests come from Python "
                "hashlib (sha2, sha3, blake2b) and a pure-Python Keccak checked against hashlib's SHA-3",
                "prost encoding modelled by its length formula only; cid/multihash/unsigned-varint/yamux as black boxes "
                "(unsigned-varint's u64 decode/encode loops are modelled exactly)"]
ASSUMPTIONS = ["the only write error is the codec's rejection of a frame above its limit (modelled; send_response aborts "
               "the whole response on any write error or timeout); no timeout, the peer keeps reading",
               "Code::try_from(c) followed by .code() returns c (multihash-derive)",
               "usize is 64 bits; sums of block sizes do not overflow",
               "oracle: the node's hash set is within {sha1, sha2, sha3, keccak, blake2b, blake2s, md5}; a block delivered "
               "under any other multihash code cannot be re-hashed by the oracle and is reported",
               "oracle: a block 'fits a message' iff its data is at most 2 MiB (MAX_BATCH_SIZE); the message limit is the "
               "protocol's 4 MiB; both are fixed in the oracle, not read from the repository"]
KEEP_PREFIX = 0

MSG_LIMIT = 4 * 1024 * 1024       # bitswap 1.2.0: maximum message size
BATCH_LIMIT = 2 * 1024 * 1024     # data per message; a block above it never fits
CAP = 32768                       # blocks per message after the repair (generator boundaries only)

# ------------------------------------------------------------------ hashes (independent of the node)

_RC = [0x0000000000000001, 0x0000000000008082, 0x800000000000808A, 0x8000000080008000, 0x000000000000808B,
       0x0000000080000001, 0x8000000080008081, 0x8000000000008009, 0x000000000000008A, 0x0000000000000088,
       0x0000000080008009, 0x000000008000000A, 0x000000008000808B, 0x800000000000008B, 0x8000000000008089,
       0x8000000000008003, 0x8000000000008002, 0x8000000000000080, 0x000000000000800A, 0x800000008000000A,
       0x8000000080008081, 0x8000000000008080, 0x0000000080000001, 0x8000000080008008]
_ROT = [[0, 36, 3, 41, 18], [1, 44, 10, 45, 2], [62, 6, 43, 15, 61], [28, 55, 25, 21, 56], [27, 20, 39, 8, 14]]
_M = (1 << 64) - 1


def _rol(x, n):
    n %= 64
    return ((x << n) | (x >> (64 - n))) & _M if n else x


def _keccak_f(a):
    for rc in _RC:
        c = [a[x][0] ^ a[x][1] ^ a[x][2] ^ a[x][3] ^ a[x][4] for x in range(5)]
        d = [c[(x - 1) % 5] ^ _rol(c[(x + 1) % 5], 1) for x in range(5)]
        a = [[a[x][y] ^ d[x] for y in range(5)] for x in range(5)]
        b = [[0] * 5 for _ in range(5)]
        for x in range(5):
            for y in range(5):
                b[y][(2 * x + 3 * y) % 5] = _rol(a[x][y], _ROT[x][y])
        a = [[b[x][y] ^ ((~b[(x + 1) % 5][y]) & b[(x + 2) % 5][y]) for y in range(5)] for x in range(5)]
        a[0][0] ^= rc
    return a


def keccak(data, outlen, suffix=0x01):
    rate = 200 - 2 * outlen
    p = bytearray(data)
    p.append(suffix)
    while len(p) % rate:
        p.append(0)
    p[-1] |= 0x80
    a = [[0] * 5 for _ in range(5)]
    for off in range(0, len(p), rate):
        blk = p[off:off + rate]
        for i in range(rate // 8):
            a[i % 5][i // 5] ^= int.from_bytes(blk[8 * i:8 * i + 8], "little")
        a = _keccak_f(a)
    out = b"".join(a[i % 5][i // 5].to_bytes(8, "little") for i in range(25))
    return out[:outlen]


assert keccak(b"abc", 32, 0x06) == hashlib.sha3_256(b"abc").digest()
assert keccak(b"x" * 300, 64, 0x06) == hashlib.sha3_512(b"x" * 300).digest()

KECCAK_MAX = 8192     # pure Python: keep inputs small

HASHES = {
    0x12: lambda d: hashlib.sha256(d).digest(),
    0x13: lambda d: hashlib.sha512(d).digest(),
    0x14: lambda d: hashlib.sha3_512(d).digest(),
    0x15: lambda d: hashlib.sha3_384(d).digest(),
    0x16: lambda d: hashlib.sha3_256(d).digest(),
    0x17: lambda d: hashlib.sha3_224(d).digest(),
    0x1a: lambda d: keccak(d, 28),
    0x1b: lambda d: keccak(d, 32),
    0x1c: lambda d: keccak(d, 48),
    0x1d: lambda d: keccak(d, 64),
    0xb220: lambda d: hashlib.blake2b(d, digest_size=32).digest(),
    0xb240: lambda d: hashlib.blake2b(d, digest_size=64).digest(),
}
NODE_CODES = sorted(HASHES)                 # what multihash-codetable computes with sha2+blake2b+sha3
KECCAK_CODES = {0x1a, 0x1b, 0x1c, 0x1d}
EXTRA = {                                   # not compiled into the node; verifiable if ever delivered
    0x11: lambda d: hashlib.sha1(d).digest(),
    0xb250: lambda d: hashlib.blake2s(d, digest_size=16).digest(),
    0xb260: lambda d: hashlib.blake2s(d, digest_size=32).digest(),
    0xd5: lambda d: hashlib.md5(d).digest(),
}
UNSUPPORTED = [0x11, 0x00, 0xb250, 0xb260, 0x1e, 0xd5, 0x1053, 0x10, 0x18, 0x19, 0xb221, 0xb23f, 0x1200, 0x92,
               (1 << 64) - 1, 1 << 63, 0x7f, 0x80]
MUST_DELIVER = {0x12, 0x1b, 0xb220}         # pinned by the code's own regression test / comments


def digest(code, data):
    f = HASHES.get(code) or EXTRA.get(code)
    if f is None:
        return None
    if code in KECCAK_CODES and len(data) > KECCAK_MAX:
        return None
    return f(data)


# ------------------------------------------------------------------ wire helpers

def uvar(n):
    out = bytearray()
    while True:
        b = n & 0x7f
        n >>= 7
        if n:
            out.append(b | 0x80)
        else:
            out.append(b)
            return bytes(out)


def read_uvar(b, i):
    """Plain LEB128 reader (no width limit, no minimality rule): (value, next index) or None."""
    n, s = 0, 0
    while i < len(b):
        n |= (b[i] & 0x7f) << s
        s += 7
        i += 1
        if not b[i - 1] & 0x80:
            return n, i
    return None


def lenient_prefix(b):
    """Four LEB128 numbers if they can be read at all (used to pick the code whose digest the model
    is given, and to classify clearly malformed prefixes)."""
    i, vals = 0, []
    for _ in range(4):
        r = read_uvar(b, i)
        if r is None:
            return None, i
        vals.append(r[0])
        i = r[1]
    return vals, i


def canonical(b):
    """True iff `b` is exactly the minimal encoding of four numbers, each < 2^63 (<= 9 bytes)."""
    vals, i = lenient_prefix(b)
    return vals is not None and i == len(b) and b == b"".join(uvar(v) for v in vals) and all(v < 1 << 63 for v in vals)


def hx(b):
    return b.hex() if b else "-"


def parse_data(s):
    if s == "-":
        return b""
    if "," in s:
        n, f = s.split(",")
        return bytes([int(f)]) * int(n)
    return bytes.fromhex(s)


def show_data(d):
    if not d:
        return "-"
    if d.count(d[0]) == len(d):
        return f"{len(d)},{d[0]}"
    return d.hex()


def parse_cid(b):
    """(version, codec, code, digest) of binary CID bytes, or None."""
    if len(b) == 34 and b[0] == 0x12 and b[1] == 0x20:
        return 0, 0x70, 0x12, b[2:]
    r = read_uvar(b, 0)
    if r is None or r[0] != 1:
        return None
    c = read_uvar(b, r[1])
    if c is None:
        return None
    m = read_uvar(b, c[1])
    if m is None:
        return None
    ln = read_uvar(b, m[1])
    if ln is None or len(b) - ln[1] != ln[0]:
        return None
    return 1, c[0], m[0], b[ln[1]:]


def parse_sizes(s):
    res = []
    if s == "-":
        return res
    for item in s.split(","):
        if "*" in item:
            a, b = item.split("*")
            res += [int(a)] * int(b)
        else:
            res.append(int(item))
    return res


def parse_rle(s):
    res = []
    if s == "-":
        return res
    for item in s.split("+"):
        a, b = item.split("*")
        res += [int(a)] * int(b)
    return res


# ------------------------------------------------------------------ generator

VALS64 = [0, 1, 2, 0x55, 0x70, 0x71, 127, 128, 129, 255, 256, 16383, 16384, 2097151, 2097152, (1 << 32) - 1, 1 << 32,
          (1 << 35), (1 << 56) - 1, 1 << 56, (1 << 63) - 1, 1 << 63, (1 << 64) - 1]
CODECS = [0x55, 0x55, 0x70, 0x70, 0x71, 0, 1, 0x0129, 1 << 32, (1 << 64) - 1, 0x80]
DIGEST_LEN = {0x12: 32, 0x13: 64, 0x14: 64, 0x15: 48, 0x16: 32, 0x17: 28, 0x1a: 28, 0x1b: 32, 0x1c: 48, 0x1d: 64,
              0xb220: 32, 0xb240: 64}


def rand_data(rng, code=None):
    r = rng.random()
    if r < 0.08:
        return b""
    if r < 0.55:
        return bytes(rng.getrandbits(8) for _ in range(rng.choice([1, 2, 5, 31, 32, 33, 55, 56, 64, 71, 72, 100])))
    if r < 0.75:
        return bytes(rng.getrandbits(8) for _ in range(rng.choice([111, 112, 127, 128, 135, 136, 137, 143, 144, 200, 1000])))
    if r < 0.9:
        return bytes([rng.getrandbits(8)]) * rng.choice([1, 7, 136, 4096, 8192])
    if code in KECCAK_CODES:
        return bytes([rng.getrandbits(8)]) * rng.choice([2000, 8192])
    return bytes([rng.getrandbits(8)]) * rng.choice([65536, 100000, 1 << 20])


def prefix_bytes(v, codec, mh, ln):
    return uvar(v) + uvar(codec) + uvar(mh) + uvar(ln)


def mangle(rng, p):
    """Malformed / borderline variants of a prefix."""
    k = rng.randrange(11)
    if k == 0:
        return p[:rng.randrange(0, len(p))]                                   # truncated
    if k == 1:
        return p + bytes([rng.choice([0, 1, 0x20, 0x80, 0xff])])               # trailing byte
    if k == 2:
        return p + p                                                           # eight varints
    if k == 3:
        return p[:-1] + bytes([p[-1] | 0x80, 0x00])                            # non-minimal last varint
    if k == 4:
        return bytes([p[0] | 0x80, 0x00]) + p[1:]                              # non-minimal version
    if k == 5:
        return uvar(rng.choice([2, 3, 127, 128, 1 << 63])) + p[1:]             # bad version
    if k == 6:
        vals, _ = lenient_prefix(p)
        return prefix_bytes(vals[0], vals[1], vals[2], rng.choice([256, 257, 1 << 20, (1 << 64) - 1]))
    if k == 7:
        # ten-byte varint for the codec; the tenth byte carries more than one bit
        vals, _ = lenient_prefix(p)
        return uvar(vals[0]) + b"\xff" * 9 + bytes([rng.choice([0x01, 0x02, 0x03, 0x7f, 0x7e])]) + uvar(vals[2]) + uvar(vals[3])
    if k == 8:
        vals, _ = lenient_prefix(p)
        return uvar(vals[0]) + b"\x80" * 10 + b"\x01" + uvar(vals[2]) + uvar(vals[3])   # eleven bytes
    if k == 9:
        return bytes(rng.getrandbits(8) for _ in range(rng.randrange(0, 8)))
    return b""


def block_item(rng):
    """(prefix bytes, data) of one inbound block."""
    r = rng.random()
    if r < 0.55:
        code = rng.choice(NODE_CODES)
    elif r < 0.8:
        code = rng.choice(UNSUPPORTED)
    else:
        code = rng.choice([0x12, 0x1b, 0xb220])
    r = rng.random()
    if r < 0.2:
        v, codec = 0, rng.choice([0x70, 0x70, 0x70, 0x55, 0x71, 0])
    else:
        v, codec = 1, rng.choice(CODECS)
    ln = DIGEST_LEN.get(code, 32)
    if rng.random() < 0.15:
        ln = rng.choice([0, 1, 20, 31, 33, 64, 255])       # the length in the prefix is not used by the code
    p = prefix_bytes(v, codec, code, ln)
    if rng.random() < 0.22:
        p = mangle(rng, p)
    return p, rand_data(rng, code)


def item_token(p, d):
    vals, _ = lenient_prefix(p)
    h = None
    if vals is not None:
        h = digest(vals[2] & ((1 << 64) - 1), d)
    tok = f"{hx(p)}:{show_data(d)}"
    return tok, h


def op_inbound(rng):
    p, d = block_item(rng)
    tok, h = item_token(p, d)
    line = f"inbound {hx(p)} {show_data(d)}"
    if h is not None:
        line += " h=" + h.hex()
    ops = [line]
    if rng.random() < 0.35 and d:
        # tampered payload under the same prefix
        t = bytearray(d)
        i = rng.randrange(len(t))
        t[i] ^= 1 << rng.randrange(8)
        t = bytes(t)
        _, h2 = item_token(p, t)
        ops.append(f"inbound {hx(p)} {show_data(t)}" + (" h=" + h2.hex() if h2 is not None else ""))
    return ops


def op_message(rng):
    n = rng.choice([0, 1, 1, 2, 3, 4, 6])
    toks = []
    for _ in range(n):
        p, d = block_item(rng)
        if len(d) > 8192:
            d = d[:4096]
        tok, h = item_token(p, d)
        toks.append(tok + (":" + h.hex() if h is not None else ""))
    return ["message " + " ".join(toks)] if toks else ["message"]


def op_prefix(rng):
    if rng.random() < 0.4:
        v = rng.choice([0, 1, 1])
        return [f"prefix_enc {v} {rng.choice(VALS64)} {rng.choice(VALS64 + NODE_CODES)} {rng.choice([0, 1, 20, 32, 64, 127, 128, 255])}"]
    p = prefix_bytes(rng.choice([0, 1, 1, 1]), rng.choice(VALS64), rng.choice(VALS64 + NODE_CODES),
                     rng.choice([0, 1, 20, 32, 64, 127, 128, 255]))
    r = rng.random()
    if r < 0.35:
        return [f"prefix_dec {hx(p)}"]
    if r < 0.5:
        return [f"prefix_dec {hx(p[:k])}" for k in range(len(p))]            # truncation at every offset
    return [f"prefix_dec {hx(mangle(rng, p))}"]


PREFIX_KINDS = ["1 85 18 32", "1 85 18 32", "0 112 18 32", "1 113 45600 32", "1 18446744073709551615 18446744073709551615 64",
                "1 0 0 0", "1 85 27 32", "1 112 19 64"]
BAD_PREFIX_KINDS = ["0 85 18 32", "0 112 18 20", "0 112 19 32", "1 85 18 65", "2 85 18 32"]
M = BATCH_LIMIT


def repo_cap():
    """MAX_BATCH_BLOCKS as it stands in the repository now (search tier only: when the proof about the
    constants no longer checks, look for a failing response at the boundaries of the CURRENT values)."""
    try:
        import extract_consts
        return int(extract_consts.extract()[0].get("MAX_BATCH_BLOCKS", CAP))
    except Exception:  # noqa
        return CAP


def uvar_len(n):
    return len(uvar(n))


def cid_len(kind):
    """len(cid.to_bytes()) for a `<v> <codec> <mh> <dlen>` kind (generator only)."""
    v, codec, mh, dlen = map(int, kind.split())
    mhl = uvar_len(mh) + uvar_len(dlen) + dlen
    return mhl if v == 0 else 1 + uvar_len(codec) + mhl


def presences_len(kind, n):
    """Encoded size of the presence message of `n` entries as the adapter builds them (Have iff i % 3 == 0):
    used by the generator to aim at the size limit, never by the oracle."""
    c = cid_len(kind)
    body = (1 + uvar_len(c) + c) if c else 0
    have = 1 + uvar_len(body) + body
    dont = 1 + uvar_len(body + 2) + body + 2
    haves = (n + 2) // 3
    return 2 + haves * have + (n - haves) * dont if n else 0


def max_fitting_presences(kind):
    lo, hi = 0, 1 << 18
    while lo < hi:
        mid = (lo + hi + 1) // 2
        if presences_len(kind, mid) <= MSG_LIMIT:
            lo = mid
        else:
            hi = mid - 1
    return lo


PRES_MAX = 1 << 18


def pick_presences(rng, tier, kind):
    """Number of presence entries of a response: mostly none or few; rarely around the message limit."""
    r = rng.random()
    if r < 0.62:
        return None
    big = {"quick": 0.03, "thorough": 0.08, "search": 0.25}[tier]
    if rng.random() >= big:
        return rng.choice([0, 1, 1, 2, 3, 4, 7, 10, 100, 1000])
    try:
        edge = max_fitting_presences(kind)
    except ValueError:
        edge = 101475
    return min(PRES_MAX, rng.choice([edge, edge + 1, edge + 1, edge - 1, 104000, 105000, 120000, PRES_MAX, 2 * edge]))


def with_presences(rng, tier, op):
    kind = " ".join(op.split()[1:5])
    n = pick_presences(rng, tier, kind)
    return op if n is None else f"{op} pres={n}"


def op_batches(rng, tier):
    return [with_presences(rng, tier, op) for op in op_batches_blocks(rng, tier)]


def op_batches_blocks(rng, tier):
    if tier == "search" and rng.random() < 0.3:
        cap = max(1, min(repo_cap(), 1 << 21))
        size = rng.choice([M // cap, max(M // cap, 1) - 1, 1, 0, 16])
        n = min(rng.choice([cap, cap + 1, 2 * cap]), 1 << 21)
        while size * n > 100 * (1 << 20):
            n //= 2
        return [f"batches {rng.choice(PREFIX_KINDS[4:5] + PREFIX_KINDS[:2])} {size}*{n}"]
    kind = rng.choice(PREFIX_KINDS) if rng.random() < 0.93 else rng.choice(BAD_PREFIX_KINDS)
    r = rng.random()
    if r < 0.45:
        # small sizes, any mix (cheap)
        runs = [str(rng.choice([0, 1, 2, 10, 100, 1000, 4096])) + (f"*{rng.choice([2, 3, 10, 100])}" if rng.random() < 0.3 else "")
                for _ in range(rng.randrange(0, 7))]
    elif r < 0.8:
        # around the batch limit; at most ~8 MiB per operation
        pool = [M - 1, M, M + 1, M // 2, M // 2 + 1, M // 2 - 1, M // 3, M - 10, 10, 9, 11, 1, 0, M + 100, 3 * M // 4, M // 4]
        runs, total = [], 0
        for _ in range(rng.randrange(1, 7)):
            s = rng.choice(pool)
            if total + s > 4 * M + 10:
                s = rng.choice([0, 1, 10])
            total += s
            runs.append(str(s))
    elif r < 0.97:
        # many tiny / empty blocks around the block-count cap
        n = rng.choice([CAP - 1, CAP, CAP + 1, 2 * CAP, 2 * CAP + 1, 1000, 40000, 65537])
        runs = [f"{rng.choice([0, 0, 1, 1, 2, 31])}*{n}"]
        if rng.random() < 0.4:
            runs.insert(rng.randrange(2), str(rng.choice([M, M - CAP, M - CAP + 1, M + 1, 5])))
    else:
        n = rng.choice([381300, 381301, 400000]) if tier != "quick" or rng.random() < 0.2 else 70000
        runs = [f"{rng.choice([0, 1])}*{n}"]
    return [f"batches {kind} {','.join(runs) if runs else '-'}"]


def gen_case(rng, tier):
    ops = []
    for _ in range(rng.randrange(3, 7)):
        r = rng.random()
        if r < 0.25:
            ops += op_prefix(rng)
        elif r < 0.5:
            ops += op_inbound(rng)
        elif r < 0.75:
            ops += op_message(rng)
        else:
            ops += op_batches(rng, tier)
    return ops


def exhaustive_vectors(maxlen):
    """Every size vector of length <= maxlen over the boundary pool (thorough tier)."""
    import itertools
    pool = [0, 1, M // 2, M // 2 + 1, M - 1, M, M + 1]
    ops = []
    for k in range(1, maxlen + 1):
        for vec in itertools.product(pool, repeat=k):
            ops.append("batches 1 85 18 32 " + ",".join(map(str, vec)))
    return [ops[i:i + 8] for i in range(0, len(ops), 8)]


def gen_cases(rng, tier):
    n = {"quick": 700, "thorough": 25000, "search": 2500}[tier]
    if tier == "thorough":
        yield from exhaustive_vectors(4)
    for _ in range(n):
        yield gen_case(rng, tier)


def corpus():
    """Always replayed first: the DESIGN §8-p witness (before the repair: one batch of 381301 one-byte
    blocks encodes to 4194313 bytes > MAX_MESSAGE_SIZE and the whole response is silently dropped),
    every supported hasher, and the boundaries of the limits."""
    cases = [["batches 1 85 18 32 1*381300", "batches 1 85 18 32 1*381301", "batches 1 85 18 32 0*524288"]]
    data = b"indexed transaction payload"
    ops = []
    for code in NODE_CODES:
        for v, codec in ((1, 0x55), (0, 0x70)):
            p = prefix_bytes(v, codec, code, DIGEST_LEN[code])
            ops.append(f"inbound {hx(p)} {data.hex()} h={digest(code, data).hex()}")
    cases.append(ops)
    cases.append([f"batches 1 85 18 32 {M},{M + 1},{M - 1},1,1,{M // 2},{M // 2},0,{M}",
                  f"batches 1 85 18 32 1*{CAP},1*{CAP + 1},{M - 2 * CAP - 1},1,1",
                  "batches 1 18446744073709551615 18446744073709551615 64 1*65536,2097152"])
    # presence lists at the message limit: the largest that fits, the first that does not (skipped by the
    # code; the blocks must still go out), a far larger one, and one next to a response of several batches
    k = "1 85 18 32"
    edge = max_fitting_presences(k)
    cases.append([f"batches {k} 1024,2048,512 pres={edge}", f"batches {k} 1024,2048,512 pres={edge + 1}",
                  f"batches {k} 1024,2048,512 pres=120000", f"batches {k} - pres={edge + 1}",
                  f"batches 0 112 18 32 {M},{M},1 pres={max_fitting_presences('0 112 18 32') + 1}",
                  f"batches {k} 7,0,9 pres=2"])
    return cases


def mutate_case(rng, case, n):
    for _ in range(n):
        c = list(case)
        for _ in range(rng.randrange(1, 3)):
            if len(c) > 1 and rng.random() < 0.5:
                del c[rng.randrange(len(c))]
            else:
                c.insert(rng.randrange(len(c) + 1), rng.choice(gen_case(rng, "quick")))
        yield c


# ------------------------------------------------------------------ oracle

def check_delivery(v, i, cid_hex, data_s, sources):
    """One delivered (cid, data) against the blocks that were put on the wire (`sources`: list of
    (prefix bytes, data) still unmatched, in order). Returns the index of the matching source."""
    data = parse_data(data_s)
    try:
        cid = parse_cid(bytes.fromhex(cid_hex))
    except ValueError:
        cid = None
    if cid is None:
        v("cid-unparseable", f"delivered CID {cid_hex} is not a valid CID", i)
        return None
    ver, codec, code, dg = cid
    want = digest(code, data)
    if want is None and not (code in KECCAK_CODES and len(data) > KECCAK_MAX):
        v("unverifiable-hash", f"block delivered under multihash code {code:#x} that the node cannot compute", i)
    elif want is not None and want != dg:
        v("cid-not-self-certifying", f"delivered CID carries digest {dg.hex()} but {code:#x}(data) = {want.hex()}", i)
    # the block must be one that was received, with version / codec / code taken from its prefix
    for j, (p, d) in enumerate(sources):
        if d != data:
            continue
        vals, end = lenient_prefix(p)
        if vals is None:
            continue
        if (vals[0], vals[2] & _M) == (ver, code) and (vals[1] & _M) == codec:
            if end != len(p):
                v("malformed-delivered", f"block with trailing bytes after its prefix {p.hex()} was delivered", i)
            return j
    v("delivered-unknown", f"delivered ({cid_hex}, {data_s}) matches no received block (data and prefix fields)", i)
    return None


def must_drop(p):
    """Clearly malformed / uncomputable by any reading of the format: fewer than four numbers,
    trailing bytes, version not 0/1, or a code outside everything the node could compute."""
    vals, end = lenient_prefix(p)
    if vals is None:
        return "truncated prefix"
    if end != len(p):
        return "trailing bytes"
    if canonical(p):
        if vals[0] > 1:
            return f"CID version {vals[0]}"
        if vals[2] not in HASHES and vals[2] not in EXTRA:
            return f"unknown multihash code {vals[2]:#x}"
        if vals[0] == 0 and (vals[1] != 0x70 or vals[2] != 0x12):
            return "CIDv0 must be dag-pb / sha2-256"
    return None


def must_deliver(p):
    vals, _ = lenient_prefix(p)
    if not canonical(p) or vals[3] > 255:
        return False
    if vals[0] == 1:
        return vals[2] in MUST_DELIVER
    return vals[0] == 0 and vals[1] == 0x70 and vals[2] == 0x12


def oracle(case, out):
    bad = []

    def v(kind, msg, i):
        bad.append({"kind": kind, "msg": msg, "step": i, "op": case[i], "out": out[i] if i < len(out) else None})

    for i, op in enumerate(case):
        if i >= len(out):
            break
        o = out[i]
        t = [a for a in op.split() if not a.startswith("h=")]
        if o.startswith("panic"):
            v("panic", f"panic in {t[0] if t else '?'}: {o}", i)
            break
        if o == "skipped":
            break
        if o == "bad-op" or not t:
            continue
        if t[0] == "prefix_enc" and len(t) == 5:
            want = prefix_bytes(*map(int, t[1:]))
            if o != hx(want):
                v("prefix-encoding", f"to_bytes gave {o}, four unsigned varints are {hx(want)}", i)
        elif t[0] == "prefix_dec" and len(t) == 2:
            b = b"" if t[1] == "-" else bytes.fromhex(t[1])
            vals, end = lenient_prefix(b)
            if o == "none":
                if canonical(b) and vals[0] <= 1 and vals[3] <= 255:
                    v("prefix-roundtrip", f"from_bytes rejected the canonical prefix {t[1]}", i)
            else:
                got = list(map(int, o.split()[1:]))
                if vals is None or end != len(b):
                    v("malformed-accepted", f"from_bytes accepted {t[1]} ({'truncated' if vals is None else 'trailing bytes'})", i)
                elif canonical(b) and got != vals:
                    v("prefix-roundtrip", f"from_bytes({t[1]}) = {got}, encoded were {vals}", i)
                elif got[0] > 1 or got[3] > 255:
                    v("malformed-accepted", f"from_bytes produced version {got[0]} / length {got[3]}", i)
        elif t[0] == "inbound" and len(t) == 3:
            p = b"" if t[1] == "-" else bytes.fromhex(t[1])
            d = parse_data(t[2])
            if o.startswith("ok "):
                _, cid_hex, data_s = o.split()
                why = must_drop(p)
                if why:
                    v("malformed-delivered", f"block with {why} was delivered", i)
                check_delivery(v, i, cid_hex, data_s, [(p, d)])
            elif o == "dropped":
                if must_deliver(p):
                    v("valid-block-lost", f"well-formed block (prefix {t[1]}) was dropped", i)
            else:
                v("unexpected", f"unexpected observation {o}", i)
        elif t[0] == "message":
            src = []
            for tok in t[1:]:
                parts = tok.split(":")
                src.append((b"" if parts[0] == "-" else bytes.fromhex(parts[0]), parse_data(parts[1])))
            delivered = []
            if o.startswith("event "):
                delivered = [x.split(":") for x in o.split()[1:]]
                if not delivered:
                    v("empty-event", "Response event without entries", i)
            elif o != "noevent":
                v("unexpected", f"unexpected observation {o}", i)
                continue
            rest = list(src)
            offset = 0
            matched = set()
            for cid_hex, data_s in delivered:
                j = check_delivery(v, i, cid_hex, data_s, rest)
                if j is None:
                    break
                matched.add(offset + j)
                offset += j + 1
                rest = rest[j + 1:]      # order is preserved, nothing is delivered twice
            else:
                for k, (p, d) in enumerate(src):
                    why = must_drop(p)
                    if k in matched and why:
                        v("malformed-delivered", f"block {k} with {why} was delivered", i)
                # lost valid blocks: count, since equal blocks cannot be told apart
                need = sum(1 for p, d in src if must_deliver(p))
                have = sum(1 for k in matched if must_deliver(src[k][0]))
                if have < need:
                    v("valid-block-lost", f"{need - have} well-formed block(s) of the message were not delivered", i)
        elif t[0] == "batches" and (len(t) == 6 or (len(t) == 7 and t[6].startswith("pres="))):
            sizes = parse_sizes(t[5])
            try:
                body = o[o.index("msgs=[") + 6:o.index("] plan=[")]
            except ValueError:
                v("unexpected", f"unexpected observation {o[:80]}", i)
                continue
            msgs = [m.split("/") for m in body.split()] if body else []
            got = []
            blocks_seen = False
            for enc, r in msgs:
                if r == "undecodable":
                    v("undecodable-message", "a frame on the substream is not a bitswap message", i)
                    continue
                if int(enc) > MSG_LIMIT:
                    v("message-too-large", f"message of {enc} bytes exceeds the {MSG_LIMIT} byte limit", i)
                npres = 0
                if r.startswith("P"):
                    # P<entries>:<haves>[;<blocks rle>]
                    r, _, tail = r.partition(";")
                    npres = int(r[1:].split(":")[0])
                    r = tail or "-"
                    if blocks_seen:
                        v("presence-after-blocks", "block presences were sent after blocks of the same response", i)
                ss = parse_rle(r)
                got += ss
                blocks_seen = blocks_seen or bool(ss)
                if not ss and not npres:
                    v("empty-message", "message without blocks and presences", i)
            want = [s for s in sizes if s <= BATCH_LIMIT]
            got_fit = [s for s in got if s <= BATCH_LIMIT]
            if not o.startswith("ret=ok"):
                v("send-failed", f"send_response returned an error on a healthy substream after {len(msgs)} message(s); "
                  f"{len(got_fit)} of the {len(want)} blocks that fit a message arrived", i)
            if got_fit != want:
                k = next((k for k, (a, b) in enumerate(zip(got_fit, want)) if a != b), min(len(got_fit), len(want)))
                v("blocks-not-sent-once", f"{len(want)} blocks fit a message, {len(got_fit)} arrived; first difference at "
                  f"fitting block {k} (sent sizes {got_fit[k:k + 3]}, expected {want[k:k + 3]})", i)
            if " sub=no" in o or len(got) - len(got_fit) > len(sizes) - len(want):
                v("blocks-reordered", "arrived blocks are not a subsequence of the response", i)
            if " intact=no" in o:
                v("blocks-corrupted", "a block arrived with altered data or prefix", i)
    return bad


def stats(case, out, acc):
    for op, o in zip(case, out):
        t = op.split()
        bump(acc, "op:" + t[0])
        if t[0] in ("inbound", "prefix_dec"):
            bump(acc, f"{t[0]}:{o.split()[0]}")
        elif t[0] == "message":
            bump(acc, f"message:{o.split()[0]}:{len(o.split()) - 1}of{len(t) - 1}")
        elif t[0] == "batches" and o.startswith("ret"):
            try:
                body = o[o.index("msgs=[") + 6:o.index("] plan=[")]
                plan = o[o.index(" plan=[") + 7:o.index("] pplan=[")]
                pplan = o[o.index("pplan=[") + 7:o.index("] sub=")]
                frames = body.split()
                n = sum(1 for f in frames if "/P" not in f)
                bump(acc, "batches:msgs:" + (str(n) if n < 4 else "4+"))
                if len(plan.split()) != n:
                    bump(acc, "batches:dropped-batch")
                if pplan != "-":
                    sent = any("/P" in f for f in frames)
                    bump(acc, "presences:" + ("sent" if sent else "skipped-oversized")
                         + (":with-blocks" if plan else ":alone"))
            except ValueError:
                pass
        if o.startswith("panic"):
            bump(acc, "panic")
        if o == "bad-op":
            bump(acc, "bad-op")


def nontrivial(case, out):
    ok = any(o.startswith("ok ") or o.startswith("event ") or o.startswith("some ") for o in out)
    drop = any(o in ("dropped", "noevent", "none") for o in out)
    split = any(o.startswith("ret=ok") and o[o.index("msgs=[") + 6:o.index("] plan=[")].count("/") >= 2 for o in out
                if "msgs=[" in o and "] plan=[" in o)
    return (ok and drop) or split


def matches_known(k, v):
    # DESIGN §8-p was repaired (`fix:` commit, see known_findings.d/C20.json): nothing is tolerated.
    return False
