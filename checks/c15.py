"""C15 — iterative Kademlia lookups (model: Model/Kad/Query.lean + QueryEngine.lean, adapter: src/verif/c15.rs).

The generator is interactive: which request gets answered next depends on which peer the real engine
chose, so `gen_cases` drives the harness binary line by line (one subprocess, ` !flush` after every
line) against a simulated network and records the resulting op list. The recorded lists are then
re-run in batch by the engine of verif.py on the implementation and on the Lean model (checker mode
for `next`: the model is told in which order the real hash map was iterated)."""
import hashlib, itertools, os, subprocess

from .common import peer_bytes, sha256_int, peer_key, bump

ID = "C15"
AREA = "c15"
LEAN_PROPS = "Litep2pVerif.Props.C15"
THEOREMS = ["no_self", "no_requery", "terminates", "parallelism_zero_stuck", "parallelism_bound",
            "success_sorted_bounded", "success_answered", "learned_tracked", "success_closer_contacted",
            "success_closer_contacted_needs_injectivity", "terminal_once",
            "engine_no_self", "engine_no_requery", "engine_parallelism_bound",
            "default_parallelism_pos", "lookup_parallelism_bound",
            "value_no_self", "value_no_requery", "value_terminates", "value_done_means",
            "provider_no_self", "provider_no_requery", "provider_terminates", "provider_all_contacted",
            "records_once", "quorum_stop", "local_record_double_count", "providers_once"]
CONSTS = ["KAD_PARALLELISM_FACTOR", "KAD_REPLICATION_FACTOR", "KAD_DEFAULT_PEER_TIMEOUT_SECS"]
CONST_TABLE = [
    ("KAD_PARALLELISM_FACTOR", "src/protocol/libp2p/kademlia/mod.rs", r"const PARALLELISM_FACTOR: usize = ([^;]+);", 3),
    ("KAD_REPLICATION_FACTOR", "src/protocol/libp2p/kademlia/config.rs", r"const REPLICATION_FACTOR: usize = ([^;]+);", 20),
    ("KAD_DEFAULT_PEER_TIMEOUT_SECS", "src/protocol/libp2p/kademlia/query/find_node.rs",
     r"const DEFAULT_PEER_TIMEOUT: std::time::Duration = std::time::Duration::from_secs\(([^)]+)\);", 10),
]
MANIFEST = {
    "text": "Lean 4 theorems over every event sequence (replies, failures, reply orders, lying peers, clock readings) of an "
            "executable model of FindNodeContext/GetRecordContext/GetProvidersContext/PutToTargetPeersContext/"
            "FindManyNodesContext and QueryEngine. For all three iterative lookups (one generic frontier invariant, "
            "Proofs/Kad/Lookup.lean): no_self, no_requery (arbitrary clock readings), termination (terminates, "
            "value_terminates, provider_terminates; + parallelism_zero_stuck), in-flight bound (parallelism_bound, full "
            "strength after the fix: commit; lookup_parallelism_bound). Per query id at engine level, over every "
            "interleaving of the events of concurrent queries, restarts under the same id and events for unknown ids: "
            "terminal_once, engine_no_self, engine_no_requery, engine_parallelism_bound. Success: success_sorted_bounded, "
            "success_answered, learned_tracked (everything learned is in candidates, pending or queried), "
            "success_closer_contacted (full statement: every peer ever learned of - initial candidates "
            "and every peer of an accepted reply, except the local node - that is strictly closer than the furthest "
            "reported one is in pending or queried; needs distances injective on peers, "
            "success_closer_contacted_needs_injectivity is the counterexample without), value_done_means / "
            "provider_all_contacted (what the terminal action of a value / provider lookup implies: quorum met or every "
            "learned peer answered or failed). records_once, providers_once, quorum_stop. Plus a correspondence run of the "
            "real QueryEngine against the model on interactively simulated networks (exhaustive reply orders for small "
            "networks in thorough) and a property-level oracle. A pure state machine: proof over all histories is the "
            "right level.",
    "note": "Trusted: Lean kernel; axioms propext/Classical.choice/Quot.sound; the hand-written model and its tie (differential "
            "runs through adapter src/verif/c15.rs, checker mode for the hash-map iteration order of QueryEngine::next_action); "
            "SHA-256/XOR distances computed outside the model (injectivity on the peers of a case is a hypothesis); "
            "Instant replaced by logical seconds (send instants rewritten by the adapter, margin 0.5 s).",
    "technique": "Lean 4 proof (invariants by induction over event sequences) + model/implementation correspondence check",
    "design_ref": "DESIGN.md §7 C15",
}
RULE = ("simulated networks (who-knows-whom graphs on <= 8 peers; honest, failing, lying, wrong-message and silent peers) "
        "driven interactively against the real QueryEngine: random reply schedules in quick, additionally every reply order "
        "for networks of <= 5 peers in thorough; all query kinds; (replication, parallelism) in {1,2,3,20}x{1,2,3} (+0); "
        "a case is non-trivial if at least one request was sent and one terminal action was produced; distinct = distinct "
        "(ops, observations) transcripts by SHA-256")
TRUSTED_BASE = ["Lean 4.33 kernel", "axioms: propext, Classical.choice, Quot.sound only",
                "hand-written models Model/Kad/Query.lean, Model/Kad/QueryEngine.lean tied to query/*.rs by this correspondence run",
                "adapter /repo/src/verif/c15.rs (rewrites the send instants of pending requests to emulate logical time), harness, "
                "verif.py, checks/c15.py",
                "SHA-256/XOR distance computed outside the model (Python hashlib) and passed as an input; distance injective on peers",
                "HashMap iteration order of QueryEngine::queries read through keys() right before next_action (same table, no "
                "mutation in between) and given to the model as the nondeterministic choice"]
ASSUMPTIONS = ["distinct peers have distinct SHA-256 keys (distance to a target is injective on peers)",
               "the initial candidates of a lookup never contain the local peer (they come from the routing table)",
               "clock readings are monotone (used by terminates, parallelism_bound, engine_parallelism_bound and success_*; "
               "not by no_self / no_requery and their value, provider and engine versions)",
               "a provider has fewer than 32 addresses in total",
               "a step of the adapter takes less than 0.5 s of real time"]
KEEP_PREFIX = 1
LOCAL = 0
HARNESS_BIN = os.path.join(os.path.dirname(os.path.abspath(__file__)), "..", "harness", "target", "debug", "harness")

FIND_KINDS = ("find", "putrec", "addprov")
TERMINALS = ("found", "putto", "addto", "getdone", "provsdone", "putdone", "adddone", "failed")


# ------------------------------------------------------------------ distances

def target_key(kind, t):
    if kind == "find":
        return peer_key(t)
    return sha256_int(bytes([t % 256]))


def dist(kind, t, p):
    return peer_key(p) ^ target_key(kind, t)


def plist(kind, t, peers):
    return ",".join(f"{p}:{dist(kind, t, p):x}" for p in peers)


def provlist(kind, t, provs):
    return ",".join(f"{p}:{dist(kind, t, p):x}:{'+'.join(map(str, a))}" for p, a in provs)


# ------------------------------------------------------------------ interactive session

class Session:
    def __init__(self):
        self.p = None
        self.skip = 0
        if os.path.exists(HARNESS_BIN):
            self.p = subprocess.Popen([HARNESS_BIN, AREA], stdin=subprocess.PIPE, stdout=subprocess.PIPE,
                                      text=True, bufsize=1)

    def ok(self):
        return self.p is not None and self.p.poll() is None

    def new_case(self):
        """The harness answers `case` without flushing: its answer is read with the next one."""
        self.p.stdin.write("case\n")
        self.skip += 1

    def send(self, line):
        self.p.stdin.write(line + " !flush\n")
        self.p.stdin.flush()
        while self.skip:
            self.p.stdout.readline()
            self.skip -= 1
        o = self.p.stdout.readline()
        if not o:
            raise RuntimeError("harness closed the pipe")
        return o.rstrip("\n")

    def close(self):
        if self.p:
            try:
                self.p.stdin.close()
                self.p.wait(timeout=5)
            except Exception:
                self.p.kill()


def parse_obs(o):
    """Observation of `next` -> (order, word, {k: v})."""
    t = o.split()
    order = []
    if t and t[0].startswith("order="):
        order = [int(x) for x in t[0][6:].split(",") if x]
        t = t[1:]
    word = t[0] if t else ""
    return order, word, dict(x.split("=", 1) for x in t[1:] if "=" in x)


# ------------------------------------------------------------------ simulated network

class Query:
    """One lookup of a scenario plus the simulated behaviour of the network towards it."""

    def __init__(self, rng, q, kind, n, small):
        self.q, self.kind, self.n = q, kind, n
        self.t = rng.randrange(1, 40) if kind == "find" else rng.randrange(0, 256)
        peers = list(range(1, n + 1))
        self.cands = rng.sample(peers, rng.randrange(0 if rng.random() < 0.1 else 1, min(n, 4) + 1))
        self.quorum = rng.choice(["all", "one", "1", "2", "3"])
        self.local = rng.choice([0, 0, 1])
        self.rec = rng.randrange(1, 9)
        self.prov = rng.randrange(0, n + 1)
        self.known = [(rng.randrange(0, n + 1), sorted(rng.sample(range(5), rng.randrange(0, 3))))
                      for _ in range(rng.choice([0, 0, 1, 2]))]
        self.knows, self.behaviour, self.value, self.provs = {}, {}, {}, {}
        self.lies, self.failop, self.wrong = {}, {}, {}
        for p in range(0, n + 3):
            k = rng.randrange(0, 4)
            self.knows[p] = [rng.choice(peers) for _ in range(k)]
            self.behaviour[p] = rng.choice(["ok"] * 6 + ["fail", "liar", "wrong"] + ([] if small else ["silent"]))
            self.value[p] = rng.choice([None, None, (rng.randrange(1, 9), 0), (rng.randrange(1, 9), 0), (rng.randrange(1, 9), 1)])
            self.provs[p] = [(rng.randrange(0, n + 1), sorted(rng.sample(range(5), rng.randrange(0, 3))))
                             for _ in range(rng.choice([0, 0, 1, 1, 2]))]
            self.lies[p] = [rng.randrange(0, n + 3) for _ in range(rng.randrange(0, 5))]
            self.failop[p] = rng.choice(["fail", "fail", "peerfail"])
            self.wrong[p] = rng.randrange(0, 4)
        self.track = [rng.randrange(1, n + 1) for _ in range(rng.randrange(0, 4))]

    def start_op(self):
        k, t, q = self.kind, self.t, self.q
        if k == "find":
            return f"start find q={q} t={t} cands={plist(k, t, self.cands)}"
        if k == "putrec":
            return f"start putrec q={q} t={t} cands={plist(k, t, self.cands)} quorum={self.quorum} rec={self.rec}"
        if k == "addprov":
            return f"start addprov q={q} t={t} cands={plist(k, t, self.cands)} quorum={self.quorum} prov={self.prov}"
        if k == "getrec":
            return f"start getrec q={q} t={t} cands={plist(k, t, self.cands)} quorum={self.quorum} local={self.local}"
        if k == "getprov":
            return f"start getprov q={q} t={t} cands={plist(k, t, self.cands)} known={provlist(k, t, self.known)}"
        if k == "puttopeers":
            return f"start puttopeers q={q} t={t} cands={plist(k, t, self.cands)} quorum={self.quorum} rec={self.rec}"
        return f"start {k} q={q} t={t} peers={','.join(map(str, self.track))} quorum={self.quorum}"

    def answer_op(self, p):
        """The op by which peer `p` answers an outstanding request of this query."""
        k, t, q = self.kind, self.t, self.q
        b = self.behaviour.get(p, "ok")
        if k in ("trackput", "trackadd"):
            return f"{'sendfail' if b in ('fail', 'wrong') else 'sendok'} q={q} peer={p}"
        if b == "fail":
            return f"{self.failop.get(p, 'fail')} q={q} peer={p}"
        peers = self.lies.get(p, []) if b == "liar" else self.knows.get(p, [])
        kind = {"find": "find", "putrec": "find", "addprov": "find", "getrec": "value", "getprov": "provs",
                "puttopeers": "find"}[k]
        if b == "wrong":
            kind = [x for x in ("find", "value", "provs", "put", "add") if x != kind][self.wrong.get(p, 0)]
        if kind == "find":
            return f"resp q={q} peer={p} kind=find peers={plist(k, t, peers)}"
        if kind == "value":
            v = self.value.get(p)
            if v is None:
                return f"resp q={q} peer={p} kind=value rec=none peers={plist(k, t, peers)}"
            return f"resp q={q} peer={p} kind=value rec={v[0]} exp={v[1]} peers={plist(k, t, peers)}"
        if kind == "provs":
            return f"resp q={q} peer={p} kind=provs provs={provlist(k, t, self.provs.get(p, []))} peers={plist(k, t, peers)}"
        return f"resp q={q} peer={p} kind={kind}"


KINDS = ["find"] * 6 + ["putrec", "addprov"] + ["getrec"] * 3 + ["getprov"] * 3 + ["trackput", "trackadd", "puttopeers"]


class Run:
    """Drives one case interactively and records the ops."""

    def __init__(self, sess):
        self.sess, self.ops, self.dead = sess, [], False

    def do(self, op):
        if self.dead:
            return "skipped"
        o = self.sess.send(op)
        self.ops.append(op)
        if o.startswith("panic"):
            self.dead = True
        return o


def begin(sess, rng, queries, repl, par, timeout, local=LOCAL):
    sess.new_case()
    run = Run(sess)
    run.do(f"engine local={local} repl={repl} par={par} timeout={timeout}")
    for qu in queries:
        run.do(qu.start_op())
    return run


def random_case(sess, rng, tier_small=False):
    n = rng.choice([2, 3, 4, 5, 5, 6, 8])
    repl, par = rng.choice([1, 2, 3, 20]), rng.choice([1, 2, 3, 3] + ([0] if rng.random() < 0.05 else []))
    timeout = rng.choice([0, 1, 3, 10])
    nq = rng.choice([1, 1, 1, 1, 2, 3])
    queries = [Query(rng, q, rng.choice(KINDS), n, tier_small) for q in rng.sample(range(0, 6), nq)]
    byq = {qu.q: qu for qu in queries}
    run = begin(sess, rng, queries, repl, par, timeout)
    outstanding = []
    for qu in queries:
        if qu.kind in ("trackput", "trackadd"):
            outstanding += [(qu.q, p) for p in dict.fromkeys(qu.track)]
    active = set(byq)
    now, idle, steps = 0, 0, 0
    eager = rng.random() < 0.7
    while active and steps < 120 and not run.dead:
        steps += 1
        r = rng.random()
        answerable = [x for x in outstanding if byq[x[0]].behaviour.get(x[1], "ok") != "silent"]
        if r < 0.04:
            q = rng.choice(list(byq) + [7])
            p = rng.randrange(0, n + 2)
            noise = rng.choice([f"peeraction q={q} peer={p}", f"dump q={q}", f"fail q={q} peer={p}", f"sendok q={q} peer={p}",
                                f"resp q={q} peer={p} kind=find peers=", f"sendfail q={q} peer={p}"])
            run.do(noise)
            if noise.split()[0] in ("fail", "resp") or (noise.split()[0] in ("sendok", "sendfail")
                                                         and q in byq and byq[q].kind in ("trackput", "trackadd")):
                outstanding = [x for x in outstanding if x != (q, p)]
        elif answerable and (r < 0.35 or (idle >= 1 and eager) or idle >= 3):
            x = rng.choice(answerable)
            run.do(byq[x[0]].answer_op(x[1]))
            outstanding.remove(x)
            idle = 0
            if rng.random() < 0.15:
                run.do(f"dump q={x[0]}")
        else:
            now += rng.choice([0, 0, 0, 0, 1, 1, 2, 4, 11])
            o = run.do(f"next now={now}")
            _, word, a = parse_obs(o)
            if word == "send":
                outstanding.append((int(a["q"]), int(a["peer"])))
                idle = 0
            elif word in TERMINALS:
                active.discard(int(a["q"]))
                outstanding = [x for x in outstanding if x[0] != int(a["q"])]
                if rng.random() < 0.1:       # restart under the same id
                    qu = Query(rng, int(a["q"]), rng.choice(KINDS), n, tier_small)
                    byq[qu.q] = qu
                    run.do(qu.start_op())
                    active.add(qu.q)
                    if qu.kind in ("trackput", "trackadd"):
                        outstanding += [(qu.q, p) for p in dict.fromkeys(qu.track)]
            elif word == "none":
                idle += 1
                if not answerable and idle > 12:
                    break
    for q in list(byq)[:2]:
        run.do(f"dump q={q}")
    run.do(f"next now={now}")
    return run.ops


def burst_case(sess, rng):
    """Several requests in flight, then ALL outstanding answers (or failures) registered back to back without polling the
    engine in between, then poll to the end: what a reply carries must not depend on the engine having been polled."""
    n = rng.choice([3, 4, 5, 6])
    kind = rng.choice(["getrec", "getrec", "getprov", "find"])
    qu = Query(rng, rng.randrange(0, 6), kind, n, True)
    qu.cands = rng.sample(range(1, n + 1), min(n, rng.choice([3, 3, 4])))
    qu.quorum = rng.choice(["one", "1", "2"])
    for p in range(0, n + 3):
        qu.behaviour[p] = rng.choice(["ok"] * 5 + ["fail"])
        if kind == "getrec" and rng.random() < 0.8:
            qu.value[p] = (rng.randrange(1, 9), 0)
    run = begin(sess, rng, [qu], rng.choice([1, 2, 20]), 3, rng.choice([0, 10]))
    outstanding, now, done = [], 0, False
    for _round in range(8):
        for _ in range(4):
            o = run.do(f"next now={now}")
            _, word, a = parse_obs(o)
            if word == "send":
                outstanding.append(int(a["peer"]))
            elif word in TERMINALS:
                done = True
                break
            else:
                break
        if done or run.dead or not outstanding:
            break
        rng.shuffle(outstanding)
        for p in outstanding:
            run.do(qu.answer_op(p))
            if rng.random() < 0.15:
                run.do(qu.answer_op(p))          # a second event for the same exchange
        outstanding = []
    run.do(f"next now={now}")
    run.do(f"dump q={qu.q}")
    return run.ops


def late_reply_case(sess, rng):
    """The result window fills while a far-away candidate is still in flight; its reply arrives late and names a peer
    closer than everything reported so far. What a reply carries must be used whenever it arrives (seeded change C15-d1:
    a reply that 'cannot improve the result' was dropped together with the peers it names)."""
    n = rng.choice([5, 6, 7])
    kind = rng.choice(["find", "find", "putrec", "addprov", "getrec", "getprov"])
    qu = Query(rng, rng.randrange(0, 6), kind, n, True)
    order = sorted(range(1, n + 1), key=lambda p: dist(kind, qu.t, p))
    k = rng.choice([2, 2, 3])                       # replication factor = size of the result window
    near, far = order[:2], order[2:2 + k + 1]        # `near` are only learnt from replies; `far` = k + 1 candidates
    qu.cands = list(far)
    qu.quorum, qu.local, qu.known = "all", 0, []
    for p in range(0, n + 3):
        qu.behaviour[p], qu.knows[p], qu.value[p], qu.provs[p] = "ok", [], None, []
    qu.knows[far[-2]] = [near[0]]                    # keeps the lookup alive after the window is full
    qu.knows[far[-1]] = [near[1]]                    # the late reply
    run = begin(sess, rng, [qu], k, k, rng.choice([0, 10]))
    outstanding, now = [], 0

    def poll():
        for _ in range(6):
            _, word, a = parse_obs(run.do(f"next now={now}"))
            if word == "send":
                outstanding.append(int(a["peer"]))
            else:
                return word in TERMINALS
        return False

    done = poll()
    # answer in candidate order, the furthest one (still waiting for a slot / in flight) last
    for _round in range(2 * n):
        if done or run.dead or not outstanding:
            break
        late = far[-1]
        first = [p for p in outstanding if p != late] or outstanding
        p = first[0]
        outstanding.remove(p)
        run.do(qu.answer_op(p))
        done = poll()
    run.do(f"next now={now}")
    run.do(f"dump q={qu.q}")
    return run.ops


def stale_case(sess, rng, par=3, nstale=1, ncands=12, timeout=3):
    """DESIGN §8-m: requests older than the peer timeout, then repeated next_action calls."""
    qu = Query(rng, 0, "find", ncands, True)
    qu.cands = list(range(1, ncands + 1))
    run = begin(sess, rng, [qu], 20, par, timeout)
    outstanding = []
    for _ in range(nstale):
        _, w, a = parse_obs(run.do("next now=0"))
        if w == "send":
            outstanding.append(int(a["peer"]))
    now = timeout + 1 + rng.randrange(0, 3)
    for i in range(ncands):
        _, w, a = parse_obs(run.do(f"next now={now}"))
        if w == "send":
            outstanding.append(int(a["peer"]))
        if i == 4:
            run.do("dump q=0")
            if outstanding and rng.random() < 0.7:
                p = outstanding.pop(0)      # the stale peer answers late
                run.do(f"resp q=0 peer={p} kind=find peers=")
    run.do("dump q=0")
    for p in outstanding:
        run.do(f"fail q=0 peer={p}")
        run.do(f"next now={now}")
    for _ in range(3):
        run.do(f"next now={now}")
    return run.ops


def exhaustive_cases(sess, rng, n, kind, repl, par, budget):
    """Every reply order (and every choice between answering and polling) for one small network."""
    base = Query(rng, 0, kind, n, True)
    count = 0
    choices = []          # odometer: (chosen, alternatives) per decision point
    while count < budget:
        run = begin(sess, rng, [base], repl, par, 10)
        outstanding, done, depth, now = [], False, 0, 0

        def choose(k):
            nonlocal depth
            if depth < len(choices):
                c = choices[depth][0]
                choices[depth] = (c, k)
            else:
                c = 0
                choices.append((0, k))
            depth += 1
            return c
        steps = 0
        while not done and steps < 60 and not run.dead:
            steps += 1
            # poll until the engine has nothing to do
            while True:
                _, w, a = parse_obs(run.do(f"next now={now}"))
                if w == "send":
                    outstanding.append(int(a["peer"]))
                    continue
                if w in TERMINALS:
                    done = True
                break
            if done or not outstanding:
                break
            # answer one or two outstanding requests before polling again
            i = choose(len(outstanding))
            p = outstanding.pop(i)
            run.do(base.answer_op(p))
            if outstanding and choose(2) == 1:
                j = choose(len(outstanding))
                p = outstanding.pop(j)
                run.do(base.answer_op(p))
        run.do(f"next now={now}")
        yield run.ops
        count += 1
        # next schedule
        choices = choices[:depth]
        while choices and choices[-1][0] + 1 >= choices[-1][1]:
            choices.pop()
        if not choices:
            return
        choices[-1] = (choices[-1][0] + 1, choices[-1][1])


MALFORMED = ["bogus", "start", "start find", "start find q=1", "start find q=x t=1", "start find q=1 t=1 cands=1", "start nosuch q=1 t=1",
             "start find q=1 t=1 cands=1:zz", "start getrec q=1 t=1 quorum=0", "start getrec q=1 t=1 local=2", "next", "next now=x",
             "resp q=1 peer=1", "resp q=1 peer=1 kind=nosuch", "resp q=1 peer=1 kind=value", "resp q=1 peer=1 kind=value rec=300",
             "resp q=1 peer=1 kind=provs provs=1:2", "fail q=1", "fail peer=1", "dump", "engine local=0", "engine local=0 repl=1 par=1 timeout=x",
             "start trackput q=1 t=1 peers=1:2", "start addprov q=1 t=1", "resp q=1 peer=1 kind=find peers=1:", "peeraction q=1"]


def malformed_case(sess, rng):
    qu = Query(rng, 1, rng.choice(["find", "getrec", "getprov"]), 4, True)
    run = begin(sess, rng, [qu], 2, 2, 3)
    for _ in range(12):
        if rng.random() < 0.6:
            run.do(rng.choice(MALFORMED))
        else:
            _, w, a = parse_obs(run.do("next now=0"))
            if w == "send":
                run.do(qu.answer_op(int(a["peer"])))
    run.do("dump q=1")
    return run.ops


def engine_arms_case():
    """The arms of `QueryEngine::register_*` / `next_peer_action` for a `PutRecordToPeers` query (reachable only before
    its first `next_action`) and for responses to a query in its PUT_VALUE / ADD_PROVIDER tracking phase."""
    c, r = plist("find", 5, [1, 2]), plist("find", 5, [3])
    return ["engine local=0 repl=2 par=2 timeout=10",
            f"start puttopeers q=1 t=5 cands={c} quorum=one rec=1",
            "fail q=1 peer=1", "sendok q=1 peer=1", "sendfail q=1 peer=2", "peerfail q=1 peer=2",
            f"resp q=1 peer=1 kind=find peers={r}", "resp q=1 peer=1 kind=put", "resp q=1 peer=1 kind=add",
            "resp q=1 peer=1 kind=value rec=none", "peeraction q=1 peer=1", "dump q=1", "next now=0", "next now=0",
            "start trackadd q=2 t=5 peers=1,2 quorum=one",
            f"resp q=2 peer=1 kind=find peers={r}", "resp q=2 peer=1 kind=add", "resp q=2 peer=1 kind=put",
            "peeraction q=2 peer=1", "fail q=2 peer=1", "sendok q=2 peer=1", "sendfail q=2 peer=2", "next now=0", "next now=0",
            "start trackput q=3 t=5 peers=1,2 quorum=all",
            f"resp q=3 peer=1 kind=find peers={r}", "resp q=3 peer=1 kind=put", "peerfail q=3 peer=1", "sendok q=3 peer=2",
            "next now=0", "next now=0"]


def gen_cases(rng, tier):
    yield engine_arms_case()
    sess = Session()
    if not sess.ok():
        return
    try:
        for par, nst in [(3, 1), (3, 3), (1, 1), (2, 2)]:
            yield stale_case(sess, rng, par=par, nstale=nst)
        n = {"quick": 500, "thorough": 30000, "search": 3000}[tier]
        for _ in range(n // 25):
            yield malformed_case(sess, rng)
        for _ in range(n // 10):
            yield burst_case(sess, rng)
        for _ in range(max(8, n // 40)):
            yield late_reply_case(sess, rng)
        for _ in range(n):
            yield random_case(sess, rng)
        if tier in ("thorough", "search"):
            budget = 400 if tier == "thorough" else 60
            for kind in ("find", "getrec", "getprov"):
                for n_peers in (2, 3, 4, 5):
                    for repl, par in itertools.product((1, 2, 3, 20), (1, 2, 3)):
                        for _ in range(2 if tier == "thorough" else 1):
                            yield from exhaustive_cases(sess, rng, n_peers, kind, repl, par, budget)
        else:
            for kind in ("find", "getrec", "getprov"):
                yield from exhaustive_cases(sess, rng, 3, kind, rng.choice([1, 2]), rng.choice([1, 2]), 40)
    finally:
        sess.close()


def mutate_case(rng, case, n):
    for _ in range(n):
        c = list(case)
        for _ in range(rng.randrange(1, 4)):
            if len(c) < 3:
                break
            i = rng.randrange(1, len(c))
            if rng.random() < 0.5:
                del c[i]
            else:
                c.insert(i, rng.choice(case[1:]))
        yield c


def model_lines(case, impl):
    res = []
    for i, op in enumerate(case):
        if op.split()[:1] == ["next"] and impl is not None and i < len(impl) and impl[i].startswith("order="):
            res.append(op + " -> " + impl[i])
        else:
            res.append(op)
    return res


# ------------------------------------------------------------------ oracle

def kvs(tokens):
    return dict(x.split("=", 1) for x in tokens if "=" in x)


def parse_plist(s):
    return [int(x.split(":")[0]) for x in s.split(",") if x] if s else []


def parse_provs(s):
    res = []
    for x in (s.split(",") if s else []):
        f = x.split(":")
        res.append((int(f[0]), sorted({int(a) for a in f[-1].split("+") if a})))
    return res


class OQ:
    """What the oracle knows about one active lookup."""

    def __init__(self, kind, a, eng):
        self.kind, self.t = kind, int(a["t"])
        self.repl, self.par, self.timeout, self.local = eng["repl"], eng["par"], eng["timeout"], eng["local"]
        self.cands = parse_plist(a.get("cands", ""))
        self.sent = {}            # peer -> send time
        self.inflight = {}        # peer -> send time
        self.answered = set()     # peers whose well-formed response was accepted
        self.known = set(self.cands)
        self.records = []         # accepted unexpired records (peer, value)
        self.partials = []
        self.provs = parse_provs(a.get("known", ""))
        self.quorum = a.get("quorum", "all")
        self.local_record = a.get("local", "0") == "1"
        self.track = set(int(x) for x in a.get("peers", "").split(",") if x) if kind in ("trackput", "trackadd") else set()
        self.done = False

    def d(self, p):
        return dist(self.kind, self.t, p)

    def needed(self):
        return {"all": self.repl, "one": 1}.get(self.quorum) or int(self.quorum)

    def fresh(self, now):
        if self.kind in FIND_KINDS:
            return [p for p, s in self.inflight.items() if max(0, now - s) <= self.timeout]
        return list(self.inflight)

    def waiting(self):
        return bool(self.inflight) or bool(self.track)


EXPECT_KIND = {"find": "find", "putrec": "find", "addprov": "find", "getrec": "value", "getprov": "provs"}


def oracle(case, out):
    """Property C15 evaluated on the implementation's observations, independently of the model: contact log (no self,
    no duplicate), fresh requests in flight <= parallelism, exactly one terminal action per lookup, no action after it,
    progress (a lookup nobody owes an answer to must act), and on success the reported set against a brute-force
    reference (answered, sorted, bounded, the closest that answered, nothing closer left uncontacted); value lookups:
    every accepted record reported exactly once, no request after the quorum is met; provider lookups: merged providers
    reported once each, sorted."""
    bad = []
    eng = {"local": 0, "repl": 20, "par": 3, "timeout": 10}
    qs = {}
    now = 0

    def v(kind, msg, i):
        bad.append({"kind": kind, "msg": msg, "step": i, "op": case[i], "out": out[i] if i < len(out) else None})

    for i, op in enumerate(case):
        if i >= len(out):
            break
        o = out[i]
        t = op.split()
        if o.startswith("panic"):
            v("panic", f"panic in {t[0] if t else '?'}: {o}", i)
            break
        if o in ("skipped", "bad-op") or not t:
            continue
        a = kvs(t[1:])
        if t[0] == "engine":
            eng = {k: int(a[k]) for k in ("local", "repl", "par", "timeout")}
            eng["timeout"] = min(eng["timeout"], 1000000)
            qs = {}
        elif t[0] == "start":
            qs[int(a["q"])] = OQ(t[1], a, eng)
        elif t[0] in ("resp", "fail", "peerfail", "sendok", "sendfail"):
            q, p = int(a["q"]), int(a["peer"])
            s = qs.get(q)
            if s is None or s.done:
                continue
            if s.kind in ("trackput", "trackadd"):
                if t[0] in ("sendok", "sendfail", "peerfail"):
                    s.track.discard(p)
                continue
            if t[0] in ("sendok", "sendfail") or p not in s.inflight:
                continue
            del s.inflight[p]
            if t[0] == "resp" and a.get("kind") == EXPECT_KIND.get(s.kind):
                s.answered.add(p)
                s.known.update(x for x in parse_plist(a.get("peers", "")) if x != s.local)
                if s.kind == "getrec" and a.get("rec", "none") != "none" and a.get("exp", "0") == "0":
                    s.records.append((p, int(a["rec"])))
                if s.kind == "getprov":
                    s.provs += parse_provs(a.get("provs", ""))
        elif t[0] == "next":
            now = int(a["now"])
            _, word, r = parse_obs(o)
            if word == "none":
                for q, s in qs.items():
                    if not s.done and s.par >= 1 and not s.waiting():
                        v("stuck", f"lookup {q} ({s.kind}) has no unanswered request and did neither act nor terminate", i)
                continue
            if word == "mismatch" or "q" not in r:
                continue
            q = int(r["q"])
            s = qs.get(q)
            if s is None:
                v("unknown-query", f"action for a lookup that is not active: {o}", i)
                continue
            if s.done:
                v("terminal-twice", f"lookup {q} acted after its terminal action: {o}", i)
                continue
            if word == "send":
                p = int(r["peer"])
                if p == s.local:
                    v("contacted-self", f"lookup {q} sent a request to the local peer {p}", i)
                if p in s.sent:
                    v("requery", f"lookup {q} contacted peer {p} twice", i)
                if s.kind == "getrec" and (1 if s.local_record else 0) + len(s.records) >= s.needed():
                    v("quorum-overrun", f"value lookup {q} sent a request although its quorum {s.needed()} was met", i)
                s.sent[p] = now
                s.inflight[p] = now
                fresh = s.fresh(now)
                if len(fresh) > s.par:
                    v("parallelism", f"lookup {q} has {len(fresh)} fresh unanswered requests in flight, parallelism {s.par}", i)
            elif word == "partial":
                item = (int(r["peer"]), int(r["rec"]))
                s.partials.append(item)
                if s.partials.count(item) > s.records.count(item):
                    v("record-invented", f"value lookup {q} reported record {item} more often than it was received", i)
            elif word in TERMINALS:
                s.done = True
                if word in ("found", "putto", "addto"):
                    rep = [int(x) for x in r.get("peers", "").split(",") if x]
                    if s.kind == "puttopeers":
                        if rep != s.cands:
                            v("report", f"put-to-peers reported {rep}, given {s.cands}", i)
                        continue
                    ds = [s.d(p) for p in rep]
                    if any(p not in s.answered for p in rep):
                        v("success-unanswered", f"lookup {q} reported {rep}; answered: {sorted(s.answered)}", i)
                    if any(x >= y for x, y in zip(ds, ds[1:])):
                        v("success-unsorted", f"lookup {q} reported {rep} not sorted by distance", i)
                    if len(rep) > s.repl:
                        v("success-too-many", f"lookup {q} reported {len(rep)} peers, replication {s.repl}", i)
                    want = sorted(s.answered, key=s.d)[:s.repl]
                    if rep != want:
                        v("closest-set", f"lookup {q} reported {rep}, the closest that answered are {want}", i)
                    if rep:
                        far = max(ds)
                        missed = [k for k in s.known if s.d(k) < far and k not in s.sent]
                        if missed:
                            v("closer-uncontacted", f"lookup {q} succeeded with {rep} but never contacted closer known peers {sorted(missed)}", i)
                if word in ("getdone", "failed") and s.kind == "getrec":
                    if sorted(s.partials) != sorted(s.records):
                        v("records-once", f"value lookup {q} ended having reported {s.partials} of the received {s.records}", i)
                if word == "provsdone":
                    rep = parse_provs(r.get("provs", ""))
                    merged = {}
                    for p, ad in s.provs:
                        merged.setdefault(p, set()).update(ad)
                    want = [(p, sorted(merged[p])) for p in sorted(merged, key=s.d)]
                    if [p for p, _ in rep] != [p for p, _ in want]:
                        v("providers-once", f"provider lookup {q} reported {rep}, received {want}", i)
                    elif rep != want:
                        v("provider-addresses", f"provider lookup {q} reported {rep}, received {want}", i)
    return bad


def stats(case, out, acc):
    kinds = [op.split()[1] for op in case if op.startswith("start ") and len(op.split()) > 1]
    for k in kinds:
        bump(acc, "kind:" + k)
    bump(acc, "queries:%d" % len(kinds))
    for op, o in zip(case, out):
        t = op.split()[0] if op.split() else "?"
        bump(acc, "op:" + t)
        if t == "next":
            bump(acc, "next:" + parse_obs(o)[1])
        if t == "dump" and " to=" in o and not o.endswith("to="):
            bump(acc, "dump-with-timed-out")
        if o == "bad-op":
            bump(acc, "bad-op")
        if o.startswith("panic"):
            bump(acc, "panic")
    bump(acc, "case-len:%d" % (10 * (len(case) // 10)))


def nontrivial(case, out):
    words = [parse_obs(o)[1] for op, o in zip(case, out) if op.startswith("next")]
    return "send" in words and any(w in TERMINALS for w in words)


def matches_known(k, v):
    return False


# ---------------------------------------------------------------- lookups inside the coordinator (engine: extra_cases)
# "terminates with exactly one terminal result for every pattern of replies, failures and reply orderings": the lookups
# run inside `Kademlia` (kademlia/mod.rs), which turns dial outcomes, substream failures and disconnects into the
# engine's `register_*` calls. The c16 area drives the real coordinator; its terminal-event verdicts are this property's
# too (seeded change C15-g2: a second lookup needing a peer that is being dialed overwrites the first one's pending
# action, which then never terminates).
from . import cross as _cross  # noqa: E402
_cross.install(globals(), "C16", "Kademlia coordinator, c16 area",
               keep=lambda v: "terminal" in v["msg"], count={"quick": 500, "thorough": 8000, "search": 1000})
