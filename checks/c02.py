"""C02 — Noise transport delivers the exact byte stream or fails
(model: Model/Noise/Transport.lean, adapter: src/verif/c02.rs)."""
import glob, os
from .common import bump

ID = "C02"
AREA = "c02"
LEAN_PROPS = "Litep2pVerif.Props.C02"
THEOREMS = ["term_model_laws", "real_params_ok", "write_total_old_constant_witness", "write_total", "write_stream_eq",
            "read_no_oob", "read_stream_eq", "tamper_detected", "tamper_cases", "tamper_instances",
            "write_read_roundtrip", "flush_delivers_everything_accepted", "close_delivers_everything_accepted",
            "write_pending_registered"]
CONSTS = ["MAX_NOISE_MSG_LEN", "NOISE_EXTRA_ENCRYPT_SPACE", "MAX_READ_AHEAD_FACTOR", "MAX_WRITE_BUFFER_SIZE",
          "SNOW_MAXMSGLEN", "SNOW_TAGLEN"]
MANIFEST = {
    "text": "Lean 4 theorems about an executable operational model of NoiseSocket::poll_read/poll_write/poll_flush "
            "(all fields, the three read states, reset_read_state with its panic, the auxiliary-tail computation, "
            "chunking and the space test of the writer, an abstract AEAD with explicit nonce counters and snow's size "
            "checks), all at full strength: read_no_oob and the prefix direction by a buffer invariant preserved by "
            "every loop iteration for every carrier chunking, Pending placement, reader buffer length and F >= 1; "
            "read_stream_eq = prefix + completeness (alignment invariant: the frame cursor sits on the wire offset of "
            "the frame whose nonce comes next; liveness by a decreasing measure: once everything is delivered by a "
            "carrier that never fails, plen + #script-entries polls with non-empty buffers return ALL the plaintext, "
            "and the only possible error is UnexpectedEof after close and after the last byte); tamper_detected: for "
            "every stream = j intact frames ++ anything that does not begin with the intact frame j (modification, "
            "truncation, replay, drop, reordering, insertion, appended bytes; tamper_cases), under the ideal-AEAD law, "
            "the run is exactly the plaintext of the j intact frames followed by an error (InvalidData/UnexpectedEof) "
            "once the carrier has delivered the stream and closed; write_total with the side condition "
            "MAX_FRAME_LEN + 16 <= snow MAXMSGLEN decided on the regenerated constants; write_read_roundtrip: after a "
            "successful poll_flush and complete delivery the reader obtains exactly the wpos bytes accepted by "
            "poll_write; flush_delivers_everything_accepted / close_delivers_everything_accepted (teardown under "
            "back-pressure): poll_flush = drain loop (ready! on every inner poll_write) then the carrier's poll_flush, "
            "poll_close = ready!(poll_flush)? then the carrier's poll_close; for every schedule of carrier answers "
            "(partial writes, Pending, Ok(0), errors of poll_write; Pending/errors of the inner poll_flush/poll_close) "
            "and any number of polls: Ready(Ok) means the carrier holds the complete wire image of ALL bytes poll_write "
            "ever accepted, the encrypt buffer is empty, the carrier flushed after its last write (and is closed, for "
            "close) and a reader fed with these bytes returns exactly the accepted plaintext; the carrier is closed only "
            "by a poll_close that returns Ready(Ok); Ready(Ok) comes within one poll per scripted answer plus one when "
            "the carrier never fails; write_pending_registered: a Pending of poll_write/poll_flush/poll_close is a "
            "Pending of the carrier in that very call (no lost wake-up). Plus a seeded correspondence run of a real NoiseSocket pair (real handshake, scripted "
            "in-memory carrier with chunking, Pending with stored wakers, faults and frame-level tampering, re-polls after "
            "read errors, flush/close polled at any point of a write history while the carrier stalls) "
            "against the model, and a property-level oracle.",
    "note": "Trusted: Lean kernel; axioms propext/Classical.choice/Quot.sound; the hand-written model and its tie "
            "(sampled differential runs through adapter src/verif/c02.rs); ChaCha20-Poly1305/snow idealised as an AEAD "
            "with laws (hypotheses, satisfied by the free term model); the theorems speak about a run up to its first "
            "read error (what poll_read does when polled again after an error is modelled and compared with the "
            "implementation, not part of a theorem); writes after a write error are outside the model (fused).",
    "technique": "Lean 4 proof (state-machine invariants + termination measure over all schedules) + model/implementation correspondence check",
    "design_ref": "DESIGN.md §7 C02, §8 (a)",
}
_NOISE = "src/crypto/noise/mod.rs"
_SNOW = (sorted(glob.glob(os.path.expanduser("~/.cargo/registry/src/*/snow-0.9.6/src/constants.rs")))
         or sorted(glob.glob(os.path.expanduser("~/.cargo/registry/src/*/snow-*/src/constants.rs")))
         or ["snow/src/constants.rs"])[0]
CONST_TABLE = [
    ("MAX_NOISE_MSG_LEN", _NOISE, r"const MAX_NOISE_MSG_LEN: usize = ([^;]+);", 65535),
    ("NOISE_EXTRA_ENCRYPT_SPACE", _NOISE, r"const NOISE_EXTRA_ENCRYPT_SPACE: usize = ([^;]+);", 16),
    ("MAX_READ_AHEAD_FACTOR", _NOISE, r"const MAX_READ_AHEAD_FACTOR: usize = ([^;]+);", 5),
    ("MAX_WRITE_BUFFER_SIZE", _NOISE, r"const MAX_WRITE_BUFFER_SIZE: usize = ([^;]+);", 2),
    ("SNOW_MAXMSGLEN", _SNOW, r"pub const MAXMSGLEN: usize = ([^;]+);", 65535),
    ("SNOW_TAGLEN", _SNOW, r"pub const TAGLEN: usize = ([^;]+);", 16),
]
RULE = ("seeded op sequences on a real NoiseSocket pair and on the Lean model: cfg F in {1,2,5} x W in {1,2,3}; writes of "
        "{1,2,15,16,17,1024,65517..65522,131036..131042,200000}; reader buffers {0,1,2,16,17,1024,65503,65519,65536,131072}; "
        "carrier deliveries in random chunks incl. 1 byte, scripted per-inner-poll chunk caps, Pending/EOF/error injection on "
        "both directions, write back-pressure; single-frame flip/truncate/duplicate/drop/swap of ciphertext frames; final "
        "drain (flush, deliver all, close, read until error); teardown family (quick: 60 cases per seed): accepted but "
        "unflushed data, then close/flush polled 1-3 times under scripted stalls of the inner poll_write (Pending, partial "
        "writes, 12 % with Ok(0)/Err) and of the inner poll_flush/poll_close, writes between polls, end of the stall, final "
        "close, drain through the reader without `carrier close`; reader-EOF family (quick: 30 per seed): carrier closes on a "
        "frame boundary / 1, 2, 3, 17, 18 bytes into a frame / mid-body / one byte before its end while the reader, with "
        "buffers {1,3,16,30,1000,65519,131072}, holds a partially consumed decrypted frame; 40 % with late data after the "
        "EOF. A case is non-trivial if at least two reads returned data; "
        "distinct = distinct (ops, observations) transcripts by SHA-256")
TRUSTED_BASE = ["Lean 4.33 kernel", "axioms: propext, Classical.choice, Quot.sound only",
                "hand-written model Model/Noise/Transport.lean tied to crypto/noise/mod.rs by this correspondence run",
                "adapter /repo/src/verif/c02.rs (scripted carrier, frame bookkeeping incl. the `short`/`unflushed`/`open` "
                "report after a successful flush/close and the waker registration flag), harness, verif.py, checks/c02.py",
                "snow TransportState and ChaCha20-Poly1305 idealised: AEAD with per-direction nonce counter, |enc n p| = |p| + 16, "
                "dec n c = some p <-> c = enc n p, injective in (n, p), only the writer's frames decrypt (hypotheses of the "
                "theorems, proved for the free term model)",
                "snow's size checks (MAXMSGLEN, TAGLEN, output space) transcribed from snow 0.9.6 transportstate.rs/cipherstate.rs"]
ASSUMPTIONS = ["F >= 1 and W >= 1 (F = 0 fails every read with UnexpectedEof, W = 0 never accepts a write)",
               "callers stop writing after a write/flush error (the adapter answers `fused`); the reader may be polled again "
               "after an error (modelled, compared, checked by the oracle: never a panic, never altered plaintext)",
               "the inner AsyncRead never reports more bytes than the buffer it was given",
               "callers do not write, flush or close again after a successful close (the adapter answers `closed`); a "
               "Pending close may be followed by further writes (modelled, compared)",
               "the carrier's own poll_flush / poll_close return Ready(Ok) unless scripted otherwise; bytes the carrier "
               "accepted before its successful poll_close are still delivered, then the reader's carrier reports Ok(0)"]
KEEP_PREFIX = 1

MAXF_NEIGHBOURHOOD = [65517, 65518, 65519, 65520, 65521, 65522]
DOUBLE_NEIGHBOURHOOD = [131036, 131037, 131038, 131039, 131040, 131041, 131042]
SMALL_WRITES = [1, 2, 15, 16, 17, 1024]
READ_BUFS = [1, 2, 16, 17, 1024, 65536, 131072]
FRAME = 65519          # only used to bound the number of drain reads


def _write_size(rng, big):
    r = rng.random()
    if not big or r < 0.45:
        return rng.choice(SMALL_WRITES + [3, 100, 4000])
    if r < 0.75:
        return rng.choice(MAXF_NEIGHBOURHOOD)
    if r < 0.92:
        return rng.choice(DOUBLE_NEIGHBOURHOOD)
    return 200000


def _read_buf(rng, big):
    r = rng.random()
    if r < 0.04:
        return 0
    if big and r < 0.7:
        return rng.choice([1024, 65503, 65519, 65536, 131072, 131072])
    return rng.choice(READ_BUFS + [3, 65503, 65519])


def _rscript(rng, n):
    toks = []
    for _ in range(n):
        r = rng.random()
        if r < 0.55:
            toks.append(str(rng.choice([1, 1, 1, 2, 3, 17, 18, 19, 20, 1000, 65537])))
        elif r < 0.9:
            toks.append("p")
        else:
            toks.append(str(rng.randrange(1, 70000)))
    return toks


def _wscript(rng, n, faults):
    toks = []
    for _ in range(n):
        r = rng.random()
        if faults and r < 0.15:
            toks.append(rng.choice(["z", "x"]))
        elif r < 0.5:
            toks.append("p")
        else:
            toks.append(str(rng.choice([1, 2, 17, 19, 1000, 65536, 65537, 70000])))
    return toks


def gen_case(rng, kind):
    F = rng.choice([1, 2, 5])
    W = rng.choice([1, 2, 3])
    ops = [f"cfg {F} {W}"]
    big = kind in ("big", "pressure")
    frames = 0
    tampered = False
    rounds = rng.randrange(1, 4) if big else rng.randrange(1, 6)
    for rd in range(rounds):
        if kind in ("pressure", "faults") and rng.random() < 0.7:
            ops.append("carrier wscript " + " ".join(_wscript(rng, rng.randrange(1, 5), kind == "faults")))
        for _ in range(rng.randrange(1, 4)):
            n = _write_size(rng, big)
            ops.append(f"write {n}")
            frames += n // FRAME + 2
            if rng.random() < 0.65:
                ops.append("flush")
        if kind == "tamper" and not tampered and (rd == rounds - 1 or rng.random() < 0.5):
            ops.append("flush")
            t = rng.choice(["flip", "flip", "trunc", "dup", "drop", "swap"])
            i = rng.randrange(0, 3)
            if t == "flip":
                off = rng.choice([0, 1, 2, 3, rng.randrange(0, 70000)])
                ops.append(f"tamper flip {i} {off} {rng.choice([1, 1, 128, 255, rng.randrange(1, 256)])}")
            elif t == "trunc":
                ops.append(f"tamper trunc {i} {rng.choice([1, 1, 2, 16, 17, 18, rng.randrange(1, 70000)])}")
            else:
                ops.append(f"tamper {t} {i}")
            tampered = True
            frames += 3
        r = rng.random()
        if r < 0.35:
            ops.append("carrier deliver all")
        elif r < 0.85:
            for _ in range(rng.randrange(1, 4)):
                ops.append(f"carrier deliver {rng.choice([1, 1, 2, 3, 18, 19, 20, 35, 1042, 65536, 65537, 65538, rng.randrange(1, 140000)])}")
        if rng.random() < (0.6 if kind in ("chunky", "faults") else 0.25):
            toks = _rscript(rng, rng.randrange(1, 12 if not big else 5))
            if kind == "faults" and rng.random() < 0.3:
                toks.insert(rng.randrange(0, len(toks) + 1), rng.choice(["e", "x"]))
            ops.append("carrier rscript " + " ".join(toks))
        for _ in range(rng.randrange(1, 5)):
            ops.append(f"read {_read_buf(rng, big)}")
            if kind == "chunky" and rng.random() < 0.5:
                ops.append(f"carrier deliver {rng.choice([1, 1, 2, 5, 19])}")
    # drain: everything written reaches the reader, then the carrier closes
    ops += ["carrier clear", "flush", "carrier deliver all", "carrier close"]
    if big:
        ops += [f"read {rng.choice([65519, 65536, 131072])}" for _ in range(frames + 2)]
    else:
        first = [f"read {_read_buf(rng, False) or 1}" for _ in range(rng.randrange(0, 6))]
        ops += first + ["read 131072"] * (frames + 2)
    return ops


def gen_onebyte(rng):
    """A short stream pushed through the reader one carrier byte at a time."""
    F, W = rng.choice([1, 2, 5]), rng.choice([1, 2, 3])
    ops = [f"cfg {F} {W}"]
    total = 0
    for _ in range(rng.randrange(1, 4)):
        n = rng.choice([1, 2, 16, 17, 40])
        ops += [f"write {n}"]
        total += n + 18
    ops += ["flush", "carrier deliver all"]
    ops.append("carrier rscript " + " ".join(["1"] * (total + 2)))
    for _ in range(8):
        ops.append(f"read {rng.choice([1, 2, 16, 17, 1024])}")
    ops += ["carrier clear", "carrier close"] + ["read 1024"] * 5
    return ops


def gen_grid(rng):
    """(chunk, frame, buffer) triples around the boundaries: one frame of `n` bytes, delivered as
    `d` bytes then the rest, read with buffer `k`."""
    F, W = rng.choice([1, 2, 5]), rng.choice([1, 2, 3])
    n = rng.choice(MAXF_NEIGHBOURHOOD + [1, 16, 17])
    m = rng.choice(MAXF_NEIGHBOURHOOD + [1, 17])
    d = rng.choice([1, 2, 3, n, n + 1, n + 2, n + 17, n + 18, n + 19, n + 20, 65535, 65536, 65537, 65538,
                    F * 65535 - 1, F * 65535, F * 65535 + 1, F * 65536])
    k = rng.choice(READ_BUFS + [n - 1 if n > 1 else 1, n, n + 1])
    ops = [f"cfg {F} {W}", f"write {n}", "flush", f"write {m}", "flush", f"write {m}", "flush",
           f"carrier deliver {d}", f"read {k}", f"read {k}", "carrier deliver all", "carrier close"]
    ops += [f"read {k}"] * 3 + ["read 131072"] * 8
    return ops


def gen_window_edge(rng):
    """The read-ahead window (F x 65535 bytes) filled completely by one carrier delivery, with the length prefix of a
    (near-)maximum frame sitting in its last bytes: the reader must take the frame from the auxiliary tail of its buffer."""
    F = rng.choice([1, 2, 5, 5])
    j = rng.choice([0, 1, 2, 3, 5, 12, 13, 14, 15, 16, 17, 18, 19, rng.randrange(0, 40)])
    target = F * 65535 - j                       # wire offset of the big frame's length prefix
    n_full, rem = divmod(target, 65537)
    if 0 < rem < 19 and n_full > 0:
        n_full, rem = n_full - 1, rem + 65537
    frames = [65519] * n_full
    if rem >= 19:
        if rem - 18 <= 65519:
            frames.append(rem - 18)
        else:
            a = rem // 2
            frames += [a - 18, rem - a - 18]
    rng.shuffle(frames)
    frames.append(rng.choice([65519, 65519, 65518, 65507, 65506, 65505, 65504, 40000]))
    frames.append(rng.choice([65519, 17, 1]))
    ops = [f"cfg {F} 3"]
    for n in frames:
        ops += [f"write {n}", "flush"]
    ops += ["carrier deliver all", "carrier close"]
    ops += [f"read {rng.choice([131072, 131072, 65536, 70000])}" for _ in range(len(frames) + 4)]
    return ops


def gen_write_pressure(rng):
    """Multi-frame writes while the carrier is Pending and the encrypt buffer (W frames) already holds earlier frames:
    only a prefix of the caller's buffer may be accepted, never a later chunk out of order."""
    F, W = rng.choice([1, 2, 5]), rng.choice([2, 2, 3])
    ops = [f"cfg {F} {W}", "carrier wscript " + " ".join(["p"] * rng.randrange(3, 9))]
    frames = 0
    for _ in range(rng.randrange(2, 5)):
        n = rng.choice([65519, 65519, 65000, 30000, 100, 1,
                        65519 + rng.choice([1, 5, 100, 1000, 20000]),
                        2 * 65519 + rng.choice([0, 1, 7, 500, 30000]), 200000])
        ops.append(f"write {n}")
        frames += n // FRAME + 2
        if rng.random() < 0.25:
            ops.append("flush")
    ops += ["carrier clear", "flush", "carrier deliver all", "carrier close"]
    ops += [f"read {rng.choice([65536, 131072])}" for _ in range(frames + 3)]
    return ops


def _stall(rng, n):
    """Answers of a carrier that is momentarily not writable: Pending and partial writes, no faults."""
    return [rng.choice(["p", "p", "p", "1", "2", "17", "19", "1000", "65536", "70000"]) for _ in range(n)]


def gen_teardown(rng):
    """Teardown under back-pressure: data accepted by `write` but not yet flushed, then `close` (or `flush`) polled while
    the carrier's poll_write / poll_flush / poll_close answer Pending or take only part of the buffer; the caller polls
    again (possibly writing more in between), the stall ends, the poll completes; then the reader drains the wire. The
    write half is closed by the writer (no `carrier close`): the reader reaches EOF only after everything accepted."""
    F, W = rng.choice([1, 2, 5]), rng.choice([1, 2, 3])
    ops = [f"cfg {F} {W}"]
    big = rng.random() < 0.3
    frames = 0
    for _ in range(rng.randrange(0, 3)):                       # earlier traffic, partly flushed
        if rng.random() < 0.5:
            ops.append("carrier wscript " + " ".join(_stall(rng, rng.randrange(1, 4))))
        n = _write_size(rng, big)
        ops.append(f"write {n}")
        frames += n // FRAME + 2
        r = rng.random()
        if r < 0.4:
            ops.append("flush")
        elif r < 0.5:
            ops += ["flush", "flush"]
    stall = _stall(rng, rng.randrange(1, 5))
    if rng.random() < 0.7:
        stall[0] = "p"                                         # not writable at the moment of the close
    faulty = rng.random() < 0.12
    if faulty:
        stall.insert(rng.randrange(0, len(stall) + 1), rng.choice(["x", "z"]))
    ops.append("carrier wscript " + " ".join(stall))
    for _ in range(rng.randrange(1, 3)):
        n = _write_size(rng, big)
        ops.append(f"write {n}")
        frames += n // FRAME + 2
    if rng.random() < 0.3:
        ops.append("carrier fscript " + " ".join(rng.choice(["p", "p", "p", "x"]) if faulty else "p"
                                                  for _ in range(rng.randrange(1, 3))))
    if rng.random() < 0.3:
        ops.append("carrier cscript " + " ".join(rng.choice(["p", "p", "p", "x"]) if faulty else "p"
                                                  for _ in range(rng.randrange(1, 3))))
    fin = rng.choice(["close", "close", "close", "flush"])
    for _ in range(rng.randrange(1, 4)):
        ops.append(fin)
        if rng.random() < 0.2:
            n = rng.choice(SMALL_WRITES)
            ops.append(f"write {n}")
            frames += 2
        if rng.random() < 0.3:
            ops.append(f"carrier deliver {rng.choice([1, 2, 19, 20, 1042, 65537, rng.randrange(1, 140000)])}")
            ops.append(f"read {_read_buf(rng, big)}")
    ops += ["carrier clear", fin, "close"]                     # the stall is over: the caller's poll completes
    if rng.random() < 0.5:
        for _ in range(rng.randrange(1, 3)):
            ops.append(f"carrier deliver {rng.choice([1, 2, 3, 18, 19, 20, 1042, 65537, rng.randrange(1, 140000)])}")
            ops.append(f"read {_read_buf(rng, big)}")
    ops.append("carrier deliver all")
    if big:
        ops += [f"read {rng.choice([65519, 65536, 131072])}" for _ in range(frames + 3)]
    else:
        ops += [f"read {_read_buf(rng, False) or 1}" for _ in range(rng.randrange(0, 5))] + ["read 131072"] * (frames + 3)
    return ops


def gen_reader_eof(rng):
    """The reader's side of a teardown: the carrier closes exactly on a frame boundary or in the middle of a frame (inside
    the length prefix, right behind it, inside the body, one byte before the end), while the reader — with small buffers —
    has only partially consumed the frame it decrypted last. Every complete frame must come out before the EOF error."""
    F = rng.choice([1, 2, 5])
    sizes = [rng.choice([1, 16, 17, 100, 1024, 5000, 40000, 65519]) for _ in range(rng.randrange(2, 5))]
    ops = [f"cfg {F} 3"]
    for n in sizes:
        ops += [f"write {n}", "flush"]
    wire = [n + 18 for n in sizes]
    j = rng.randrange(0, len(sizes) + 1)
    base = sum(wire[:j])
    cut = base + (rng.choice([0, 0, 1, 2, 3, 17, 18, wire[j] // 2, wire[j] - 1]) if j < len(sizes) else 0)
    if cut > 0:
        a = rng.choice([cut, cut, rng.randrange(1, cut + 1)])
        ops.append(f"carrier deliver {a}")
        if rng.random() < 0.5:
            ops.append(f"read {rng.choice([1, 3, 30, 1000, 131072])}")
        if cut > a:
            ops.append(f"carrier deliver {cut - a}")
    k = rng.choice([1, 3, 16, 30, 1000, 65519, 131072])
    ops += [f"read {k}"] * rng.randrange(0, 3)
    ops.append("carrier close")
    ops += [f"read {k}"] * rng.randrange(1, 8) + ["read 131072"] * (len(sizes) + 2)
    if rng.random() < 0.4:                                     # the rest arrives after the reader saw EOF
        ops += ["carrier deliver all"] + [f"read {rng.choice([k, 131072])}"] * (len(sizes) + 2)
    return ops


def corpus():
    return [
        # teardown under back-pressure (seeded change C02-e2): accepted, not flushed, close while the carrier is Pending
        ["cfg 5 2", "write 1000", "carrier wscript p", "close", "close", "carrier deliver all", "read 2000", "read 2000"],
        ["cfg 1 1", "carrier wscript p 19 p", "write 40", "write 3", "carrier fscript p", "carrier cscript p", "close", "close",
         "close", "close", "close", "carrier deliver all", "read 100", "read 100", "read 100"],
        # DESIGN §8 (a): a write of MAX_FRAME_LEN+1 bytes (65520 on the old constants) must succeed
        ["cfg 5 2", "write 65520", "flush", "carrier deliver all", "carrier close", "read 131072", "read 131072", "read 131072"],
        ["cfg 1 1", "write 200000", "flush", "write 200000", "flush", "carrier deliver all", "carrier close"] + ["read 65536"] * 9,
        ["cfg 2 1", "write 30", "write 40", "flush", "tamper swap 0", "carrier deliver all", "read 100", "read 100"],
        ["cfg 1 2", "write 5", "flush", "tamper dup 0", "carrier deliver all", "carrier close", "read 100", "read 100", "read 100"],
        # polling again after a decryption error (panicked with "`frame_size` to exist" before the fix): big and small buffer
        ["cfg 1 1", "write 5", "flush", "tamper flip 0 5 1", "carrier deliver all", "read 100", "read 100", "read 1", "read 100"],
        ["cfg 5 2", "write 40", "flush", "tamper flip 0 7 1", "carrier deliver all", "read 3", "read 3", "read 100", "read 3",
         "carrier close", "read 100"],
        # polling again after an invalid frame size (length prefix flipped to a value <= 16), after EOF and after a carrier error
        ["cfg 2 1", "write 3", "write 9", "flush", "tamper flip 0 1 16", "carrier deliver all", "read 64", "read 64", "read 64",
         "carrier close", "read 64", "read 64"],
        ["cfg 1 1", "write 7", "flush", "carrier rscript x e", "carrier deliver all", "read 4", "read 4", "read 4", "read 4",
         "carrier close", "read 4", "read 4", "read 4"],
    ]


def gen_cases(rng, tier):
    n = {"quick": 260, "thorough": 12000, "search": 1500}[tier]
    kinds = ["small", "small", "chunky", "chunky", "big", "pressure", "tamper", "tamper", "faults"]
    for i in range(n):
        r = i % 12
        if r == 9 and (i // 12) % 2 == 0:
            yield gen_window_edge(rng)
        elif r == 8 and (i // 12) % 2 == 1:
            yield gen_write_pressure(rng)
        elif r == 10:
            yield gen_onebyte(rng)
        elif r == 11:
            yield gen_grid(rng)
        else:
            yield gen_case(rng, kinds[i % len(kinds)])
    # teardown families (appended: the cases above stay what they were for every seed)
    for i in range({"quick": 90, "thorough": 3000, "search": 500}[tier]):
        yield gen_reader_eof(rng) if i % 3 == 2 else gen_teardown(rng)


def mutate_case(rng, case, n):
    for _ in range(n):
        c = list(case)
        for _ in range(rng.randrange(1, 4)):
            i = rng.randrange(1, len(c))
            r = rng.random()
            if r < 0.4:
                del c[i]
            elif r < 0.65:
                c.insert(i, rng.choice(case[1:]))
            elif r < 0.8:
                c.insert(i, rng.choice(["close", "flush", "carrier wscript p", "carrier wscript 19 p", "carrier clear"]))
            else:
                c.insert(i, f"read {rng.choice(READ_BUFS)}")
            if len(c) < 2:
                break
        yield c


def oracle(case, out):
    """The property on the implementation's observations (no reference to the Lean model):
    reader output is exactly the writer's stream in order; nothing at or beyond a tampered frame is
    ever returned before the reader has been told (error); no error without a cause; an error once the
    (closed, drained) carrier is exhausted; writes of every size are accepted; polling the reader
    again after an error never panics and never yields bytes that are not the writer's stream at
    that position (after an `invalid-data` error the reader may resynchronise on genuine later
    frames -- the caller has been warned -- so the tamper limit is only enforced up to that error).
    Teardown: a successful flush/close means every byte accepted by write is with the carrier (complete
    frames, carrier flushed, and closed for close); flush/close complete once the carrier stops stalling
    (a Pending consumes a scripted answer and comes with a registered waker); the reader reaches the end
    of the stream only after every complete frame that was delivered to it has been handed out -- all
    accepted bytes if the writer closed successfully."""
    bad = []

    def v(kind, msg, i):
        bad.append({"kind": kind, "msg": msg, "step": i, "op": case[i], "out": out[i] if i < len(out) else None})

    F, W = 5, 2
    wpos = 0            # plaintext accepted by the writer
    rtotal = 0          # plaintext handed to the reader's caller
    limit = None        # first plaintext position that can no longer be delivered (after tampering)
    wfault = rfault_e = rfault_x = False
    closed = False
    flushed = True      # everything accepted is on the wire
    delivered_all = True  # everything on the wire is in the reader's inbox
    scripts_clear = True
    partial_cut = False   # the carrier was closed while data was still in flight
    warned = False        # the reader has already returned `invalid-data`
    hard, flips = {}, {}  # tampered frames by plaintext start: hard limit / accumulated flip masks by byte offset
    wclosed = False       # `close` returned ok: the writer closed the write half after handing everything over
    wstall = 0            # upper bound of the scripted answers of the writer's carrier still to come
    fsizes = []           # plaintext sizes of the frames produced by the accepted writes, in order
    wire_moved = 0        # ciphertext bytes moved into the reader's inbox
    tampered = False      # some tamper op changed the wire

    def complete_plain():
        """plaintext bytes of the frames that were completely delivered to the reader"""
        tot = acc = 0
        for n in fsizes:
            acc += n + 18
            if acc > wire_moved:
                break
            tot += n
        return tot

    def teardown(i, what, o):
        """`flush` / `close` op with observation `o`"""
        nonlocal flushed, wclosed, wstall
        f = o.split()
        if f[:2] == ["pending", "nowake"]:
            v("lost-wakeup", f"poll_{what} returned Pending although no Pending of the carrier registered the waker", i)
        if f[0] == "pending":
            if wstall == 0:
                v("teardown-stuck", f"poll_{what} is Pending although the carrier accepts everything (no scripted answer left)", i)
            wstall = max(0, wstall - 1)
        elif f[0] == "ok":
            flushed = True
            if what == "close":
                wclosed = True
            if "short" in f:
                got = f[f.index("short") + 1] if f.index("short") + 1 < len(f) else "?"
                v(f"{what}-incomplete", f"poll_{what} returned Ok although the frames handed to the carrier cover only "
                                        f"{got} (complete frames/accepted) plaintext bytes", i)
            if "unflushed" in f:
                v(f"{what}-incomplete", f"poll_{what} returned Ok without flushing the carrier after its last write", i)
            if "open" in f:
                v("close-incomplete", "poll_close returned Ok without closing the carrier", i)
        elif f[0] == "err" and not wfault:
            v("write-error", f"poll_{what} failed with `{o}` although the carrier never failed", i)

    for i, op in enumerate(case):
        if i >= len(out):
            break
        o = out[i]
        t = op.split()
        if o.startswith("panic"):
            v("panic", f"panic in `{op}`: {o}", i)
            break
        if o == "skipped":
            break
        if o in ("bad-op", "fused", "closed") or not t:
            continue
        if t[0] == "cfg":
            if o != "ok":
                v("handshake", f"honest in-memory handshake failed: {o}", i)
                break
            F, W = int(t[1]), int(t[2])
            wpos = rtotal = 0
            limit = None
            wfault = rfault_e = rfault_x = closed = partial_cut = warned = wclosed = tampered = False
            hard, flips = {}, {}
            flushed = delivered_all = scripts_clear = True
            wstall, fsizes, wire_moved = 0, [], 0
        elif t[0] == "write":
            n = int(t[1])
            if o.startswith("ok"):
                k = int(o.split()[1])
                if k > n or (n > 0 and k == 0):
                    v("write-count", f"write of {n} bytes reported {k} accepted", i)
                wpos += k
                fsizes += [FRAME] * (k // FRAME) + ([k % FRAME] if k % FRAME else [])
                if k > 0:
                    flushed = False
                    delivered_all = False
            elif o.startswith("pending"):
                if o != "pending":
                    v("lost-wakeup", "poll_write returned Pending although no Pending of the carrier registered the waker", i)
                if flushed and n > 0 and W >= 1:
                    v("write-stuck", f"write of {n} bytes is Pending although the write buffer is empty (W={W})", i)
            elif o.startswith("err"):
                if not wfault:
                    v("write-error", f"poll_write({n} bytes) failed with `{o}` although the carrier never failed", i)
        elif t[0] in ("flush", "close") and len(t) == 1:
            teardown(i, t[0], o)
        elif t[0] == "carrier":
            if t[1] == "deliver" and o.startswith("ok"):
                wire_moved += int(o.split()[1])
                if t[2] == "all" and flushed:
                    delivered_all = True
            elif t[1] == "close":
                closed = True
                if not (flushed and delivered_all):
                    partial_cut = True
            elif t[1] == "clear":
                scripts_clear = True
                wstall = 0
            elif t[1] in ("fscript", "cscript") and o == "ok":
                wfault = wfault or "x" in t[2:]
                wstall += len(t) - 2
            elif t[1] == "rscript" and o == "ok":
                scripts_clear = False
                rfault_e = rfault_e or "e" in t[2:]
                rfault_x = rfault_x or "x" in t[2:]
            elif t[1] == "wscript" and o == "ok":
                wfault = wfault or "z" in t[2:] or "x" in t[2:]
                wstall += len(t) - 2
        elif t[0] == "tamper":
            if o.startswith("ok"):
                tampered = True
                # `ok @<plaintext start of the frame> +<its plaintext length>`
                p, l = int(o.split()[1][1:]), int(o.split()[2][1:])
                if t[1] == "flip" and len(t) == 5 and p not in hard:
                    # two flips of the same byte with the same mask restore the frame (shrunk / mutated cases)
                    acc = flips.setdefault(p, {})
                    key, m = int(t[3]) % (l + 18), 1 + (max(int(t[4]), 1) - 1) % 255
                    acc[key] = acc.get(key, 0) ^ m
                else:
                    hard[p] = min(hard.get(p, p + l), p + l if t[1] == "dup" else p)
                lims = list(hard.values()) + [q for q, acc in flips.items() if q not in hard and any(acc.values())]
                limit = min(lims) if lims else None
        elif t[0] == "read":
            k = int(t[1])
            if o.startswith("ok"):
                f = o.split()
                n = int(f[1])
                if len(f) < 3 or not f[2].startswith("@"):
                    v("stream-corrupt", f"read returned bytes that are not the writer's stream at this position: {o}", i)
                    break
                if int(f[2][1:]) != rtotal:
                    v("stream-order", f"read returned position {f[2]} after {rtotal} bytes", i)
                if n > k:
                    v("read-overrun", f"read into {k} bytes reported {n}", i)
                rtotal += n
                if rtotal > wpos:
                    v("stream-excess", f"{rtotal} bytes read, only {wpos} written", i)
                if limit is not None and rtotal > limit and not warned:
                    v("tamper-accepted", f"bytes up to position {rtotal} returned although the frame at {limit} was tampered with", i)
                if n == 0 and k > 0:
                    v("read-zero", "read returned Ok(0) for a non-empty buffer", i)
            elif o.startswith("pending"):
                if o != "pending":
                    v("lost-wakeup", "poll_read returned Pending although no Pending of the carrier registered the waker", i)
                if (closed or wclosed) and delivered_all and scripts_clear and k > 0:
                    v("read-stuck", "read is Pending although the carrier is closed and drained", i)
            elif o.startswith("err"):
                cls = o.split()[1]
                warned = warned or cls == "invalid-data"
                cause = {"eof": closed or wclosed or rfault_e or F == 0, "reset": rfault_x,
                         "invalid-data": limit is not None, "permission-denied": False}.get(cls, False)
                if not cause:
                    v("read-error", f"read failed with `{o}` without a cause (no tampering, no carrier fault)", i)
                elif (cls == "eof" and closed and limit is None and not rfault_e and not partial_cut
                      and flushed and delivered_all and scripts_clear and not wfault and F >= 1 and rtotal != wpos):
                    v("stream-loss", f"end of stream after {rtotal} bytes, {wpos} were written, flushed and delivered", i)
                elif (cls == "eof" and wclosed and not closed and not tampered and not rfault_e and not wfault and F >= 1
                      and rtotal != wpos):
                    # the writer's close succeeded and nobody else cut the stream: EOF comes after everything accepted
                    v("stream-loss", f"end of stream after {rtotal} bytes, {wpos} were accepted before the writer's close "
                                     f"succeeded", i)
                elif (cls == "eof" and not tampered and not rfault_e and F >= 1 and rtotal < complete_plain()):
                    v("eof-early", f"end of stream reported after {rtotal} bytes although complete frames holding "
                                   f"{complete_plain()} bytes had been delivered to the reader", i)
    return bad


def stats(case, out, acc):
    bump(acc, "cfg:" + case[0][4:] if case and case[0].startswith("cfg") else "cfg:default")
    for op, o in zip(case, out):
        t = op.split()
        if not t:
            continue
        key = t[0] if t[0] not in ("carrier", "tamper") else " ".join(t[:2])
        bump(acc, "op:" + key)
        w = o.split()
        if t[0] in ("read", "write", "flush", "tamper"):
            bump(acc, f"{key}:{' '.join(w[:1] + (w[1:2] if w[:1] == ['err'] else []))}")
        if t[0] == "write" and w[:1] == ["ok"] and int(w[1]) < int(t[1]):
            bump(acc, "write:partial")
        if t[0] == "write" and int(t[1]) >= 65519:
            bump(acc, "write:>=frame")
        if o.startswith("panic"):
            bump(acc, "panic")
    bump(acc, "case-len:%d" % (10 * (len(case) // 10)))


def nontrivial(case, out):
    return sum(1 for op, o in zip(case, out) if op.startswith("read") and o.startswith("ok") and o.split()[1] != "0") >= 2


def matches_known(k, v):
    return False

# ---------------------------------------------------------------- real nodes through the public API (engine: extra_cases)
# `Litep2p::new` (src/lib.rs), `ConfigBuilder` (src/config.rs) and the protocol / transport `Config` builders hand every
# constructed object its configuration; the `node` area (checks/node.py) builds real nodes, compares what the CONSTRUCTED
# objects hold (and what a connection's `ProtocolSet` answers per main / fallback name) with the wiring model
# (Model/Node/Wiring.lean).
from . import node as _node  # noqa: E402
_node.install(globals())
