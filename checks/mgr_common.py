"""Shared by c05.py and c06.py: observation parser, the ghost bookkeeping of the connection-manager
checks (obligations of the transport, live connections, ledger of dial attempts — computed from
operations and observations only, like the ghost layer of Model/Manager/Dial.lean), and the
closed-loop case generator (it talks to the harness line by line so that the events it injects are
the ones a contract-abiding transport could produce in the state the manager is really in)."""
import os, subprocess
from .common import bump

ROOT = os.path.dirname(os.path.dirname(os.path.abspath(__file__)))
HARNESS_BIN = os.path.join(ROOT, "harness", "target", "debug", "harness")
AREA = "c05"
LIMIT_CONFIGS = [("none", "none"), ("0", "0"), ("1", "1"), ("2", "2"), ("3", "2"), ("none", "1"), ("1", "none"),
                 ("0", "none"), ("none", "0"), ("2", "1")]


def addr(p, j):
    """j-th address of peer p: j=0 private, j=1 public (ip4.n with n >= 256), j=2 dns."""
    if j == 0:
        return f"ip4.{10 + p}/tcp.{1000 + p}/p2p.{p}"
    if j == 1:
        return f"ip4.{300 + p}/tcp.{2000 + p}/p2p.{p}"
    return f"dns.{p}/tcp.{3000 + p}/p2p.{p}"


def last_peer(a):
    comps = [] if a == "-" else a.split("/")
    if comps and comps[-1].startswith("p2p"):
        return int(comps[-1].split(".")[1]) if "." in comps[-1] else 0
    return None


def tcp_peer(a):
    """Peer the TCP transport verifies: the first /p2p right after ip|dns, tcp."""
    comps = [] if a == "-" else a.split("/")
    if len(comps) >= 3 and comps[0].split(".")[0] in ("ip4", "ip6", "dns", "dns4", "dns6") \
            and comps[1].startswith("tcp") and comps[2].startswith("p2p"):
        return int(comps[2].split(".")[1]) if "." in comps[2] else 0
    return None


FACADE_API = {"fdial": "dial", "fdialaddr": "dialaddr"}


def base_op(op):
    """`fdial`/`fdialaddr` (Litep2p::dial / dial_address) are the manager's dial / dial_address."""
    head, _, rest = op.partition(" ")
    return FACADE_API[head] + " " + rest if head in FACADE_API else op


def parse_obs(line):
    """-> dict or None for panic/skipped/bad-op/ok(limits)."""
    if line is None or line.startswith("panic") or line in ("skipped", "bad-op", "ok", "case") or " ; " not in line:
        return None
    parts = line.split(" ; ")
    if len(parts) not in (5, 6):
        return None
    res, calls, ev, st, tail = parts[:5]
    o = {"res": res, "calls": [], "events": [], "st": {}, "raw": line, "susp": "-", "cmd": 0, "ch": None}
    if len(parts) == 6:
        # protocol layer: susp=y|- cmd=<queued commands> ch=<len0>,<len1>
        for kv in parts[5].split():
            k, v = kv.split("=")
            if k == "susp":
                o["susp"] = v
            elif k == "cmd":
                o["cmd"] = int(v)
            elif k == "ch":
                o["ch"] = [int(x) for x in v.split(",")]
    for c in calls[len("calls="):].split():
        if c == "-":
            continue
        f = c.split(":")
        o["calls"].append((f[0], f[1], f[2].split("|") if len(f) > 2 and f[2] else []))
    for e in ev[len("ev="):].split():
        if e == "-":
            continue
        f = e.split(":")
        if f[0] == "est":
            o["events"].append({"k": "est", "peer": int(f[1]) if f[1].isdigit() else -1, "conn": f[2], "dir": f[3], "addr": f[4]})
        elif f[0] == "closed":
            o["events"].append({"k": "closed", "peer": int(f[1]) if f[1].isdigit() else -1, "conn": f[2]})
        elif f[0] == "dialfail":
            o["events"].append({"k": "dialfail", "conn": f[1], "addr": f[2], "err": f[3]})
        elif f[0] == "openfail":
            o["events"].append({"k": "openfail", "conn": f[1], "addrs": [x.split("=")[0] for x in f[2].split("|") if x]})
        elif f[0] == "udialfail":
            # facade level (Litep2pEvent::DialFailure): no connection id
            o["events"].append({"k": "udialfail", "addr": f[1], "err": f[2] if len(f) > 2 else "?"})
        elif f[0] == "ulist":
            # facade level (Litep2pEvent::ListDialFailures): no connection id, possibly an empty list
            items = [x for x in (f[1] if len(f) > 1 else "").split("|") if x]
            o["events"].append({"k": "ulist", "addrs": [x.split("=")[0] for x in items], "items": items})
        else:
            o["events"].append({"k": "other"})
    for s in st[len("st="):].split():
        if s == "-":
            continue
        p, v = s.split(":", 1)
        o["st"][int(p) if p.isdigit() else -1] = v
    for kv in tail.split():
        k, v = kv.split("=")
        if k == "lim":
            o["lim_in"], o["lim_out"] = map(int, v.split("/"))
        else:
            o[k] = int(v)
    return o


class Ghost:
    """Mirror of the ghost layer (owed / fresh / live / ledger / contract) plus the last observation."""

    def __init__(self, max_in, max_out):
        self.max_in = None if max_in == "none" else int(max_in)
        self.max_out = None if max_out == "none" else int(max_out)
        self.owed = {}        # label -> {"phase": open|dial|accept, "peer": p, "addrs": [...]}
        self.fresh = set()    # labels allocated for inbound sockets, not yet reported
        self.used = set()     # every label that ever named an id
        self.live = {}        # label -> set of (peer, dir)
        self.ledger = []      # {"peer","conn","carrier","reports":[...],"step"}
        self.contract = True  # environment kept its contract so far
        self.broken_at = None
        self.acceptfail = False
        self.prev = None      # previous parsed observation
        self.clash = False    # a label was bound twice (duplicated `as=` line): identities are ambiguous
        self.facade_done = [] # facade level: failure reports already attributed to an attempt

    # -- contract (Model/Manager/Dial.lean `allowed`)
    def allowed(self, t):
        if t[0] in ("addknown", "dial", "dialaddr", "limits", "protocols", "pdial", "pdialaddr", "pfill", "pdrain",
                    "fdial", "fdialaddr", "fnext", "facade"):
            return True
        if t[0] == "accepted":
            return t[2] == "ok" and self.owed.get(t[1], {}).get("phase") == "accept"
        if t[0] != "ev":
            return False
        k = t[1]
        if k == "established":
            p, c, a, d = int(t[2]), t[3], t[4], t[5]
            if "acceptfail" in t[6:]:
                return False
            if d == "listener":
                return c in self.fresh or c not in self.used
            o = self.owed.get(c)
            return bool(o) and o["phase"] == "dial" and o["peer"] == p
        if k in ("opened", "openfail"):
            return self.owed.get(t[2], {}).get("phase") == "open"
        if k == "dialfail":
            return self.owed.get(t[2], {}).get("phase") == "dial" and last_peer(t[3]) is not None
        if k == "pendingin":
            return t[2] in self.fresh or t[2] not in self.used
        if k == "closed":
            p, c = int(t[2]), t[3]
            return any(q == p for q, _ in self.live.get(c, ())) and c not in self.owed
        return False

    def live_of(self, p):
        return sorted(c for c, s in self.live.items() if any(q == p for q, _ in s))

    def owed_of(self, p):
        return sorted(c for c, o in self.owed.items() if o["peer"] == p)

    def update(self, step, op, obs):
        """Apply one operation and its parsed observation (None = panic etc.)."""
        t = base_op(op).split()
        if self.contract and not self.allowed(t):
            self.contract, self.broken_at = False, step
        if obs is None:
            return
        calls = obs["calls"]
        label = next((x[3:] for x in t if x.startswith("as=")), None)
        for ev in obs["events"]:
            for a in self.ledger:
                if (ev["k"] == "est" and ev["conn"] == a["carrier"]) or \
                        (ev["k"] in ("dialfail", "openfail") and ev["conn"] == a["conn"]):
                    a["reports"].append((step, ev["k"]))
        if t[0] in ("dial", "dialaddr", "pdial", "pdialaddr", "pdrain", "pfill", "fnext"):
            # attempts started by the call itself or by queued commands the manager got to in this step
            for kind, c, addrs in calls:
                if kind in ("open", "dial") and c in self.used:
                    self.clash = True
                if kind == "open":
                    lp = int(t[1]) if t[0] == "dial" else (last_peer(addrs[0]) if addrs else None)
                    lp = lp if lp is not None else 0
                    self.owed[c] = {"phase": "open", "peer": lp, "addrs": addrs}
                    self.ledger.append({"peer": lp, "conn": c, "carrier": c, "reports": [], "step": step})
                    self.used.add(c)
                elif kind == "dial":
                    tp = tcp_peer(addrs[0]) if addrs else None
                    lp = last_peer(t[1]) if t[0] == "dialaddr" else (last_peer(addrs[0]) if addrs else None)
                    self.owed[c] = {"phase": "dial", "peer": tp if tp is not None else 0, "addrs": addrs}
                    self.ledger.append({"peer": lp if lp is not None else 0, "conn": c, "carrier": c, "reports": [], "step": step})
                    self.used.add(c)
        elif t[0] == "addknown":
            pass
        elif t[0] == "accepted":
            self.owed.pop(t[1], None)
            self.used.add(t[1])
            if t[2] != "ok":
                if self.prev is not None and obs["acc"] < self.prev["acc"]:
                    self.live.pop(t[1], None)      # rolled back
                self.acceptfail = True
        elif t[0] == "ev":
            k = t[1]
            if k == "established":
                p, c, d = int(t[2]), t[3], t[5]
                ok = "acceptfail" not in t[6:]
                if not ok:
                    self.acceptfail = True
                self.used.add(c)
                self.fresh.discard(c)
                self.owed.pop(c, None)
                cancelled = [x[1] for x in calls if x[0] == "cancel"]
                for x in cancelled:
                    self.owed.pop(x, None)
                if any(x[0] == "accept" and x[1] == c for x in calls):
                    if ok:
                        self.owed[c] = {"phase": "accept", "peer": p, "addrs": []}
                        self.live.setdefault(c, set()).add((p, d))
                        for a in self.ledger:
                            if a["carrier"] in cancelled:
                                a["carrier"] = c
                    else:
                        self.live.pop(c, None)     # accept failed: rolled back
            elif k == "opened":
                c = t[2]
                self.used.add(c)
                old = self.owed.pop(c, None)
                neg = [x[1] for x in calls if x[0] == "negotiate"]
                if neg:
                    self.owed[neg[0]] = {"phase": "dial", "peer": old["peer"] if old else 0, "addrs": [t[3]]}
            elif k in ("openfail", "dialfail"):
                self.used.add(t[2])
                self.owed.pop(t[2], None)
            elif k == "pendingin":
                if t[2] not in self.used:
                    self.fresh.add(t[2])
                self.used.add(t[2])
            elif k == "closed":
                self.used.add(t[3])
                self.live.pop(t[3], None)
        self.prev = obs


class Session:
    """Interactive harness process (one line in, one line out)."""

    def __init__(self):
        self.p = subprocess.Popen([HARNESS_BIN, AREA], stdin=subprocess.PIPE, stdout=subprocess.PIPE, text=True, bufsize=1)

    def send(self, line):
        if line == "case":
            # the harness answers `case` without flushing: read its echo with the next answer
            self.p.stdin.write("case\n")
            self.skip = getattr(self, "skip", 0) + 1
            return "case"
        self.p.stdin.write(line + " !flush\n")
        self.p.stdin.flush()
        for _ in range(getattr(self, "skip", 0)):
            self.p.stdout.readline()
        self.skip = 0
        return self.p.stdout.readline().rstrip("\n")

    def close(self):
        try:
            self.p.stdin.close()
            self.p.wait(timeout=5)
        except Exception:
            self.p.kill()


def openfail_errs(rng, addrs):
    """Error list of an OpenFailure: one error per address (every attempt failed), a subset (the overall
    dial deadline fired while some attempts were outstanding) or none at all (deadline, all outstanding)."""
    r = rng.random()
    if r < 0.6:
        errs = list(addrs)
    elif r < 0.8:
        errs = [x for x in addrs if rng.random() < 0.5]
    else:
        errs = []
    return ",".join(f"{x}={rng.choice('tta')}" for x in errs)


def gen_case(rng, sess, n_ops, npeers=3, chaos=0.0, limits=None, protocols=None, facade=False):
    """One history. Events are chosen among those a contract-abiding environment can produce in the
    current (observed) situation; with probability `chaos` per step an arbitrary event instead.
    `protocols=(n, cap)`: n protocols with event channels of capacity cap are installed; they dial
    through the manager handle, and their channels are filled / drained around the moments the
    outcomes of dials are delivered."""
    lim = limits or rng.choice(LIMIT_CONFIGS)
    ops = [f"limits {lim[0]} {lim[1]}"]
    sess.send("case")
    sess.send(ops[0])
    g = Ghost(*lim)
    nlabel = [0]
    peers = list(range(1, npeers + 1))
    np_ = 0
    dial_op, dialaddr_op = ("fdial", "fdialaddr") if facade else ("dial", "dialaddr")
    if facade:
        # facade level: everything is polled through Litep2p::next_event from here on
        ops.append("facade")
        sess.send("facade")
    if protocols:
        np_ = protocols[0]
        ops.append(f"protocols {protocols[0]} cap={protocols[1]}")
        sess.send(ops[-1])
    last = {"susp": "-", "ch": [0] * np_}

    def new_label():
        nlabel[0] += 1
        return f"c{nlabel[0]}"

    def any_label():
        return f"c{rng.randrange(1, max(2, nlabel[0] + 2))}"

    for _ in range(n_ops):
        cands = []
        p = rng.choice(peers)
        # API calls
        cands.append((6 if protocols else 3, lambda p=p: f"addknown {p} " + ",".join(rng.sample([addr(p, 0), addr(p, 1), addr(p, 2)], rng.choice([1, 1, 2])))))
        cands.append((4, lambda p=p: f"{dial_op} {p} as={new_label()}"))
        cands.append((4, lambda p=p: f"{dialaddr_op} {addr(p, rng.randrange(3))} as={new_label()}"))
        if facade:
            cands.append((1, lambda: "fnext"))
        # inbound sockets
        cands.append((1, lambda: f"ev pendingin {new_label()}"))
        cands.append((3, lambda p=p: f"ev established {p} {rng.choice(sorted(g.fresh)) if g.fresh and rng.random() < 0.7 else new_label()} "
                                     f"ip4.{50 + p}/tcp.{4000 + rng.randrange(3)} listener" + (" acceptfail" if rng.random() < 0.04 else "")))
        for c, o in sorted(g.owed.items()):
            if o["phase"] == "open":
                addrs = o["addrs"] or [addr(o["peer"], 0)]
                def opened(c=c, addrs=addrs):
                    a = rng.choice(addrs)
                    errs = [x for x in addrs if x != a and rng.random() < 0.5]
                    tail = (" errs=" + ",".join(f"{x}={rng.choice('tta')}" for x in errs)) if errs else ""
                    return f"ev opened {c} {a}{tail}"
                cands.append((6, opened))
                cands.append((4, lambda c=c, addrs=addrs: f"ev openfail {c} errs=" + openfail_errs(rng, addrs)))
            elif o["phase"] == "dial":
                a = (o["addrs"] or ["-"])[0]
                cands.append((6, lambda c=c, o=o, a=a: f"ev established {o['peer']} {c} {a} dialer" + (" acceptfail" if rng.random() < 0.03 else "")))
                cands.append((4, lambda c=c, a=a: f"ev dialfail {c} {a} {rng.choice('ttan')}"))
            else:
                cands.append((8, lambda c=c: f"accepted {c} {'ok' if rng.random() < 0.95 else 'fail'}"))
        for c, s in sorted(g.live.items()):
            if c not in g.owed:
                for q, _ in sorted(s):
                    cands.append((3, lambda c=c, q=q: f"ev closed {q} {c}"))
        if np_:
            full = [j for j in range(np_) if last["ch"][j] >= protocols[1]]
            outcome_near = any(o["phase"] in ("open", "dial") for o in g.owed.values())
            cands.append((6, lambda p=p: f"pdial {rng.randrange(np_)} {p}"))
            cands.append((2, lambda p=p: f"pdialaddr {rng.randrange(np_)} {addr(p, rng.randrange(3))}"))
            cands.append((5 if outcome_near else 1, lambda: f"pfill {rng.randrange(np_)}"))
            cands.append((3 if full else 1, lambda: f"pdrain {rng.choice(full) if full and rng.random() < 0.8 else rng.randrange(np_)}"))
            if last["susp"] == "y":
                # the manager is blocked on a full channel: mostly protocol activity
                cands = [(w, f) for w, f in cands[-4:]] + [(1, f) for _, f in cands[:-4][:3]]
                cands.append((10, lambda: f"pdrain {rng.choice(full) if full else rng.randrange(np_)}"))
        if rng.random() < chaos and last["susp"] != "y":
            q = rng.choice(peers)
            a = addr(q, rng.randrange(3))
            cands = [(1, lambda: f"ev established {q} {any_label()} {a} {rng.choice(['dialer', 'listener'])}"),
                     (1, lambda: f"ev dialfail {any_label()} {rng.choice([a, a, '-', 'ip4.1/tcp.1'])} t"),
                     (1, lambda: f"ev opened {any_label()} {a}"),
                     (1, lambda: f"ev openfail {any_label()} errs={a}=t"),
                     (1, lambda: f"ev closed {q} {any_label()}"),
                     (1, lambda: f"accepted {any_label()} {rng.choice(['ok', 'fail'])}"),
                     (1, lambda: f"addknown {q} {addr(rng.choice(peers), 0)},ip4.0/tcp.1/p2p.{q},ip4.99/tcp.99/p2p.{q},ip4.5/udp.5/p2p.{q}")]
        total = sum(w for w, _ in cands)
        r = rng.random() * total
        for w, f in cands:
            r -= w
            if r <= 0:
                break
        op = f()
        out = sess.send(op)
        ops.append(op)
        if out == "busy":
            continue
        obs = parse_obs(out)
        g.update(len(ops) - 1, op, obs)
        if obs is None:
            return ops                 # panic: the rest of the case would be skipped
        if np_ and obs["ch"] is not None:
            last = obs
    if np_ and rng.random() < 0.9:
        # the protocols catch up: drain until the manager is no longer blocked and every channel is empty
        for _ in range(3 * np_ + 2):
            todo = [j for j in range(np_) if last["ch"][j] > 0]
            if not todo:
                break
            for j in todo:
                op = f"pdrain {j}"
                out = sess.send(op)
                ops.append(op)
                obs = parse_obs(out)
                g.update(len(ops) - 1, op, obs)
                if obs is None or obs["ch"] is None:
                    return ops
                last = obs
    return ops


# adversarial multiaddress shapes for dial_address
def adversarial_addr(rng, peers=(1, 2, 3)):
    p, q = rng.choice(peers), rng.choice(peers)
    n = rng.randrange(1, 9)
    host = rng.choice([f"ip4.{n}", f"ip4.{300 + n}", f"ip6.{n}", f"dns.{n}", f"dns4.{n}", f"dns6.{n}", "ip4.0", "ip6.0", "ip4.99"])
    shapes = [
        f"{host}/tcp.{n}/p2p.{p}",
        f"{host}/tcp.{n}/p2p.{p}/p2p.{q}",
        f"{host}/tcp.{n}/p2p.{p}/other.0/p2p.{q}",
        f"{host}/tcp.{n}/p2p.{p}/tcp.{n}",
        f"{host}/tcp.{n}",
        f"{host}/tcp.{n}/ws/p2p.{p}",
        f"{host}/tcp.{n}/wss/p2p.{p}",
        f"{host}/udp.{n}/quicV1/p2p.{p}",
        f"{host}/udp.{n}/p2p.{p}",
        f"{host}/p2p.{p}",
        f"{host}",
        f"tcp.{n}/p2p.{p}",
        f"p2p.{p}",
        "-",
        f"other.{rng.randrange(6)}/tcp.{n}/p2p.{p}",
        f"{host}/other.{rng.randrange(6)}/p2p.{p}",
        f"{host}/tcp.{n}/other.{rng.randrange(6)}/p2p.{p}",
        f"{host}/tcp.{n}/p2p.{p}/other.{rng.randrange(6)}",
        f"{host}/{host}/tcp.{n}/p2p.{p}",
        f"{host}/tcp.{n}/tcp.{n}/p2p.{p}",
        "ip4.99/tcp.99/p2p.0",
        "ip4.99/tcp.99",
        f"{host}/tcp.{n}/p2p.0",
        f"p2p.{p}/{host}/tcp.{n}/p2p.{q}",
        # a host component the transports refuse although it looks like a DNS name
        f"dnsaddr.{n}/tcp.{n}/p2p.{p}",
        f"dnsaddr.{n}/tcp.{n}/p2p.{p}",
        f"dnsaddr.{n}/p2p.{p}",
    ]
    return rng.choice(shapes)


def gen_addr_case(rng, sess, n_ops):
    """dial_address on adversarial shapes, interleaved with the outcomes of the attempts that start."""
    lim = rng.choice([("none", "none"), ("none", "none"), ("1", "1"), ("2", "2")])
    ops = [f"limits {lim[0]} {lim[1]}"]
    sess.send("case")
    sess.send(ops[0])
    g = Ghost(*lim)
    n = 0
    for _ in range(n_ops):
        r = rng.random()
        dial_owed = [(c, o) for c, o in sorted(g.owed.items()) if o["phase"] == "dial"]
        acc = [c for c, o in sorted(g.owed.items()) if o["phase"] == "accept"]
        if r < 0.6 or not (dial_owed or acc):
            n += 1
            op = f"dialaddr {adversarial_addr(rng)} as=c{n}"
        elif acc and (r < 0.75 or not dial_owed):
            op = f"accepted {acc[0]} ok"
        else:
            c, o = rng.choice(dial_owed)
            a = (o["addrs"] or ["-"])[0]
            op = rng.choice([f"ev established {o['peer']} {c} {a} dialer", f"ev dialfail {c} {a} t"])
        out = sess.send(op)
        ops.append(op)
        obs = parse_obs(out)
        g.update(len(ops) - 1, op, obs)
        if obs is None:
            break
    return ops


# limit configurations under which queued dials of the protocols fail
PROTO_LIMITS = [("none", "0"), ("0", "0"), ("none", "1"), ("1", "1"), ("2", "1")]


def gen_cases(rng, tier, share_addr=0.15, share_proto=0.0, share_facade=0.0):
    n = {"quick": 1000, "thorough": 50000, "search": 4000}[tier]
    sess = Session()
    try:
        for i in range(n):
            if rng.random() < share_addr:
                yield gen_addr_case(rng, sess, rng.choice([3, 6, 10, 16]))
            else:
                chaos = rng.choice([0, 0, 0, 0, 0, 0.05, 0.15])
                protocols = None
                if rng.random() < share_proto:
                    protocols = (rng.choice([1, 1, 2, 2, 3]), rng.choice([1, 1, 2, 3]))
                    chaos = rng.choice([0, 0, 0, 0.05])
                limits = rng.choice(PROTO_LIMITS) if protocols and rng.random() < 0.5 else None
                facade = share_facade > 0 and rng.random() < share_facade
                yield gen_case(rng, sess, rng.choice([6, 10, 16, 25, 25]), npeers=rng.choice([2, 3]), chaos=chaos,
                               limits=limits, protocols=protocols, facade=facade)
    finally:
        sess.close()


def mutate_case(rng, case, n):
    for _ in range(n):
        c = list(case)
        for _ in range(rng.randrange(1, 4)):
            i = rng.randrange(1, len(c))
            if rng.random() < 0.5 and len(c) > 2:
                del c[i]
            else:
                c.insert(i, rng.choice(case[1:]))
        yield c


def model_lines(case, impl_out):
    """Checker mode for `dial`: the model takes the address store's choice (hash-map order among
    equal scores) from the implementation's `open` call and validates it."""
    res = []
    for i, op in enumerate(case):
        o = impl_out[i] if impl_out and i < len(impl_out) and impl_out[i] else ""
        if " -> " in op:
            res.append(op)
        elif (op.startswith("dial ") or op.startswith("fdial ")) and "calls=open:" in o:
            res.append(op + " -> " + o)
        elif op.startswith("protocols ") and o.startswith("ok order="):
            # the order in which the manager walks over its protocols is the hash map's
            res.append(op + " -> " + o)
        elif op.split(" ", 1)[0] in ("pdial", "pdialaddr", "pfill", "pdrain", "fnext") and "open:" in o:
            # queued DialPeer commands the manager got to in this step: the address store's answers
            res.append(op + " -> " + o)
        else:
            res.append(op)
    return res


def stats(case, out, acc):
    for op, o in zip(case, out):
        t = op.split()
        k = t[0] + (":" + t[1] if t[0] == "ev" else "")
        bump(acc, "op:" + k)
        if o.startswith("panic"):
            bump(acc, "panic")
        if o == "busy":
            bump(acc, "busy:" + k)
        ob = parse_obs(o)
        if ob:
            if ob["susp"] == "y":
                bump(acc, "suspended-after:" + k)
            if t[0] in ("pdial", "pdialaddr"):
                bump(acc, f"{t[0]}:{ob['res']}" + ("+attempt" if ob["calls"] else ""))
            if t[0] == "pdrain" and ob["res"] != "got=-":
                for e in ob["res"][4:].split(","):
                    bump(acc, "protocol-got:" + e.split(":")[0])
            if t[0] in ("dial", "dialaddr", "fdial", "fdialaddr"):
                bump(acc, f"{t[0]}:{ob['res']}" + ("+attempt" if ob["calls"] else ""))
            if t[0] == "ev" and t[1] == "openfail":
                n = len([x for x in next((a[5:] for a in t if a.startswith("errs=")), "").split(",") if x])
                bump(acc, "openfail-errors:" + ("0" if n == 0 else "1" if n == 1 else "several"))
            for c in ob["calls"]:
                bump(acc, "call:" + c[0])
            for e in ob["events"]:
                bump(acc, "event:" + e["k"])
    bump(acc, "limits:" + case[0].split(" ", 1)[1])
    bump(acc, "case-len:%d" % (5 * (len(case) // 5)))


def nontrivial(case, out):
    calls = set()
    evs = set()
    for o in out:
        ob = parse_obs(o)
        if ob:
            calls.update(c[0] for c in ob["calls"])
            evs.update(e["k"] for e in ob["events"])
    return ("accept" in calls or "reject" in calls) and bool(evs)


CORPUS = [
    # finding (d): outbound limit 1, two concurrent dials both establish (fixed: second gets a dial failure)
    ["limits none 1", "dialaddr ip4.11/tcp.1001/p2p.1 as=c1", "dialaddr ip4.12/tcp.1002/p2p.2 as=c2",
     "ev established 1 c1 ip4.11/tcp.1001/p2p.1 dialer", "ev established 2 c2 ip4.12/tcp.1002/p2p.2 dialer",
     "accepted c1 ok", "ev closed 1 c1", "dialaddr ip4.12/tcp.1002/p2p.2 as=c3", "dial 2 as=c4"],
    # (d) with the dial record parked next to an inbound connection
    ["limits none 1", "dialaddr ip4.11/tcp.1001/p2p.1 as=c1", "dialaddr ip4.12/tcp.1002/p2p.2 as=c2",
     "ev established 2 c3 ip4.52/tcp.4000 listener", "accepted c3 ok", "ev established 1 c1 ip4.11/tcp.1001/p2p.1 dialer",
     "ev established 2 c2 ip4.12/tcp.1002/p2p.2 dialer", "ev closed 2 c3", "accepted c1 ok", "ev closed 1 c1", "dial 2 as=c4"],
    # finding (f): two /p2p components (fixed: refused)
    ["limits none none", "dialaddr ip4.5/tcp.5/p2p.1/p2p.2 as=c1", "ev established 1 c1 ip4.5/tcp.5/p2p.1/p2p.2 dialer",
     "dialaddr ip4.12/tcp.1002/p2p.2 as=c2"],
    # opening attempt superseded by an inbound connection
    ["limits 1 1", "addknown 1 ip4.11/tcp.1001/p2p.1,ip4.301/tcp.2001/p2p.1", "dial 1 as=c1",
     "ev established 1 c2 ip4.51/tcp.4000 listener", "accepted c2 ok", "ev closed 1 c2", "dial 1 as=c3", "ev openfail c3 errs=ip4.301/tcp.2001/p2p.1=t"],
]
