"""Shared by c05.py and c06.py: observation parser, the ghost bookkeeping of the connection-manager
checks (obligations of the transport, live connections, ledger of dial attempts — computed from
operations and observations only, like the ghost layer of Model/Manager/Dial.lean), and the
closed-loop case generator (it talks to the harness line by line so that the events it injects are
the ones a contract-abiding transport could produce in the state the manager is really in)."""
import os, subprocess
from .common import bump

ROOT = os.path.dirname(os.path.dirname(os.path.abspath(__file__)))
HARNESS_BIN = os.path.join(ROOT, "harness", "target", "debug", "harness")
AREA = "c05"
LIMIT_CONFIGS = [("none", "none"), ("0", "0"), ("1", "1"), ("2", "2"), ("3", "2"), ("none", "1"), ("1", "none"),
                 ("0", "none"), ("none", "0"), ("2", "1")]


def addr(p, j):
    """j-th address of peer p: j=0 private, j=1 public (ip4.n with n >= 256), j=2 dns."""
    if j == 0:
        return f"ip4.{10 + p}/tcp.{1000 + p}/p2p.{p}"
    if j == 1:
        return f"ip4.{300 + p}/tcp.{2000 + p}/p2p.{p}"
    return f"dns.{p}/tcp.{3000 + p}/p2p.{p}"


def last_peer(a):
    comps = [] if a == "-" else a.split("/")
    if comps and comps[-1].startswith("p2p"):
        return int(comps[-1].split(".")[1]) if "." in comps[-1] else 0
    return None


def tcp_peer(a):
    """Peer the TCP transport verifies: the first /p2p right after ip|dns, tcp."""
    comps = [] if a == "-" else a.split("/")
    if len(comps) >= 3 and comps[0].split(".")[0] in ("ip4", "ip6", "dns", "dns4", "dns6") \
            and comps[1].startswith("tcp") and comps[2].startswith("p2p"):
        return int(comps[2].split(".")[1]) if "." in comps[2] else 0
    return None


FACADE_API = {"fdial": "dial", "fdialaddr": "dialaddr"}


def base_op(op):
    """`fdial`/`fdialaddr` (Litep2p::dial / dial_address) are the manager's dial / dial_address."""
    head, _, rest = op.partition(" ")
    return FACADE_API[head] + " " + rest if head in FACADE_API else op


AUX_OPS = ("scores", "substream")


def is_aux(op):
    """`scores <p>` (read-only print of an address store) and `substream <p>` (a protocol opens a substream: only the
    substream-id counter moves) are not inputs of the manager: the ledgers skip them."""
    return op.split(" ", 1)[0] in AUX_OPS


def parse_scores(line):
    """`sc=<addr>=<score>,..` -> {addr: score} (None if the line is something else)."""
    if line is None or not line.startswith("sc="):
        return None
    res = {}
    for item in line[3:].split(","):
        if item and item != "-":
            a, _, v = item.rpartition("=")
            try:
                res[a] = int(v)
            except ValueError:
                return None
    return res


def parse_obs(line):
    """-> dict or None for panic/skipped/bad-op/ok(limits)."""
    if line is None or line.startswith("panic") or line in ("skipped", "bad-op", "ok", "case") or " ; " not in line:
        return None
    parts = line.split(" ; ")
    if len(parts) not in (5, 6):
        return None
    res, calls, ev, st, tail = parts[:5]
    o = {"res": res, "calls": [], "events": [], "st": {}, "raw": line, "susp": "-", "cmd": 0, "ch": None}
    if len(parts) == 6:
        # protocol layer: susp=y|- cmd=<queued commands> ch=<len0>,<len1>
        for kv in parts[5].split():
            k, v = kv.split("=")
            if k == "susp":
                o["susp"] = v
            elif k == "cmd":
                o["cmd"] = int(v)
            elif k == "ch":
                o["ch"] = [int(x) for x in v.split(",")]
    for c in calls[len("calls="):].split():
        if c == "-":
            continue
        f = c.split(":")
        o["calls"].append((f[0], f[1], f[2].split("|") if len(f) > 2 and f[2] else []))
    for e in ev[len("ev="):].split():
        if e == "-":
            continue
        f = e.split(":")
        if f[0] == "est":
            o["events"].append({"k": "est", "peer": int(f[1]) if f[1].isdigit() else -1, "conn": f[2], "dir": f[3], "addr": f[4]})
        elif f[0] == "closed":
            o["events"].append({"k": "closed", "peer": int(f[1]) if f[1].isdigit() else -1, "conn": f[2]})
        elif f[0] == "dialfail":
            o["events"].append({"k": "dialfail", "conn": f[1], "addr": f[2], "err": f[3]})
        elif f[0] == "openfail":
            o["events"].append({"k": "openfail", "conn": f[1], "addrs": [x.split("=")[0] for x in f[2].split("|") if x]})
        elif f[0] == "udialfail":
            # facade level (Litep2pEvent::DialFailure): no connection id
            o["events"].append({"k": "udialfail", "addr": f[1], "err": f[2] if len(f) > 2 else "?"})
        elif f[0] == "ulist":
            # facade level (Litep2pEvent::ListDialFailures): no connection id, possibly an empty list
            items = [x for x in (f[1] if len(f) > 1 else "").split("|") if x]
            o["events"].append({"k": "ulist", "addrs": [x.split("=")[0] for x in items], "items": items})
        else:
            o["events"].append({"k": "other"})
    for s in st[len("st="):].split():
        if s == "-":
            continue
        p, v = s.split(":", 1)
        o["st"][int(p) if p.isdigit() else -1] = v
    for kv in tail.split():
        k, v = kv.split("=")
        if k == "lim":
            o["lim_in"], o["lim_out"] = map(int, v.split("/"))
        else:
            o[k] = int(v)
    return o


class Ghost:
    """Mirror of the ghost layer (owed / fresh / live / ledger / contract) plus the last observation."""

    def __init__(self, max_in, max_out):
        self.max_in = None if max_in == "none" else int(max_in)
        self.max_out = None if max_out == "none" else int(max_out)
        self.owed = {}        # label -> {"phase": open|dial|accept, "peer": p, "addrs": [...]}
        self.fresh = set()    # labels allocated for inbound sockets, not yet reported
        self.used = set()     # every label that ever named an id
        self.live = {}        # label -> set of (peer, dir)
        self.ledger = []      # {"peer","conn","carrier","reports":[...],"step"}
        self.contract = True  # environment kept its contract so far
        self.broken_at = None
        self.acceptfail = False
        self.prev = None      # previous parsed observation
        self.clash = False    # a label was bound twice (duplicated `as=` line): identities are ambiguous
        self.facade_done = [] # facade level: failure reports already attributed to an attempt

    # -- contract (Model/Manager/Dial.lean `allowed`)
    def allowed(self, t):
        if t[0] in ("addknown", "dial", "dialaddr", "limits", "protocols", "pdial", "pdialaddr", "pfill", "pdrain",
                    "fdial", "fdialaddr", "fnext", "facade") + AUX_OPS:
            return True
        if t[0] == "accepted":
            return t[2] == "ok" and self.owed.get(t[1], {}).get("phase") == "accept"
        if t[0] != "ev":
            return False
        k = t[1]
        if k == "established":
            p, c, a, d = int(t[2]), t[3], t[4], t[5]
            if "acceptfail" in t[6:]:
                return False
            if d == "listener":
                return c in self.fresh or c not in self.used
            o = self.owed.get(c)
            return bool(o) and o["phase"] == "dial" and o["peer"] == p
        if k in ("opened", "openfail"):
            return self.owed.get(t[2], {}).get("phase") == "open"
        if k == "dialfail":
            return self.owed.get(t[2], {}).get("phase") == "dial" and last_peer(t[3]) is not None
        if k == "pendingin":
            return t[2] in self.fresh or t[2] not in self.used
        if k == "closed":
            p, c = int(t[2]), t[3]
            return any(q == p for q, _ in self.live.get(c, ())) and c not in self.owed
        return False

    def live_of(self, p):
        return sorted(c for c, s in self.live.items() if any(q == p for q, _ in s))

    def owed_of(self, p):
        return sorted(c for c, o in self.owed.items() if o["peer"] == p)

    def update(self, step, op, obs):
        """Apply one operation and its parsed observation (None = panic etc.)."""
        t = base_op(op).split()
        if self.contract and not self.allowed(t):
            self.contract, self.broken_at = False, step
        if obs is None:
            return
        calls = obs["calls"]
        label = next((x[3:] for x in t if x.startswith("as=")), None)
        for ev in obs["events"]:
            for a in self.ledger:
                if (ev["k"] == "est" and ev["conn"] == a["carrier"]) or \
                        (ev["k"] in ("dialfail", "openfail") and ev["conn"] == a["conn"]):
                    a["reports"].append((step, ev["k"]))
        if t[0] in ("dial", "dialaddr", "pdial", "pdialaddr", "pdrain", "pfill", "fnext"):
            # attempts started by the call itself or by queued commands the manager got to in this step
            for kind, c, addrs in calls:
                if kind in ("open", "dial") and c in self.used:
                    self.clash = True
                if kind == "open":
                    lp = int(t[1]) if t[0] == "dial" else (last_peer(addrs[0]) if addrs else None)
                    lp = lp if lp is not None else 0
                    self.owed[c] = {"phase": "open", "peer": lp, "addrs": addrs}
                    self.ledger.append({"peer": lp, "conn": c, "carrier": c, "reports": [], "step": step})
                    self.used.add(c)
                elif kind == "dial":
                    tp = tcp_peer(addrs[0]) if addrs else None
                    lp = last_peer(t[1]) if t[0] == "dialaddr" else (last_peer(addrs[0]) if addrs else None)
                    self.owed[c] = {"phase": "dial", "peer": tp if tp is not None else 0, "addrs": addrs}
                    self.ledger.append({"peer": lp if lp is not None else 0, "conn": c, "carrier": c, "reports": [], "step": step})
                    self.used.add(c)
        elif t[0] == "addknown":
            pass
        elif t[0] == "accepted":
            self.owed.pop(t[1], None)
            self.used.add(t[1])
            if t[2] != "ok":
                if self.prev is not None and obs["acc"] < self.prev["acc"]:
                    self.live.pop(t[1], None)      # rolled back
                self.acceptfail = True
        elif t[0] == "ev":
            k = t[1]
            if k == "established":
                p, c, d = int(t[2]), t[3], t[5]
                ok = "acceptfail" not in t[6:]
                if not ok:
                    self.acceptfail = True
                self.used.add(c)
                self.fresh.discard(c)
                self.owed.pop(c, None)
                cancelled = [x[1] for x in calls if x[0] == "cancel"]
                for x in cancelled:
                    self.owed.pop(x, None)
                if any(x[0] == "accept" and x[1] == c for x in calls):
                    if ok:
                        self.owed[c] = {"phase": "accept", "peer": p, "addrs": []}
                        self.live.setdefault(c, set()).add((p, d))
                        for a in self.ledger:
                            if a["carrier"] in cancelled:
                                a["carrier"] = c
                    else:
                        self.live.pop(c, None)     # accept failed: rolled back
            elif k == "opened":
                c = t[2]
                self.used.add(c)
                old = self.owed.pop(c, None)
                neg = [x[1] for x in calls if x[0] == "negotiate"]
                if neg:
                    self.owed[neg[0]] = {"phase": "dial", "peer": old["peer"] if old else 0, "addrs": [t[3]]}
            elif k in ("openfail", "dialfail"):
                self.used.add(t[2])
                self.owed.pop(t[2], None)
            elif k == "pendingin":
                if t[2] not in self.used:
                    self.fresh.add(t[2])
                self.used.add(t[2])
            elif k == "closed":
                self.used.add(t[3])
                self.live.pop(t[3], None)
        self.prev = obs


class Session:
    """Interactive harness process (one line in, one line out)."""

    def __init__(self):
        self.p = subprocess.Popen([HARNESS_BIN, AREA], stdin=subprocess.PIPE, stdout=subprocess.PIPE, text=True, bufsize=1)

    def send(self, line):
        if line == "case":
            # the harness answers `case` without flushing: read its echo with the next answer
            self.p.stdin.write("case\n")
            self.skip = getattr(self, "skip", 0) + 1
            return "case"
        self.p.stdin.write(line + " !flush\n")
        self.p.stdin.flush()
        for _ in range(getattr(self, "skip", 0)):
            self.p.stdout.readline()
        self.skip = 0
        return self.p.stdout.readline().rstrip("\n")

    def close(self):
        try:
            self.p.stdin.close()
            self.p.wait(timeout=5)
        except Exception:
            self.p.kill()


def openfail_errs(rng, addrs):
    """Error list of an OpenFailure: one error per address (every attempt failed), a subset (the overall
    dial deadline fired while some attempts were outstanding) or none at all (deadline, all outstanding)."""
    r = rng.random()
    if r < 0.6:
        errs = list(addrs)
    elif r < 0.8:
        errs = [x for x in addrs if rng.random() < 0.5]
    else:
        errs = []
    return ",".join(f"{x}={rng.choice('tta')}" for x in errs)


def gen_case(rng, sess, n_ops, npeers=3, chaos=0.0, limits=None, protocols=None, facade=False):
    """One history. Events are chosen among those a contract-abiding environment can produce in the
    current (observed) situation; with probability `chaos` per step an arbitrary event instead.
    `protocols=(n, cap)`: n protocols with event channels of capacity cap are installed; they dial
    through the manager handle, and their channels are filled / drained around the moments the
    outcomes of dials are delivered."""
    lim = limits or rng.choice(LIMIT_CONFIGS)
    ops = [f"limits {lim[0]} {lim[1]}"]
    sess.send("case")
    sess.send(ops[0])
    g = Ghost(*lim)
    nlabel = [0]
    peers = list(range(1, npeers + 1))
    np_ = 0
    dial_op, dialaddr_op = ("fdial", "fdialaddr") if facade else ("dial", "dialaddr")
    if facade:
        # facade level: everything is polled through Litep2p::next_event from here on
        ops.append("facade")
        sess.send("facade")
    if protocols:
        np_ = protocols[0]
        ops.append(f"protocols {protocols[0]} cap={protocols[1]}")
        sess.send(ops[-1])
    last = {"susp": "-", "ch": [0] * np_}

    def new_label():
        nlabel[0] += 1
        return f"c{nlabel[0]}"

    def any_label():
        return f"c{rng.randrange(1, max(2, nlabel[0] + 2))}"

    for _ in range(n_ops):
        cands = []
        p = rng.choice(peers)
        # API calls
        cands.append((6 if protocols else 3, lambda p=p: f"addknown {p} " + ",".join(rng.sample([addr(p, 0), addr(p, 1), addr(p, 2)], rng.choice([1, 1, 2])))))
        cands.append((4, lambda p=p: f"{dial_op} {p} as={new_label()}"))
        cands.append((4, lambda p=p: f"{dialaddr_op} {addr(p, rng.randrange(3))} as={new_label()}"))
        if facade:
            cands.append((1, lambda: "fnext"))
        # a protocol opens a substream (the OTHER id counter moves), a look at an address store
        cands.append((2, lambda p=p: f"substream {p}"))
        cands.append((1, lambda p=p: f"scores {p}"))
        # inbound sockets
        cands.append((1, lambda: f"ev pendingin {new_label()}"))
        cands.append((3, lambda p=p: f"ev established {p} {rng.choice(sorted(g.fresh)) if g.fresh and rng.random() < 0.7 else new_label()} "
                                     f"ip4.{50 + p}/tcp.{4000 + rng.randrange(3)} listener" + (" acceptfail" if rng.random() < 0.04 else "")))
        for c, o in sorted(g.owed.items()):
            if o["phase"] == "open":
                addrs = o["addrs"] or [addr(o["peer"], 0)]
                def opened(c=c, addrs=addrs):
                    a = rng.choice(addrs)
                    errs = [x for x in addrs if x != a and rng.random() < 0.5]
                    tail = (" errs=" + ",".join(f"{x}={rng.choice('tta')}" for x in errs)) if errs else ""
                    return f"ev opened {c} {a}{tail}"
                cands.append((6, opened))
                cands.append((4, lambda c=c, addrs=addrs: f"ev openfail {c} errs=" + openfail_errs(rng, addrs)))
            elif o["phase"] == "dial":
                a = (o["addrs"] or ["-"])[0]
                cands.append((6, lambda c=c, o=o, a=a: f"ev established {o['peer']} {c} {a} dialer" + (" acceptfail" if rng.random() < 0.03 else "")))
                cands.append((4, lambda c=c, a=a: f"ev dialfail {c} {a} {rng.choice('ttan')}"))
            else:
                cands.append((8, lambda c=c: f"accepted {c} {'ok' if rng.random() < 0.95 else 'fail'}"))
        for c, s in sorted(g.live.items()):
            if c not in g.owed:
                for q, _ in sorted(s):
                    cands.append((3, lambda c=c, q=q: f"ev closed {q} {c}"))
        if np_:
            full = [j for j in range(np_) if last["ch"][j] >= protocols[1]]
            outcome_near = any(o["phase"] in ("open", "dial") for o in g.owed.values())
            cands.append((6, lambda p=p: f"pdial {rng.randrange(np_)} {p}"))
            cands.append((2, lambda p=p: f"pdialaddr {rng.randrange(np_)} {addr(p, rng.randrange(3))}"))
            cands.append((5 if outcome_near else 1, lambda: f"pfill {rng.randrange(np_)}"))
            cands.append((3 if full else 1, lambda: f"pdrain {rng.choice(full) if full and rng.random() < 0.8 else rng.randrange(np_)}"))
            if last["susp"] == "y":
                # the manager is blocked on a full channel: mostly protocol activity
                cands = [(w, f) for w, f in cands[-4:]] + [(1, f) for _, f in cands[:-4][:3]]
                cands.append((10, lambda: f"pdrain {rng.choice(full) if full else rng.randrange(np_)}"))
        if rng.random() < chaos and last["susp"] != "y":
            q = rng.choice(peers)
            a = addr(q, rng.randrange(3))
            cands = [(1, lambda: f"ev established {q} {any_label()} {a} {rng.choice(['dialer', 'listener'])}"),
                     (1, lambda: f"ev dialfail {any_label()} {rng.choice([a, a, '-', 'ip4.1/tcp.1'])} t"),
                     (1, lambda: f"ev opened {any_label()} {a}"),
                     (1, lambda: f"ev openfail {any_label()} errs={a}=t"),
                     (1, lambda: f"ev closed {q} {any_label()}"),
                     (1, lambda: f"accepted {any_label()} {rng.choice(['ok', 'fail'])}"),
                     (1, lambda: f"addknown {q} {addr(rng.choice(peers), 0)},ip4.0/tcp.1/p2p.{q},ip4.99/tcp.99/p2p.{q},ip4.5/udp.5/p2p.{q}")]
        total = sum(w for w, _ in cands)
        r = rng.random() * total
        for w, f in cands:
            r -= w
            if r <= 0:
                break
        op = f()
        out = sess.send(op)
        ops.append(op)
        if out == "busy" or is_aux(op):
            continue
        obs = parse_obs(out)
        g.update(len(ops) - 1, op, obs)
        if obs is None:
            return ops                 # panic: the rest of the case would be skipped
        if np_ and obs["ch"] is not None:
            last = obs
    if np_ and rng.random() < 0.9:
        # the protocols catch up: drain until the manager is no longer blocked and every channel is empty
        for _ in range(3 * np_ + 2):
            todo = [j for j in range(np_) if last["ch"][j] > 0]
            if not todo:
                break
            for j in todo:
                op = f"pdrain {j}"
                out = sess.send(op)
                ops.append(op)
                obs = parse_obs(out)
                g.update(len(ops) - 1, op, obs)
                if obs is None or obs["ch"] is None:
                    return ops
                last = obs
    return ops


def boundary_addr(rng, p):
    """A well-formed address of peer p whose target is a boundary case of an outbound connection."""
    host = rng.choice(["ip4.0", "ip4.99999", "ip4.99998", "ip4.99997", "ip4.99996", "ip6.0", f"ip4.{10 + p}", f"dns.{p}", f"ip6.{p}"])
    return f"{host}/tcp.{rng.choice([0, 0, 65535, 1000 + p])}/p2p.{p}"


# adversarial multiaddress shapes for dial_address
def adversarial_addr(rng, peers=(1, 2, 3)):
    p, q = rng.choice(peers), rng.choice(peers)
    n = rng.randrange(1, 9)
    host = rng.choice([f"ip4.{n}", f"ip4.{300 + n}", f"ip6.{n}", f"dns.{n}", f"dns4.{n}", f"dns6.{n}", "ip4.0", "ip6.0", "ip4.99"])
    # boundary targets of an outbound connection: port 0 / 65535, the unspecified, broadcast, loopback, multicast and
    # link-local IPv4 addresses, the unspecified IPv6 address — in the shape dial_address accepts
    bhost = rng.choice(["ip4.0", "ip4.99999", "ip4.99998", "ip4.99997", "ip4.99996", "ip6.0", host, host])
    bport = rng.choice([0, 0, 65535, n])
    shapes = [
        f"{bhost}/tcp.{bport}/p2p.{p}",
        f"{bhost}/tcp.{bport}/p2p.{p}",
        f"{bhost}/tcp.{bport}/p2p.{p}",
        f"{host}/tcp.0/p2p.{p}",
        f"{bhost}/tcp.{bport}",
        f"{bhost}/tcp.{bport}/p2p.{p}/p2p.{q}",
        f"{host}/tcp.{n}/p2p.{p}",
        f"{host}/tcp.{n}/p2p.{p}/p2p.{q}",
        f"{host}/tcp.{n}/p2p.{p}/other.0/p2p.{q}",
        f"{host}/tcp.{n}/p2p.{p}/tcp.{n}",
        f"{host}/tcp.{n}",
        f"{host}/tcp.{n}/ws/p2p.{p}",
        f"{host}/tcp.{n}/wss/p2p.{p}",
        f"{host}/udp.{n}/quicV1/p2p.{p}",
        f"{host}/udp.{n}/p2p.{p}",
        f"{host}/p2p.{p}",
        f"{host}",
        f"tcp.{n}/p2p.{p}",
        f"p2p.{p}",
        "-",
        f"other.{rng.randrange(6)}/tcp.{n}/p2p.{p}",
        f"{host}/other.{rng.randrange(6)}/p2p.{p}",
        f"{host}/tcp.{n}/other.{rng.randrange(6)}/p2p.{p}",
        f"{host}/tcp.{n}/p2p.{p}/other.{rng.randrange(6)}",
        f"{host}/{host}/tcp.{n}/p2p.{p}",
        f"{host}/tcp.{n}/tcp.{n}/p2p.{p}",
        "ip4.99/tcp.99/p2p.0",
        "ip4.99/tcp.99",
        f"{host}/tcp.{n}/p2p.0",
        f"p2p.{p}/{host}/tcp.{n}/p2p.{q}",
        # a host component the transports refuse although it looks like a DNS name
        f"dnsaddr.{n}/tcp.{n}/p2p.{p}",
        f"dnsaddr.{n}/tcp.{n}/p2p.{p}",
        f"dnsaddr.{n}/p2p.{p}",
    ]
    return rng.choice(shapes)


def gen_addr_case(rng, sess, n_ops):
    """dial_address on adversarial shapes, interleaved with the outcomes of the attempts that start."""
    lim = rng.choice([("none", "none"), ("none", "none"), ("1", "1"), ("2", "2")])
    ops = [f"limits {lim[0]} {lim[1]}"]
    sess.send("case")
    sess.send(ops[0])
    g = Ghost(*lim)
    n = 0
    for _ in range(n_ops):
        r = rng.random()
        dial_owed = [(c, o) for c, o in sorted(g.owed.items()) if o["phase"] == "dial"]
        acc = [c for c, o in sorted(g.owed.items()) if o["phase"] == "accept"]
        open_owed = [(c, o) for c, o in sorted(g.owed.items()) if o["phase"] == "open"]
        if r < 0.08:
            # boundary targets through the address book: dial(peer) hands them to Transport::open
            p = rng.choice([1, 2, 3])
            op = f"addknown {p} " + ",".join(boundary_addr(rng, p) for _ in range(rng.choice([1, 2])))
        elif r < 0.16:
            n += 1
            op = f"dial {rng.choice([1, 2, 3])} as=c{n}"
        elif open_owed and r < 0.5:
            c, o = rng.choice(open_owed)
            addrs = o["addrs"] or [addr(o["peer"], 0)]
            op = rng.choice([f"ev openfail {c} errs=" + openfail_errs(rng, addrs), f"ev opened {c} {rng.choice(addrs)}"])
        elif r < 0.6 or not (dial_owed or acc):
            n += 1
            op = f"dialaddr {adversarial_addr(rng)} as=c{n}"
        elif acc and (r < 0.75 or not dial_owed):
            op = f"accepted {acc[0]} ok"
        else:
            c, o = rng.choice(dial_owed)
            a = (o["addrs"] or ["-"])[0]
            op = rng.choice([f"ev established {o['peer']} {c} {a} dialer", f"ev dialfail {c} {a} t"])
        out = sess.send(op)
        ops.append(op)
        obs = parse_obs(out)
        g.update(len(ops) - 1, op, obs)
        if obs is None:
            break
    return ops


# limit configurations under which queued dials of the protocols fail
PROTO_LIMITS = [("none", "0"), ("0", "0"), ("none", "1"), ("1", "1"), ("2", "1")]


def gen_cases(rng, tier, share_addr=0.15, share_proto=0.0, share_facade=0.0):
    n = {"quick": 1000, "thorough": 50000, "search": 4000}[tier]
    sess = Session()
    try:
        for i in range(n):
            if rng.random() < share_addr:
                yield gen_addr_case(rng, sess, rng.choice([3, 6, 10, 16]))
            else:
                chaos = rng.choice([0, 0, 0, 0, 0, 0.05, 0.15])
                protocols = None
                if rng.random() < share_proto:
                    protocols = (rng.choice([1, 1, 2, 2, 3]), rng.choice([1, 1, 2, 3]))
                    chaos = rng.choice([0, 0, 0, 0.05])
                limits = rng.choice(PROTO_LIMITS) if protocols and rng.random() < 0.5 else None
                facade = share_facade > 0 and rng.random() < share_facade
                yield gen_case(rng, sess, rng.choice([6, 10, 16, 25, 25]), npeers=rng.choice([2, 3]), chaos=chaos,
                               limits=limits, protocols=protocols, facade=facade)
    finally:
        sess.close()


def mutate_case(rng, case, n):
    for _ in range(n):
        c = list(case)
        for _ in range(rng.randrange(1, 4)):
            i = rng.randrange(1, len(c))
            if rng.random() < 0.5 and len(c) > 2:
                del c[i]
            else:
                c.insert(i, rng.choice(case[1:]))
        yield c


def model_lines(case, impl_out):
    """Checker mode for `dial`: the model takes the address store's choice (hash-map order among
    equal scores) from the implementation's `open` call and validates it."""
    res = []
    for i, op in enumerate(case):
        o = impl_out[i] if impl_out and i < len(impl_out) and impl_out[i] else ""
        if " -> " in op:
            res.append(op)
        elif (op.startswith("dial ") or op.startswith("fdial ")) and "calls=open:" in o:
            res.append(op + " -> " + o)
        elif op.startswith("protocols ") and o.startswith("ok order="):
            # the order in which the manager walks over its protocols is the hash map's
            res.append(op + " -> " + o)
        elif op.split(" ", 1)[0] in ("pdial", "pdialaddr", "pfill", "pdrain", "fnext") and "open:" in o:
            # queued DialPeer commands the manager got to in this step: the address store's answers
            res.append(op + " -> " + o)
        else:
            res.append(op)
    return res


def stats(case, out, acc):
    for op, o in zip(case, out):
        t = op.split()
        k = t[0] + (":" + t[1] if t[0] == "ev" else "")
        bump(acc, "op:" + k)
        if o.startswith("panic"):
            bump(acc, "panic")
        if o == "busy":
            bump(acc, "busy:" + k)
        if o.startswith("idclash"):
            bump(acc, "idclash")
        ob = parse_obs(o)
        if ob:
            if ob["susp"] == "y":
                bump(acc, "suspended-after:" + k)
            if t[0] in ("pdial", "pdialaddr"):
                bump(acc, f"{t[0]}:{ob['res']}" + ("+attempt" if ob["calls"] else ""))
            if t[0] == "pdrain" and ob["res"] != "got=-":
                for e in ob["res"][4:].split(","):
                    bump(acc, "protocol-got:" + e.split(":")[0])
            if t[0] in ("dial", "dialaddr", "fdial", "fdialaddr"):
                bump(acc, f"{t[0]}:{ob['res']}" + ("+attempt" if ob["calls"] else ""))
            if t[0] == "ev" and t[1] == "openfail":
                n = len([x for x in next((a[5:] for a in t if a.startswith("errs=")), "").split(",") if x])
                bump(acc, "openfail-errors:" + ("0" if n == 0 else "1" if n == 1 else "several"))
            for c in ob["calls"]:
                bump(acc, "call:" + c[0])
            for e in ob["events"]:
                bump(acc, "event:" + e["k"])
    bump(acc, "limits:" + case[0].split(" ", 1)[1])
    bump(acc, "case-len:%d" % (5 * (len(case) // 5)))


def nontrivial(case, out):
    calls = set()
    evs = set()
    for o in out:
        ob = parse_obs(o)
        if ob:
            calls.update(c[0] for c in ob["calls"])
            evs.update(e["k"] for e in ob["events"])
    return ("accept" in calls or "reject" in calls) and bool(evs)


CORPUS = [
    # boundary hosts in the address book: which of them get the public-address bonus, and the order dial() hands them over
    ["limits none 2", "addknown 1 ip4.99999/tcp.1/p2p.1,ip4.99998/tcp.0/p2p.1,ip4.99997/tcp.65535/p2p.1,ip4.99996/tcp.1/p2p.1,"
     "ip4.300/tcp.1/p2p.1,ip4.12/tcp.1/p2p.1,ip6.4/tcp.1/p2p.1,dns.1/tcp.0/p2p.1,ip4.0/tcp.1/p2p.1,ip6.0/tcp.1/p2p.1", "scores 1",
     "dialaddr ip4.99998/tcp.65535/p2p.2 as=c1", "ev established 2 c1 ip4.99998/tcp.65535/p2p.2 dialer", "accepted c1 ok",
     "dial 1 as=c2", "scores 1", "ev openfail c2", "substream 1", "scores 1"],
    # finding (d): outbound limit 1, two concurrent dials both establish (fixed: second gets a dial failure)
    ["limits none 1", "dialaddr ip4.11/tcp.1001/p2p.1 as=c1", "dialaddr ip4.12/tcp.1002/p2p.2 as=c2",
     "ev established 1 c1 ip4.11/tcp.1001/p2p.1 dialer", "ev established 2 c2 ip4.12/tcp.1002/p2p.2 dialer",
     "accepted c1 ok", "ev closed 1 c1", "dialaddr ip4.12/tcp.1002/p2p.2 as=c3", "dial 2 as=c4"],
    # (d) with the dial record parked next to an inbound connection
    ["limits none 1", "dialaddr ip4.11/tcp.1001/p2p.1 as=c1", "dialaddr ip4.12/tcp.1002/p2p.2 as=c2",
     "ev established 2 c3 ip4.52/tcp.4000 listener", "accepted c3 ok", "ev established 1 c1 ip4.11/tcp.1001/p2p.1 dialer",
     "ev established 2 c2 ip4.12/tcp.1002/p2p.2 dialer", "ev closed 2 c3", "accepted c1 ok", "ev closed 1 c1", "dial 2 as=c4"],
    # finding (f): two /p2p components (fixed: refused)
    ["limits none none", "dialaddr ip4.5/tcp.5/p2p.1/p2p.2 as=c1", "ev established 1 c1 ip4.5/tcp.5/p2p.1/p2p.2 dialer",
     "dialaddr ip4.12/tcp.1002/p2p.2 as=c2"],
    # opening attempt superseded by an inbound connection
    ["limits 1 1", "addknown 1 ip4.11/tcp.1001/p2p.1,ip4.301/tcp.2001/p2p.1", "dial 1 as=c1",
     "ev established 1 c2 ip4.51/tcp.4000 listener", "accepted c2 ok", "ev closed 1 c2", "dial 1 as=c3", "ev openfail c3 errs=ip4.301/tcp.2001/p2p.1=t"],
]


# ---------------------------------------------------------------------------------------------------------------
# Address scores at manager level (C10 pulls these in through the engine's `extra_cases`): "dial successes and
# failures re-score exactly the address used" — in EVERY peer state the outcome can arrive in.

SCORE_OK, SCORE_FAIL, SCORE_ADDR_FAIL = 100, -100, -2**31
FAIL_SCORE = {"t": SCORE_FAIL, "n": SCORE_FAIL, "a": SCORE_ADDR_FAIL}


def looks_public(a):
    """The harness's address convention: ip4.n is public for 256 <= n < 99990 and for the multicast target 99997
    (IpNetwork::is_global says so), DNS names count as public."""
    head = a.split("/")[0]
    kind, _, n = head.partition(".")
    if kind in ("dns", "dns4", "dns6"):
        return True
    return kind == "ip4" and n.isdigit() and (256 <= int(n) < 99990 or int(n) == 99997)


def score_case(rng):
    """One scripted manager-level history around a dial outcome, `scores` taken right before and right after it.
    The shapes differ in the state the peer is in when the outcome arrives: Dialing, Opening, Connected with the dial
    parked as the secondary record (the remote's own connection won the simultaneous-dial race), Disconnected with a
    dial record (that connection closed again), Connected with a secondary connection."""
    p = rng.choice([1, 2, 3])
    j = rng.randrange(3)
    a = addr(p, j)
    others = [addr(p, x) for x in range(3) if x != j]
    k = rng.choice("ttan")
    lim = rng.choice([("none", "none"), ("none", "none"), ("2", "2"), ("3", "2"), ("1", "1")])
    ops = [f"limits {lim[0]} {lim[1]}"]
    inbound = f"ip4.{50 + p}/tcp.{4000 + rng.randrange(3)}"
    shape = rng.choice(["race", "race", "race", "dialing", "record", "opening", "opening", "success", "race-success"])
    if rng.random() < 0.5:
        ops.append(f"addknown {p} " + ",".join(rng.sample(others, rng.choice([1, 2]))))
    if rng.random() < 0.3:
        ops.append(f"substream {p}")
    if shape in ("race", "record", "race-success"):
        ops += [f"dialaddr {a} as=c1", f"ev established {p} c2 {inbound} listener"]
        if shape == "record" or rng.random() < 0.7:
            ops.append("accepted c2 ok")
        if shape == "record":
            ops.append(f"ev closed {p} c2")
        ops.append(f"scores {p}")
        ops.append(f"ev established {p} c1 {a} dialer" if shape == "race-success" else f"ev dialfail c1 {a} {k}")
        ops.append(f"scores {p}")
        if rng.random() < 0.5:
            # the failed address keeps its (new) rank for the next dial
            if shape == "race":
                ops.append(f"ev closed {p} c2")
            ops += [f"dial {p} as=c3", f"scores {p}"]
    elif shape == "dialing":
        ops += [f"dialaddr {a} as=c1", f"scores {p}", f"ev dialfail c1 {a} {k}", f"scores {p}"]
        if rng.random() < 0.5:
            ops += [f"dialaddr {a} as=c2", f"scores {p}", f"ev dialfail c2 {a} {rng.choice('ttan')}", f"scores {p}"]
    elif shape == "success":
        ops += [f"dialaddr {a} as=c1", f"scores {p}", f"ev established {p} c1 {a} dialer", f"scores {p}", "accepted c1 ok",
                f"scores {p}"]
    else:
        book = [a] + rng.sample(others, rng.choice([1, 2]))
        ops = [ops[0], f"addknown {p} " + ",".join(book), f"dial {p} as=c1", f"scores {p}"]
        how = rng.choice(["openfail", "opened-fail", "opened-ok", "superseded"])
        if how == "openfail":
            ops += [f"ev openfail c1 errs=" + openfail_errs(rng, book), f"scores {p}"]
        elif how == "superseded":
            # an inbound connection supersedes the Opening attempt; the late open failure still concerns its addresses
            ops += [f"ev established {p} c2 {inbound} listener", "accepted c2 ok", f"scores {p}"]
            if rng.random() < 0.8:
                # … and arrives: the addresses that were dialed and failed are scored although the manager no longer
                # tracks the attempt (seeded change C10-g1)
                ops += [f"ev openfail c1 errs=" + openfail_errs(rng, book), f"scores {p}"]
        else:
            x = rng.choice(book)
            errs = [y for y in book if y != x and rng.random() < 0.6]
            tail = (" errs=" + ",".join(f"{y}={rng.choice('tta')}" for y in errs)) if errs else ""
            ops += [f"ev opened c1 {x}{tail}", f"scores {p}"]
            ops += [f"ev dialfail c1 {x} {rng.choice('nt')}" if how == "opened-fail" else f"ev established {p} c1 {x} dialer",
                    f"scores {p}"]
    return ops


def with_scores(ops):
    """Put `scores <p>` right before and right after every dial outcome of a generated history (read-only lines)."""
    res = []
    for op in ops:
        t = op.split()
        peers = set()
        if t[:2] == ["ev", "dialfail"] and len(t) > 3:
            peers = {last_peer(t[3])}
        elif t[:2] == ["ev", "established"] and len(t) > 5 and t[5] == "dialer" and t[2].isdigit():
            peers = {int(t[2])}
        elif t[:2] == ["ev", "opened"] and len(t) > 3:
            peers = {last_peer(t[3])}
        if t[:2] in (["ev", "opened"], ["ev", "openfail"]):
            errs = next((x[5:] for x in t[3:] if x.startswith("errs=")), "")
            peers |= {last_peer(x.split("=")[0]) for x in errs.split(",") if x}
        peers = sorted(q for q in peers if q is not None)
        res += [f"scores {q}" for q in peers] + [op] + [f"scores {q}" for q in peers]
    return res


def gen_score_cases(rng, tier):
    n_script, n_rand = {"quick": (160, 60), "thorough": (6000, 3000), "search": (300, 100)}[tier]
    for _ in range(n_script):
        yield score_case(rng)
    sess = Session()
    try:
        for _ in range(n_rand):
            yield with_scores(gen_case(rng, sess, rng.choice([6, 10, 16]), npeers=rng.choice([2, 3]), chaos=0))
    finally:
        sess.close()


def rescored_by(t):
    """What one operation must do to the address stores, from the operation alone: [(peer, address, score)] in the
    order the manager applies them; None = the operation is no dial outcome."""
    if t[:2] == ["ev", "dialfail"] and len(t) == 5:
        p = last_peer(t[3])
        return [(p, t[3], FAIL_SCORE.get(t[4], SCORE_FAIL))] if p is not None else []
    if t[:2] in (["ev", "openfail"], ["ev", "opened"]):
        errs = next((x[5:] for x in t[3:] if x.startswith("errs=")), "")
        res = []
        for item in [x for x in errs.split(",") if x]:
            a, _, k = item.partition("=")
            if last_peer(a) is not None:
                res.append((last_peer(a), a, FAIL_SCORE.get(k, SCORE_FAIL)))
        if t[1] == "opened" and len(t) > 3 and last_peer(t[3]) is not None:
            res.append((last_peer(t[3]), t[3], SCORE_OK))
        return res
    if t[:2] == ["ev", "established"] and len(t) > 5 and t[5] == "dialer" and t[2].isdigit():
        a = t[4] if last_peer(t[4]) is not None else (f"p2p.{t[2]}" if t[4] == "-" else f"{t[4]}/p2p.{t[2]}")
        return [(int(t[2]), a, SCORE_OK)]
    return None


def oracle_scores(case, out):
    """C10 at manager level, on the observations alone: a dial outcome (DialFailure, OpenFailure, ConnectionOpened with
    its partial errors, ConnectionEstablished of a dialed connection) re-scores EXACTLY the address(es) it names — each
    gets the score of the outcome (CONNECTION_ESTABLISHED / CONNECTION_FAILURE / ADDRESS_FAILURE), whatever state the peer
    is in, and no other address of any inspected peer changes. Judged where `scores <p>` lines enclose the outcome, while
    the scripted transport keeps the Transport contract."""
    bad = []
    t0 = case[0].split() if case else []
    if len(t0) != 3 or t0[0] != "limits":
        return bad
    g = Ghost(t0[1], t0[2])

    def v(kind, msg, i):
        bad.append({"kind": kind, "msg": msg, "step": i, "op": case[i], "out": out[i] if i < len(out) else None})

    n = min(len(case), len(out))
    last_state = {}
    for i in range(1, n):
        op, o = case[i].split(" -> ")[0], out[i]
        if o in ("skipped", "bad-op") or o.startswith("panic"):
            break
        if o == "busy" or is_aux(op):
            continue
        t = base_op(op).split()
        obs = parse_obs(o)
        if obs is None:
            break
        state_before = dict(last_state)
        allowed_before = g.contract and g.allowed(t)
        g.update(i, op, obs)
        last_state = obs["st"]
        if not g.contract or g.clash:
            break
        exp = rescored_by(t)
        if not exp or not allowed_before:
            continue
        # the `scores` lines right before and right after this operation
        before, after = {}, {}
        j = i - 1
        while j >= 1 and case[j].startswith("scores "):
            sc = parse_scores(out[j])
            if sc is not None and case[j].split()[1].isdigit():
                before.setdefault(int(case[j].split()[1]), sc)
            j -= 1
        j = i + 1
        while j < n and case[j].startswith("scores "):
            sc = parse_scores(out[j])
            if sc is not None and case[j].split()[1].isdigit():
                after.setdefault(int(case[j].split()[1]), sc)
            j += 1
        for p in sorted(set(before) & set(after)):
            want = dict(before[p])
            for q, a, score in exp:
                if q == p:
                    want[a] = score if a in want else (score + 1 if looks_public(a) and score < 2**31 - 1 else score)
            if want == after[p]:
                continue
            st = state_before.get(p, "Disconnected")
            for q, a, score in exp:
                if q == p and after[p].get(a) != want[a]:
                    what = "failure" if score < 0 else "success"
                    v("not-rescored", f"dial {what} of {a} reported while peer {p} was {st}: its score is "
                      f"{after[p].get(a, 'absent')} afterwards, the outcome must re-score it to {want[a]}", i)
                    break
            else:
                diff = sorted(a for a in set(want) | set(after[p]) if want.get(a) != after[p].get(a))
                v("other-address-rescored", f"the outcome of {[a for _, a, _ in exp]} changed the score of other "
                  f"address(es) {diff} of peer {p}: {[(a, before[p].get(a), after[p].get(a)) for a in diff]}", i)
            return bad
    return bad


def stats_scores(case, out, acc):
    for op, o in zip(case, out):
        t = op.split()
        if t[0] == "scores":
            bump(acc, "scores:" + ("empty" if o == "sc=-" else "some"))
        elif t[:2] in (["ev", "dialfail"], ["ev", "openfail"], ["ev", "opened"], ["ev", "established"]):
            ob = parse_obs(o)
            if ob:
                # the state the peer was left in tells which branch the outcome took
                bump(acc, "outcome:" + t[1] + ":" + ",".join(sorted({s[:1] + ("~" if "~" in s else "+" if "+" in s else "") for s in ob["st"].values()})))
