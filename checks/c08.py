"""C08 — well-formed per-peer connection and substream event stream of TransportService
(model: Model/Service/{Conns,Order}.lean, adapter: src/verif/c08.rs)."""
import glob
import itertools
import os
from .common import bump

ID = "C08"
AREA = "c08"
LEAN_PROPS = "Litep2pVerif.Props.C08"
THEOREMS = ["alternation", "closed_iff_last", "substream_refers_connected", "open_answered_at_most_once",
            "open_answered_once_unless_closed", "ids_fresh", "outbound_open_answered_by_loop",
            "force_close_keeps_context", "substream_reported_before_close"]
CONSTS = ["PROTOCOL_COMMAND_CHANNEL_SIZE", "YAMUX_MAX_ACK_BACKLOG"]
_YAMUX = (sorted(glob.glob(os.path.expanduser("~/.cargo/registry/src/*/yamux-0.13.10/src/lib.rs")))
          or sorted(glob.glob(os.path.expanduser("~/.cargo/registry/src/*/yamux-0.13*/src/lib.rs"))) or ["yamux/src/lib.rs"])[0]
CONST_TABLE = [
    # `ProtocolSet::new`: capacity of the connection's command channel (a full channel refuses an open request)
    ("PROTOCOL_COMMAND_CHANNEL_SIZE", "src/protocol/protocol_set.rs", r"let \(tx, rx\) = channel\((\d+)\);", 256),
    # yamux: outbound streams that may wait for the remote's acknowledgement; the next `open_stream()` waits
    ("YAMUX_MAX_ACK_BACKLOG", _YAMUX, r"const MAX_ACK_BACKLOG: usize = (\d+);", 256),
]
MANIFEST = {
    "text": "Lean 4 theorems about an operational model of TransportService::{on_connection_established, "
            "on_connection_closed, open_substream, force_close} (plus the methods that only delegate to the manager handle) "
            "and its event paths: alternation and ids_fresh for EVERY history (feasible or not, with force_close and the "
            "delegating calls at any point); force_close_keeps_context: force_close changes nothing in the service's state, "
            "the protocol's observations of everything else and the environment's possibilities are those of the history "
            "without the call, and exactly the connections of the peer's context are told to close; closed_iff_last, substream_refers_connected, open_answered_at_most_once and "
            "open_answered_once_unless_closed for every history the environment (manager: at most 2 live connections per "
            "peer, fresh ids, close only for announced; connection task: answers only received commands, with the same id) "
            "can produce, written as an explicit acceptor. Tie: the real TransportService with injected "
            "InnerTransportEvents and harness-owned command receivers is run against the model's executable definitions "
            "(state compared after every drain and after every force_close), plus a property-level grammar oracle on the emitted event stream; thorough "
            "enumerates every panic-free event order: 1 peer x 3 connections with repetition up to length 7, 2 peers x 2 connections (each event once) up to length 8, 2 peers x 3 connections up to length 5, "
            "and force_close at every point: 1 peer x 2 connections + force with repetition up to length 7, 2 peers x 2 connections + one force per peer up to length 6. "
            "outbound_open_answered_by_loop discharges the connection-task half of that environment hypothesis for the TCP "
            "connection task (model Model/Conn/Permits.lean: requested -> yamux open pending -> negotiating -> answered): for "
            "every schedule a pending request stays pending, for the same protocol, until its own future ends; the failure/"
            "timeout arm is enabled in either pending stage and sends SubstreamOpenFailure for that request to the protocol "
            "that asked (at once, or suspended on its full channel); success likewise under a main or fallback name; an entry "
            "that has left pending_substreams never comes back (at most once). Tie: the REAL TcpConnection::start loop over "
            "loopback TCP (tcploop area, checker mode) with substream ids in every observation: bursts of requests beyond the "
            "yamux ACK backlog (256) and beyond the command channel (256, ChannelClogged) against a remote that never "
            "acknowledges, small substream_open_timeout, then a wait past it; remotes knowing only a fallback name; judged by "
            "the property-level oracle tcploop.oracle_c08 (every answer carries the id of a request of THAT protocol, at most "
            "once; every request is answered once the timeout has passed while the connection is open). "
            "substream_reported_before_close (f-round, seeded C08-f1): report_substream_open delivers by a send that SUSPENDS "
            "the loop — when a negotiation ends for a live protocol nothing has been reported closed; with room the event is "
            "enqueued at once, with a full channel the loop waits in exactly that send and, for every schedule of everything "
            "else, the FIRST change of the loop is that enqueue (or the protocol's own shutdown): no event of the connection is "
            "processed meanwhile, so every close report comes after the substream event in the protocol's FIFO channel. Tie: "
            "tcploop family `order` (channel capacity 1/2 filled, inbound/outbound substreams finishing negotiation while "
            "full — in the same poll as the cause of the exit or before —, every exit path, then drain) under the oracle "
            "rules ORDER (no substream event after the protocol's close report) and NOT LOST.",
    "note": "Trusted: Lean kernel; axioms propext/Classical.choice/Quot.sound; the hand-written model and its tie; the "
            "environment assumptions of Order.lean (manager cap and report order are C06/C07; tokio mpsc FIFO); keep-alive "
            "(Active/Inactive handles) enters the C08 model only as the arbitrary outcome of try_get_permit (C09 covers it).",
    "technique": "Lean 4 proof (invariants over all histories / all environment-feasible histories) + model/implementation "
                 "correspondence check + exhaustive small-scope enumeration of event orders",
    "design_ref": "DESIGN.md §7 C08",
}
RULE = ("tcploop (extra area): fixed, burst (257-300 open requests in chunks or beyond the command channel, remote=stall, "
        "sot=300/500 ms, sleep timeout+500 ms, then inbound substream / new request / close / idle), small stalls, fallback-name, "
        "hold, accept, half-close, race, span, order (substream negotiated against a full channel of capacity 1/2, then "
        "remote close / go-away / ForceClose / idle / error exit in the same poll or a later one, then drain) and random "
        "families of checks/tcploop.py with focus C08; c08: "
        "seeded histories over 2 peers x up to 3 connections each: a feasible stream (environment simulated: <=2 live "
        "connections, closes of live connections in either order, opens, command receipt, answers by success/failure, "
        "dropped tasks, clogged channels of capacity 1-3, foreign id allocations, force_close followed by the closes of the "
        "peer's connections in a random order with substream events between, calls of dial/dial_address/add_known_address/"
        "local_peer_id/listen+public addresses/unregister_protocol; add_known_address with address kinds tcp/tcpp/wrong/udp/unspec/"
        "two/twow/relay/circ, and a `known` family every 50th case: see checks/c10.py), a force_close-with-overlapping-connections family (12 %: "
        "two connections, pending/received/answered requests, full or dropped channel, force_close, primary-first or "
        "secondary-first close, events of the surviving connection between) and an infeasible stream (third "
        "connections, closes of unknown connections, duplicate/unknown answers, repeated ids, force_close anywhere); every case ends by "
        "draining the service; a case is non-trivial if the protocol saw an established and a closed event and one open "
        "was accepted; distinct = distinct (ops, observations) transcripts by SHA-256")
TRUSTED_BASE = ["Lean 4.33 kernel", "axioms: propext, Classical.choice, Quot.sound only",
                "hand-written models Model/Service/Conns.lean, Model/Service/Order.lean tied to transport_service.rs by this run",
                "adapter /repo/src/verif/c08.rs (injects events through the service's own channel, reads `connections`, owns the "
                "command receivers of the connections and of the manager; the manager handle is built with TCP enabled and an "
                "empty peer table that only add_known_address fills), harness, verif.py, checks/c08.py",
                "tokio mpsc channels are FIFO with try_send = Closed | Full | Ok as documented",
                "environment assumptions of Order.lean: manager admits <= 2 connections per peer and is told about a close "
                "after the protocols (C06/C07), connection ids and substream ids come from shared counters",
                "tcploop area (adapter /repo/src/verif/tcploop.rs, model Model/Conn/Permits.lean, driver Driver/Tcploop.lean, "
                "checks/tcploop.py): real time passes only in `sleep`; the oracle's timeout rule needs the adapter's wall clock to "
                "advance by the requested amount; on a connection built with sot= the driver takes WHICH outbound requests timed "
                "out during an operation from the implementation's observation (it cannot know the clock) and checks everything else",
                "tcploop order rule: the adapter's runtime polls a task spawned by the code under test only between two polls "
                "of the connection task (yield points of the adapter), as tokio's current-thread scheduler does; a hand-over of a "
                "report to a spawned task is seen as a re-ordering when the close report is produced in the same poll, otherwise as "
                "a model mismatch (the loop goes on although the model says it waits)",
                "yamux (crate yamux 0.13.10 + litep2p's Control wrapper) is not modelled beyond: open_stream() may never return"]
ASSUMPTIONS = ["the keep-alive timeout of the adapter (1 h) does not expire during a case, so handles stay Active "
               "(force_close / open_substream on Inactive handles: C09 area, tcploop and node areas)",
               "tcploop timeout rule: a request that was accepted before a `sleep` of at least substream_open_timeout + 400 ms "
               "is taken by the connection task at the start of that operation at the latest (nobody paused, no channel filled)",
               "cooperative scheduling budget of tokio does not hide queued events (the adapter polls until Pending twice)",
               "tcploop NOT-LOST rule: judged only for inbound substreams whose negotiation ended (a `run` left the loop "
               "running) before any operation that can end the connection, with nobody but the receiver busy"]
KEEP_PREFIX = 1
PEERS = [1, 2]


# ------------------------------------------------------------------ generators

def gen_feasible(rng, n_ops):
    cap = rng.choice([1, 2, 2, 3])
    ops = [f"cfg {cap}"]
    live = {p: [] for p in PEERS}           # injected view
    nxt = {p: 0 for p in PEERS}
    dropped = set()
    proc_conn = {p: [] for p in PEERS}      # processed view (after `next`): live conns in order
    pending = []                            # injected, unprocessed
    queue = {}                              # conn -> list of sids queued (processed view of the channel)
    held = {}                               # conn -> sids received, unanswered
    nsub = 0
    script = []                             # scripted follow-up of a `force`: closes in a chosen order, events between

    def drain():
        ops.append("next")
        for kind, q, c in pending:
            if kind == "est":
                proc_conn[q].append(c)
            else:
                proc_conn[q].remove(c)
        del pending[:]

    def close(p, c):
        live[p].remove(c)
        if rng.random() < 0.8:
            ops.append(f"conn_drop {c}")
            dropped.add(c)
            queue[c], held[c] = [], []
        ops.append(f"closed {p} {c}")
        pending.append(("closed", p, c))
        held[c] = []

    def force(p):
        ops.append(f"force {p}")
        # secondary first, then primary (processed view); a ForceClose occupies a slot of the command channel
        for c in reversed(proc_conn[p][:2]):
            if c not in dropped and len(queue[c]) < cap:
                queue[c].append("F")

    for _ in range(n_ops):
        p = rng.choice(PEERS)
        r = rng.random()
        if script and rng.random() < 0.55:
            kind, q, c = script.pop(0)
            if kind == "close" and c in live[q]:
                close(q, c)
            elif kind == "in" and c in live[q]:
                ops.append(f"subopen {q} in {c}")
            elif kind == "open":
                ops.append(f"open {q}")
                if proc_conn[q]:
                    c0 = proc_conn[q][0]
                    if c0 not in dropped and len(queue[c0]) < cap:
                        queue[c0].append(nsub)
                    nsub += 1
            elif kind == "next":
                drain()
        elif r < 0.05:
            # force_close: any peer at any time; with two live connections script both close orders afterwards
            if pending and rng.random() < 0.7:
                drain()
            up = [q for q in PEERS if proc_conn[q]]
            if up and rng.random() < 0.85:
                p = rng.choice(up)
            force(p)
            cs = list(live[p])
            if cs and rng.random() < 0.8:
                rng.shuffle(cs)
                script[:] = [("close", p, cs[0])]
                if len(cs) > 1:
                    mid = [("in", p, cs[1]), ("open", p, 0), ("next", 0, 0)]
                    rng.shuffle(mid)
                    script += mid[:rng.randrange(0, 4)] + [("close", p, cs[1])]
                script.append(("next", 0, 0))
        elif r < 0.16:
            if len(live[p]) < 2 and nxt[p] < 9:
                c = p * 10 + nxt[p]
                nxt[p] += 1
                live[p].append(c)
                queue[c], held[c] = [], []
                ops.append(f"est {p} {c}")
                pending.append(("est", p, c))
        elif r < 0.28:
            if live[p]:
                close(p, rng.choice(live[p]))
        elif r < 0.50:
            ops.append(f"open {p}")
            if proc_conn[p]:
                c = proc_conn[p][0]
                if c not in dropped and len(queue[c]) < cap:
                    queue[c].append(nsub)
                nsub += 1
        elif r < 0.66:
            cs = [c for c in live[p] if c not in dropped]
            if cs:
                c = rng.choice(cs)
                ops.append(f"conn_recv {c}")
                if queue[c]:
                    x = queue[c].pop(0)
                    if x != "F":
                        held[c].append(x)
        elif r < 0.80:
            cs = [c for c in live[p] if held.get(c)]
            if cs:
                c = rng.choice(cs)
                sid = held[c].pop(rng.randrange(len(held[c])))
                ops.append(f"subopen {p} {sid} {c}" if rng.random() < 0.6 else f"subfail {sid}")
        elif r < 0.85:
            if live[p]:
                ops.append(f"subopen {p} in {rng.choice(live[p])}")
        elif r < 0.88:
            k = rng.choice([1, 2, 5])
            ops.append(f"bump {k}")
            nsub += k
        elif r < 0.90:
            ops.append(f"dialfail {p}")
        elif r < 0.93:
            ops.extend(manager_ops(rng))
        else:
            drain()
        if pending and rng.random() < 0.4:
            drain()
    ops.append("next")
    for p in PEERS:
        ops.append(f"open {p}")
    ops.append("next")
    return ops


def manager_ops(rng):
    """Calls of methods that only delegate to the manager handle (they never touch the service's state)."""
    p = rng.choice(PEERS + PEERS + [0, 3])
    kind = rng.choice(["tcp", "tcp", "tcpp", "tcpp", "wrong", "udp", "unspec", "wrong", "two", "twow", "relay", "circ"])
    port = rng.choice([1, 2, 3])
    r = rng.random()
    if r < 0.3:
        return [f"known {p} {kind} {port}", f"dial {p}"] + ["mgr_recv"] * rng.randrange(0, 2)
    return [rng.choice([f"known {p} {kind} {port}", f"dial {p}", f"dial_addr {p} {kind} {port}", "mgr_recv", "mgr_recv",
                        "lpid", "addrs", "unregister"])]


# ---- addresses offered through the service (C10: attribution; run as `extra_cases` of checks/c10.py) ----
NAMES_PEER = ("tcp", "tcpp")                          # plain TCP shape, names the peer or nobody
FOREIGN = ("wrong", "two", "twow", "relay", "circ")   # trailing /p2p of somebody else / not a plain shape
UNDIALABLE = ("udp", "unspec")


def gen_known(rng):
    """`TransportService::add_known_address` with addresses whose `/p2p` components name the peer, nobody, another
    peer, two peers, a relay — interleaved with `dial` / `mgr_recv` (would the manager be asked to dial?)."""
    ops = [f"cfg {rng.choice([1, 2, 4])}"]
    for _ in range(rng.choice([3, 5, 8, 12])):
        p = rng.choice(PEERS + PEERS + [3])
        r = rng.random()
        if r < 0.45:
            kind, port = rng.choice(FOREIGN), rng.choice([4, 5, 6, 7] if rng.random() < 0.8 else [1, 2, 3])
        elif r < 0.85:
            kind, port = rng.choice(NAMES_PEER), rng.choice([1, 2, 3])
        else:
            kind, port = rng.choice(UNDIALABLE), rng.choice([1, 2, 3, 8])
        ops.append(f"known {p} {kind} {port}")
        if rng.random() < 0.35:
            ops += [f"dial {p}", "mgr_recv"]
    ops.append("next")
    return ops


def gen_known_cases(rng, tier):
    n = {"quick": 120, "thorough": 4000, "search": 400}[tier]
    fixed = [["cfg 2", f"known 1 {k} 5", "dial 1", "mgr_recv", "known 1 tcp 1", f"known 1 {k} 1", "dial 1", "mgr_recv", "next"]
             for k in FOREIGN]
    return fixed + [gen_known(rng) for _ in range(n)]


def oracle_known(case, out):
    """C10, property level (no model): after `known <p> <kind> <port>` the peer table of <p> holds only addresses that
    were offered for <p> in a form naming <p> or nobody (kinds tcp/tcpp), each ending with <p>'s own id and of the plain
    shape; `dial <p>` is accepted only if such an address was offered."""
    bad = []
    legit = {}
    for i, (op, o) in enumerate(zip(case, out)):
        t = op.split()
        if o == "skipped":
            break
        if o.startswith("panic"):
            bad.append({"kind": "panic", "msg": f"panic in {t[0]}: {o}", "step": i, "op": op, "out": o})
            break
        if o == "bad-op":
            continue
        if t[0] == "known" and o.startswith("stored=["):
            p, kind, port = int(t[1]), t[2], int(t[3]) % 65536
            if kind in NAMES_PEER:
                legit.setdefault(p, set()).add(str(port))
            body = o[len("stored=["):-1]
            for x in (body.split(",") if body else []):
                if x.rstrip("!~") not in legit.get(p, set()) or "!" in x:
                    bad.append({"kind": "foreign-address-remembered", "step": i, "op": op, "out": o,
                                "msg": f"peer {p}'s address book holds {x!r}: no address with this port naming peer {p} (or "
                                       f"no peer) was offered for it ('!' = trailing /p2p of another peer)"})
                elif "~" in x:
                    bad.append({"kind": "undialable-address-remembered", "step": i, "op": op, "out": o,
                                "msg": f"peer {p}'s address book holds {x!r}: not of the shape /<host>/tcp/<port>/p2p/<id>"})
        elif t[0] == "dial" and o == "ok" and len(t) == 2 and t[1].isdigit() and not legit.get(int(t[1])):
            bad.append({"kind": "foreign-address-remembered", "step": i, "op": op, "out": o,
                        "msg": f"dial by peer id accepted for peer {t[1]} although no address naming it (or no peer) was offered"})
    return bad


def stats_known(case, out, acc):
    for op, o in zip(case, out):
        t = op.split()
        if t[0] == "known":
            bump(acc, f"known:{t[2]}:" + ("kept" if (o.startswith("stored=[") and str(int(t[3]) % 65536) in o[8:-1].split(",")) else "not-kept"))
        elif t[0] == "dial":
            bump(acc, "dial:" + o)


def gen_force_overlap(rng):
    """`force_close` while two connections to a peer overlap, then every order of the two closes, with substream
    events, open requests and drains in between (the code path nothing else reaches: the secondary handle at the
    time of the call). Sometimes a request is pending or already received, sometimes a channel is full or gone."""
    cap = rng.choice([1, 2, 2, 3, 4])
    p = rng.choice(PEERS)
    a, b = p * 10, p * 10 + 1
    ops = [f"cfg {cap}", f"est {p} {a}"]
    if rng.random() < 0.5:
        ops.append("next")
    ops += [f"est {p} {b}", "next"]
    k = rng.randrange(0, 3)
    ops += [f"open {p}"] * k
    accepted = min(k, cap)
    answered = False
    if accepted and rng.random() < 0.5:
        ops.append(f"conn_recv {a}")                     # sid 0 is now held by the task of `a`
        if rng.random() < 0.5:
            ops += [rng.choice([f"subopen {p} 0 {a}", "subfail 0"])]
            answered = True
    if rng.random() < 0.15:
        ops.append(f"conn_drop {rng.choice([a, b])}")
    ops.append(f"force {p}")
    for _ in range(rng.randrange(0, 3)):
        ops.append(f"conn_recv {rng.choice([a, b])}")
    if rng.random() < 0.2:
        ops.append(f"force {p}")
    first, second = (a, b) if rng.random() < 0.5 else (b, a)
    if rng.random() < 0.7:
        ops.append(f"conn_drop {first}")
    ops.append(f"closed {p} {first}")
    mid = [f"subopen {p} in {second}", f"open {p}", "next", f"force {p}", f"dialfail {p}", f"conn_recv {second}",
           f"subopen {p} in {second}", "next"]
    rng.shuffle(mid)
    ops += mid[:rng.randrange(0, 6)]
    if rng.random() < 0.7:
        ops.append(f"conn_drop {second}")
    ops += [f"closed {p} {second}", "next", f"open {p}", f"force {p}"]
    if rng.random() < 0.5:
        c = p * 10 + 2
        ops += [f"est {p} {c}", "next", f"open {p}", f"force {p}", f"conn_recv {c}", f"conn_recv {c}",
                f"closed {p} {c}", "next"]
    ops.append("next")
    return ops


def gen_infeasible(rng, n_ops):
    ops = [f"cfg {rng.choice([1, 2, 3])}"]
    conns = [10, 11, 12, 20, 21]
    for _ in range(n_ops):
        p = rng.choice(PEERS)
        c = rng.choice(conns)
        r = rng.random()
        if r < 0.25:
            ops.append(f"est {p} {c}")
        elif r < 0.45:
            ops.append(f"closed {p} {c}")
        elif r < 0.60:
            ops.append(f"open {p}")
        elif r < 0.68:
            ops.append(f"conn_recv {c}")
        elif r < 0.73:
            ops.append(f"conn_drop {c}")
        elif r < 0.81:
            ops.append(f"subopen {p} {rng.choice(['in', 0, 1, 2, 3])} {c}")
        elif r < 0.86:
            ops.append(f"subfail {rng.choice([0, 1, 2, 3, 7])}")
        elif r < 0.88:
            ops.append(f"bump {rng.choice([1, 3])}")
        elif r < 0.93:
            ops.append(f"force {p}")
        elif r < 0.95:
            ops.extend(manager_ops(rng))
        else:
            ops.append("next")
    ops.append("next")
    return ops


def would_panic(seq):
    """Does the event order make the service take the debug_assert branch (close for a peer without
    connection)? Used only to prune the enumeration (a panic ends the case)."""
    conns = {}
    for kind, p, c in seq:
        if kind == "force":
            continue
        if kind == "est":
            ctx = conns.get(p)
            if ctx is None:
                conns[p] = [c, None]
            elif ctx[1] is None:
                ctx[1] = c
        else:
            ctx = conns.get(p)
            if ctx is None:
                return True
            if ctx[0] == c:
                if ctx[1] is None:
                    del conns[p]
                else:
                    conns[p] = [ctx[1], None]
            else:
                ctx[1] = None
    return False


def case_of(seq):
    ops = ["cfg 2"]
    for kind, p, c in seq:
        if kind == "force":
            ops.append(f"force {p}")
            continue
        ops.append(f"{kind} {p} {c}")
        ops.append("next")
    for p in sorted({p for _, p, _ in seq}):
        ops.append(f"open {p}")
    ops.append("next")
    return ops


def enumerate_orders(alphabet, max_len, distinct):
    """All event orders up to max_len (every proper prefix panic-free)."""
    out = []

    def rec(seq):
        if seq:
            out.append(list(seq))
        if len(seq) == max_len or (seq and would_panic(seq)):
            return
        for a in alphabet:
            if distinct and a in seq:
                continue
            seq.append(a)
            rec(seq)
            seq.pop()
    rec([])
    # only maximal sequences and panicking ones are needed: a non-panicking sequence is a prefix of
    # its extensions and the transcript of a prefix is a prefix of the transcript
    keep = [s for s in out if len(s) == max_len or would_panic(s)]
    return keep


def exhaustive_cases():
    one_peer = [(k, 1, c) for c in (10, 11, 12) for k in ("est", "closed")]
    two_peers = [(k, p, c) for p, cs in ((1, (10, 11)), (2, (20, 21))) for c in cs for k in ("est", "closed")]
    two_peers3 = [(k, p, c) for p, cs in ((1, (10, 11, 12)), (2, (20, 21, 22))) for c in cs for k in ("est", "closed")]
    cases = [case_of(s) for s in enumerate_orders(one_peer, 7, False)]      # with repetition
    cases += [case_of(s) for s in enumerate_orders(two_peers, 8, True)]     # each event at most once
    cases += [case_of(s) for s in enumerate_orders(two_peers3, 5, True)]
    # `force_close` at every point of every order of establish/close of two connections (with repetition)
    one_peer_force = [(k, 1, c) for c in (10, 11) for k in ("est", "closed")] + [("force", 1, 0)]
    cases += [case_of(s) for s in enumerate_orders(one_peer_force, 7, False)]
    two_peers_force = two_peers + [("force", 1, 0), ("force", 2, 0)]
    cases += [case_of(s) for s in enumerate_orders(two_peers_force, 6, True)]
    return cases


def corpus():
    return [
        # the orders of the unit tests and the interesting neighbours
        ["cfg 2", "est 1 10", "est 1 11", "next", "closed 1 10", "next", "closed 1 11", "next"],
        ["cfg 2", "est 1 10", "est 1 11", "est 1 12", "next", "closed 1 12", "closed 1 11", "closed 1 10", "next"],
        ["cfg 2", "est 1 10", "next", "open 1", "open 1", "open 1", "conn_recv 10", "subfail 0", "conn_recv 10",
         "subopen 1 1 10", "next", "conn_drop 10", "closed 1 10", "next", "open 1"],
        ["cfg 1", "closed 1 10", "next"],
        # force_close with overlapping connections, primary first / secondary first (seeded change C08-e1)
        ["cfg 2", "est 1 10", "next", "est 1 11", "next", "force 1", "conn_recv 10", "conn_recv 11", "closed 1 10",
         "subopen 1 in 11", "next", "open 1", "closed 1 11", "next", "force 1"],
        ["cfg 2", "est 1 10", "est 1 11", "next", "force 1", "closed 1 11", "subopen 1 in 10", "next", "closed 1 10",
         "next"],
        ["cfg 1", "est 1 10", "est 1 11", "next", "open 1", "force 1", "conn_recv 10", "force 1", "conn_recv 10",
         "conn_recv 11", "next"],
        ["cfg 2", "lpid", "addrs", "known 1 tcp 1", "known 1 tcpp 1", "known 1 wrong 2", "known 2 udp 1", "dial 1",
         "dial 2", "dial 0", "dial_addr 1 tcp 1", "dial_addr 1 tcpp 1", "unregister", "mgr_recv", "mgr_recv", "mgr_recv",
         "mgr_recv", "est 1 10", "next", "dial 1", "next"],
    ]


def gen_cases(rng, tier):
    n = {"quick": 3000, "thorough": 50000, "search": 5000}[tier]
    for i in range(n):
        k = rng.choice([6, 12, 20, 30, 45])
        r = rng.random()
        if i % 50 == 7:
            yield gen_known(rng)
        yield gen_force_overlap(rng) if r < 0.12 else gen_feasible(rng, k) if r < 0.72 else gen_infeasible(rng, k)
    if tier == "thorough":
        for c in exhaustive_cases():
            yield c


def mutate_case(rng, case, n):
    for _ in range(n):
        c = list(case)
        for _ in range(rng.randrange(1, 4)):
            if len(c) < 2:
                break
            i = rng.randrange(1, len(c))
            r = rng.random()
            if r < 0.4:
                del c[i]
            elif r < 0.8:
                c.insert(i, rng.choice(case[1:]))
            else:
                c.insert(i, "next")
        yield c + ["next"]


def normalize(line):
    return line


# ------------------------------------------------------------------ oracle

def parse_events(o):
    """Events of a `next` observation (also of `panic debug-assert [..]`)."""
    a, b = o.find("["), o.find("]")
    if a < 0 or b < 0:
        return []
    body = o[a + 1:b]
    return body.split(",") if body else []


def oracle(case, out):
    """Grammar checker on what the protocol observed. Checks A* hold for every history; checks F* only
    while the history is one the environment can produce (decided here, on the processing order:
    injected events are processed by the next `next`, `open` acts immediately)."""
    bad = []

    def v(kind, msg, i):
        bad.append({"kind": kind, "msg": msg, "step": i, "op": case[i], "out": out[i] if i < len(out) else None})

    cap = 2
    feasible = True
    connected = {}                 # protocol's view from emitted events: peer -> bool
    last_sid = -1
    accepted = {}                  # sid -> (peer, conn)
    answered = set()
    delivered = set()              # sids seen by conn_recv
    # environment (spec level)
    live = {}                      # peer -> live connections in order of establishment (processed)
    used = set()
    outstanding = {}               # sid -> (peer, conn)
    chan_q = {}                    # conn -> number of queued commands
    chan_dead = set()
    created = set()                # connections whose command channel exists (est injected)
    pending = []                   # injected, unprocessed: (step, tokens)
    last_conns = "[]"              # `connections` as printed by the last drain
    force_sent = {}                # conn -> ForceClose commands it must have been sent and has not received yet
    calls = []                     # API calls since the last drain
    for i, op in enumerate(case):
        if i >= len(out):
            break
        o = out[i]
        t = op.split()
        if o == "skipped":
            break
        if o == "bad-op":
            continue
        if t[0] in ("open", "force", "known", "dial", "dial_addr", "unregister", "lpid", "addrs"):
            calls.append(op)
        if t[0] == "cfg":
            cap = max(1, int(t[1]))
            last_conns = "[]"
        elif t[0] in ("est", "closed", "subopen", "subfail", "dialfail"):
            if o != "ok":
                v("inject", f"adapter could not inject: {o}", i)
            pending.append((i, t))
            if t[0] == "est":
                created.add(int(t[2]))
        elif t[0] == "conn_drop":
            c = int(t[1])
            if c in created:           # the adapter ignores a drop of a channel that does not exist yet
                chan_dead.add(c)
                chan_q[c] = 0
                force_sent[c] = 0
        elif t[0] == "force":
            # `force_close` tells the connections of the peer to close and changes nothing in the peer's context:
            # a connection stays the protocol's until its own close report arrives
            p = int(t[1])
            if o.startswith("panic"):
                v("panic", f"panic in force_close: {o}", i)
                break
            res, _, conns = o.partition(" conns=")
            if conns != last_conns:                                                                  # A4
                v("force-changed-context", f"the connection table changed from {last_conns} (last drain) to {conns} (after "
                  f"force_close) although no connection event was processed; calls since the drain: {', '.join(calls)}", i)
            if connected.get(p) and res == "err no-peer":
                v("force-refused", f"peer {p} is connected but force_close says it does not exist", i)
            if not connected.get(p) and res != "err no-peer":
                v("force-unconnected", f"force_close for unconnected peer {p} answered {res}", i)
            if feasible and connected.get(p) and live.get(p):
                want = None
                for c in reversed(live[p][:2]):        # secondary first, then the primary, whose result is returned
                    if c in chan_dead:
                        want = "err closed"
                    elif chan_q.get(c, 0) >= cap:
                        want = "err clogged"
                    else:
                        want = "ok"
                        chan_q[c] = chan_q.get(c, 0) + 1
                        force_sent[c] = force_sent.get(c, 0) + 1
                if want != res:
                    v("force-result", f"force_close for connected peer {p} answered {res}, the primary's channel says {want}", i)
        elif t[0] in ("lpid", "addrs", "known", "dial", "dial_addr", "unregister", "mgr_recv"):
            # delegated to the manager handle; nothing of this reaches the protocol's event stream (the model
            # comparison checks the answers); a panic is a panic
            if o.startswith("panic"):
                v("panic", f"panic in {t[0]}: {o}", i)
                break
            if t[0] == "lpid" and o != "peer 0":
                v("local-peer-id", f"local_peer_id answered {o}", i)
        elif t[0] == "bump":
            pass
        elif t[0] == "conn_recv":
            if o.startswith("open "):
                _, sid, c = o.split()
                sid, c = int(sid), int(c)
                chan_q[c] = max(0, chan_q.get(c, 0) - 1)
                if sid not in accepted:
                    v("command-unknown", f"connection {t[1]} received an open command with id {sid} that open_substream never returned", i)
                elif accepted[sid][1] != c or int(t[1]) != c:
                    v("command-misrouted", f"command {sid} accepted for connection {accepted[sid][1]} arrived at {t[1]} (field {c})", i)
                if sid in delivered:
                    v("command-duplicated", f"command {sid} delivered twice", i)
                delivered.add(sid)
            elif o == "force-close":
                c = int(t[1])
                chan_q[c] = max(0, chan_q.get(c, 0) - 1)
                if feasible:
                    if force_sent.get(c, 0) <= 0:
                        v("force-misrouted", f"connection {c} was told to close but force_close was not called for its peer", i)
                    else:
                        force_sent[c] -= 1
            elif feasible and o == "empty" and chan_q.get(int(t[1]), 0) > 0 and int(t[1]) not in chan_dead:
                v("command-lost", f"connection {t[1]} has {chan_q[int(t[1])]} accepted commands but receives none", i)
        elif t[0] == "open":
            p = int(t[1])
            if o.startswith("ok "):
                _, sid, c = o.split()
                sid, c = int(sid), int(c)
                if sid <= last_sid:
                    v("id-reused", f"open_substream returned id {sid} after {last_sid}", i)          # A2
                last_sid = sid
                if not connected.get(p):
                    v("open-unconnected", f"open accepted for peer {p} which the protocol was not told is connected", i)  # A3
                accepted[sid] = (p, c)
                outstanding[sid] = (p, c)
                chan_q[c] = chan_q.get(c, 0) + 1
                if feasible:
                    prim = live.get(p, [None])[0] if live.get(p) else None
                    if prim is not None and c != prim:
                        v("open-not-primary", f"open for peer {p} sent to connection {c}, oldest live connection is {prim}", i)
            elif o.startswith("err"):
                if connected.get(p) and o == "err no-peer":
                    v("open-refused", f"peer {p} is connected but open_substream says it does not exist", i)
                if not connected.get(p) and o != "err no-peer":
                    v("open-unconnected", f"open for unconnected peer {p} answered {o}", i)
                if feasible and connected.get(p) and live.get(p):
                    prim = live[p][0]
                    want = "err closed" if prim in chan_dead else ("err clogged" if chan_q.get(prim, 0) >= cap else "ok")
                    if want != o:
                        v("open-refused", f"open for connected peer {p} answered {o}, the channel state says {want}", i)
            elif o.startswith("panic"):
                v("panic", f"panic in open_substream: {o}", i)
                break
        elif t[0] == "next":
            events = parse_events(o)
            panicked = o.startswith("panic")
            if panicked and "debug-assert" not in o:
                v("panic", f"unexpected panic: {o}", i)
            # what the environment did, in processing order
            expect_conn = []           # expected connection events (feasible only)
            injected_answers = []      # answers injected since the last drain (feasible only)
            seg_feasible = feasible
            for (j, u) in pending:
                if not feasible:
                    break
                if u[0] == "est":
                    p, c = int(u[1]), int(u[2])
                    if c in used or len(live.get(p, [])) >= 2:
                        feasible = False
                        break
                    used.add(c)
                    if not live.get(p):
                        expect_conn.append(f"est:{p}")
                    live.setdefault(p, []).append(c)
                elif u[0] == "closed":
                    p, c = int(u[1]), int(u[2])
                    if c not in live.get(p, []):
                        feasible = False
                        break
                    live[p].remove(c)
                    if not live[p]:
                        expect_conn.append(f"closed:{p}")
                    for sid in [s for s, pc in outstanding.items() if pc[1] == c]:
                        del outstanding[sid]
                elif u[0] == "subopen":
                    p, c = int(u[1]), int(u[3])
                    if u[2] == "in":
                        if c not in live.get(p, []):
                            feasible = False
                            break
                        injected_answers.append(f"sub:{p}:in")
                    else:
                        sid = int(u[2])
                        if outstanding.get(sid) != (p, c):
                            feasible = False
                            break
                        del outstanding[sid]
                        injected_answers.append(f"sub:{p}:out{sid}")
                elif u[0] == "subfail":
                    sid = int(u[1])
                    if sid not in outstanding:
                        feasible = False
                        break
                    del outstanding[sid]
                    injected_answers.append(f"fail:{sid}")
                elif u[0] == "dialfail":
                    injected_answers.append(f"dialfail:{u[1]}")
            pending = []
            if panicked and feasible and seg_feasible:
                v("panic", "debug_assert reached in a history the environment can produce", i)
            # A1: alternation, for every history; F2/F3: substream events
            for e in events:
                f = e.split(":")
                if f[0] == "est":
                    p = int(f[1])
                    if connected.get(p):
                        v("alternation", f"second ConnectionEstablished for peer {p} without ConnectionClosed", i)
                    connected[p] = True
                elif f[0] == "closed":
                    p = int(f[1])
                    if not connected.get(p):
                        v("alternation", f"ConnectionClosed for peer {p} which was not established", i)
                    connected[p] = False
                elif f[0] == "sub" and feasible:
                    p = int(f[1])
                    if not connected.get(p):
                        v("substream-unconnected", f"SubstreamOpened for peer {p} which is not connected", i)
                    if f[2].startswith("out"):
                        sid = int(f[2][3:])
                        if sid not in accepted:
                            v("answer-unknown", f"substream {sid} opened but never requested", i)
                        elif accepted[sid][0] != p:
                            v("answer-unknown", f"substream {sid} was requested for peer {accepted[sid][0]}, opened for {p}", i)
                        if sid in answered:
                            v("answered-twice", f"request {sid} answered twice", i)
                        answered.add(sid)
                elif f[0] == "fail" and feasible:
                    sid = int(f[1])
                    if sid not in accepted:
                        v("answer-unknown", f"failure for {sid} which was never requested", i)
                    elif not connected.get(accepted[sid][0]):
                        v("substream-unconnected", f"failure {sid} refers to peer {accepted[sid][0]} which is not connected", i)
                    if sid in answered:
                        v("answered-twice", f"request {sid} answered twice", i)
                    answered.add(sid)
            if feasible and not panicked:
                got_conn = [e for e in events if e.startswith("est:") or e.startswith("closed:")]
                if got_conn != expect_conn:                                                # F1
                    v("closed-iff-last", f"connection events {got_conn}, first-open/last-close rule says {expect_conn}", i)
                got_ans = sorted(e for e in events if not (e.startswith("est:") or e.startswith("closed:")))
                if got_ans != sorted(injected_answers):                                    # F4
                    v("answer-lost", f"forwarded {got_ans}, the connection tasks reported {sorted(injected_answers)}", i)
            if panicked:
                break
            a = o.find(" conns=")
            if a >= 0:
                last_conns = o[a + 7:].split(" ")[0]
            calls = []
    return bad


def stats(case, out, acc):
    for op, o in zip(case, out):
        t = op.split()[0]
        bump(acc, "op:" + t)
        if t == "open":
            bump(acc, "open:" + " ".join(o.split()[:2] if o.startswith("err") else o.split()[:1]))
        if t == "force":
            res, _, conns = o.partition(" conns=")
            mine = [x for x in conns.strip("[]").split(",") if x.startswith(op.split()[1] + ":")]
            bump(acc, "force:" + res + (":overlap" if mine and not mine[0].endswith("/-") else ""))
        if t in ("dial", "dial_addr"):
            bump(acc, t + ":" + o)
        if t == "next":
            for e in parse_events(o):
                bump(acc, "ev:" + e.split(":")[0])
            if o.startswith("panic"):
                bump(acc, "panic-debug-assert")
    bump(acc, "case-len:%d" % (10 * (len(case) // 10)))


def nontrivial(case, out):
    evs = [e for op, o in zip(case, out) if op == "next" for e in parse_events(o)]
    return (any(e.startswith("est:") for e in evs) and any(e.startswith("closed:") for e in evs)
            and any(o.startswith("ok ") for op, o in zip(case, out) if op.startswith("open")))


def matches_known(k, v):
    return False


# ---------------------------------------------------------------- the environment assumption (engine: extra_cases)
# C08's theorems take the order in which a connection task informs the protocols and the manager
# (`ProtocolSet::report_*`, C07's model) as their `feasible` input hypothesis. The quick check therefore also runs the
# S1 (real `ProtocolSet`) cases of the C07 area and a few real-node scenarios, judged by C07's property-level oracle:
# a change that lets the manager learn of a closure before the protocols, or that drops a substream-open answer on a
# full protocol channel, breaks C08's event grammar only under rare interleavings but shows here at once.
def extra_cases(rng, tier):
    from . import c07
    n = {"quick": 1200, "thorough": 8000, "search": 1500}[tier]
    cases = []
    for c in c07.gen_cases(rng, "quick" if tier != "thorough" else "search"):
        s2 = bool(c) and c[0].startswith("s2")
        if s2 and len([x for x in cases if x[0].startswith("s2")]) >= (6 if tier == "quick" else 24):
            continue
        cases.append(c)
        if len(cases) >= n:
            break
    yield "C07", cases
    # the same service with several protocols, keep-alive downgrades and overlapping connections (C09's area): a
    # downgraded secondary connection is still a live connection for the event grammar
    from . import c09
    k = {"quick": 250, "thorough": 4000, "search": 500}[tier]
    yield "C09", list(itertools.islice(c09.gen_cases(rng, "quick" if tier != "thorough" else "search"), k))
    # the connection task's side of "answered exactly once unless the connection terminates first": the REAL
    # `TcpConnection::start` loop over loopback TCP (tcploop area) — open requests in bursts beyond the yamux ACK
    # backlog, remotes that never answer, small substream_open_timeout, fallback names; judged by `tcploop.oracle_c08`
    from . import tcploop
    yield "TCPLOOP", tcploop.gen_cases(rng, tier, focus="C08")


def oracle_extra(xpid, case, out):
    if xpid == "TCPLOOP":
        from . import tcploop
        return [dict(v, msg="(real TcpConnection loop, tcploop area) " + v["msg"]) for v in tcploop.oracle_c08(case, out)]
    if xpid == "C09":
        from . import c09
        return [dict(v, msg="(keep-alive service, C09 area) " + v["msg"]) for v in c09.oracle(case, out)
                if v.get("kind") == "panic" or "panic" in str(v.get("msg", ""))]
    from . import c07
    return [dict(v, msg="(ProtocolSet ordering, C07 area) " + v["msg"]) for v in c07.oracle(case, out)]


def stats_extra(xpid, case, out, acc):
    if xpid == "TCPLOOP":
        from . import tcploop
        tcploop.stats(case, out, acc)
        return
    if xpid == "C09":
        bump(acc, "extra:C09")
        return
    bump(acc, "extra:C07:" + ("s2" if case and case[0].startswith("s2") else "s1"))


# ---------------------------------------------------------------- real nodes through the public API (engine: extra_cases)
# `Litep2p::new` (src/lib.rs) and `ConfigBuilder` (src/config.rs) hand every protocol its configuration; the `node` area
# (checks/node.py) builds real nodes, compares the registration record with the wiring model (Model/Node/Wiring.lean)
# and judges this property's real-time scenarios at node level.
from . import node as _node  # noqa: E402
_node.install(globals())
