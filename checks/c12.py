"""C12 — notifications arrive in order, without loss or duplication, while open.

Model: Model/Notif/Channel.lean; adapter: src/verif/c12.rs (the real Connection task + NotificationSink +
NotificationHandle over in-memory pipes; the adapter is the remote, the user and the scheduler)."""
import re
from .common import bump

ID = "C12"
AREA = "c12"
LEAN_PROPS = "Litep2pVerif.Props.C12"
THEOREMS = ["per_mode_prefix", "at_most_once", "no_gap_within_open_period", "sync_never_blocks",
            "oversize_not_delivered"]
MANIFEST = {
    "text": "Lean 4 theorems about an executable model of the notification data path (bounded sync/async queues, the "
            "Connection task's poll loop with the slot on the shared inbound channel reserved before reading, FIFO "
            "pipes, the handle's peers filter, clogged => one ForceClose): for every schedule (any choice between the "
            "two queues, any reader stall pattern) the frames read by the remote are, per sending mode, a prefix of the "
            "accepted notifications in order (hence at most once and without gaps); the synchronous send is one "
            "non-blocking step with result ok/clogged/no-connection; an inbound frame above the maximum is never "
            "delivered. Tie: bursts beyond both channel capacities, reader stalls (bounded pipe, partial reads), both modes "
            "interleaved (checker mode for the select! choice), close/reopen cycles on the real Connection task and on "
            "the model; sequence-number oracle.",
    "note": "Trusted: Lean kernel; axioms propext/Classical.choice/Quot.sound; the hand-written model and its sampled tie; "
            "tokio mpsc FIFO + fair semaphore; Substream codec (C04) reduced to frame sizes.",
    "technique": "Lean 4 proof (invariant over all schedules) + model/implementation correspondence check (checker mode)",
    "design_ref": "DESIGN.md §7 C12",
}
RULE = ("seeded histories of sync/async sends with sequence numbers, task polls, bounded and partial remote reads, remote "
        "notifications incl. oversized ones, user polls, closes by either side and reopen cycles over random channel/pipe "
        "capacities, run on the real Connection+Sink+Handle and on the Lean model (checker mode for the order in which the "
        "two queues are drained); non-trivial = at least one notification delivered in each direction or a clogged result")
TRUSTED_BASE = ["Lean 4.33 kernel", "axioms: propext, Classical.choice, Quot.sound only",
                "hand-written model Model/Notif/Channel.lean tied to connection.rs/handle.rs by this correspondence run",
                "adapter /repo/src/verif/c12.rs + verif/io.rs, harness, verif.py, checks/c12.py",
                "tokio mpsc: FIFO, try_send/send semantics, fair semaphore for waiting senders",
                "unsigned-varint framing reduced to frame lengths (C04 covers the codec)"]
ASSUMPTIONS = ["sequence numbers of accepted notifications are distinct per mode (the generator numbers them)",
               "channels are FIFO"]
KEEP_PREFIX = 1


def gen_case(rng, tier):
    sync = rng.choice([1, 2, 3, 5])
    asyn = rng.choice([1, 1, 2, 3])
    notif = rng.choice([1, 2, 3])
    cap = rng.choice([4, 7, 16, 33, 64, 1000])
    mx = rng.choice([8, 16, 64, 200, 130, 130])
    ops = [f"cfg sync={sync} async={asyn} notif={notif} cap={cap} max={mx}"]
    if rng.random() < 0.95:
        ops += ["open", "events"]
    seq = {"s": 0, "a": 0, "r": 0}
    n = rng.choice([10, 20, 40, 80])

    def size():
        r = rng.random()
        edge = [e for e in (127, 128, 129, 16383, 16384, 16385) if e <= mx + 1]
        if edge and r < 0.12:
            return rng.choice(edge)                 # where the varint length prefix grows
        if r < 0.6:
            return rng.choice([3, 4, 5, 8])
        if r < 0.9:
            return rng.randrange(3, mx + 1)
        if r < 0.96:
            return mx
        return mx + rng.choice([1, 5])          # beyond the maximum

    for _ in range(n):
        r = rng.random()
        if r < 0.22:
            for _ in range(rng.choice([1, 1, 2, sync + 2])):
                seq["s"] += 1
                ops.append(f"sync {seq['s']} {size()}")
        elif r < 0.40:
            for _ in range(rng.choice([1, 1, 2, asyn + 2])):
                seq["a"] += 1
                ops.append(f"async {seq['a']} {size()}")
        elif r < 0.58:
            ops.append("run")
        elif r < 0.72:
            ops.append("rread" + rng.choice(["", "", f" {rng.choice([1, 2, 3, 5, 9])}"]))
        elif r < 0.84:
            for _ in range(rng.choice([1, 2, notif + 2])):
                seq["r"] += 1
                ops.append(f"rsend {seq['r']} {size()}")
        elif r < 0.92:
            ops.append("events")
        elif r < 0.95:
            ops.append(rng.choice(["close", "rclose"]))
        else:
            ops += ["run", "events", "open", "events"]
    ops += ["run", "rread", "run", "rread", "events", "run", "events"]
    return ops


def gen_cases(rng, tier):
    n = {"quick": 800, "thorough": 30000, "search": 4000}[tier]
    for _ in range(n):
        yield gen_case(rng, tier)


def corpus():
    return [["cfg sync=2 async=1 notif=2 cap=16 max=32", "open", "events", "sync 1 5", "sync 2 5", "sync 3 5", "async 1 5",
             "async 2 5", "run", "rread", "run", "rread", "rread", "rsend 1 4", "rsend 2 4", "rsend 3 4", "rsend 4 40", "run",
             "events", "run", "events", "sync 4 5", "open", "events", "sync 5 5", "run", "rread", "close", "run", "events",
             "sync 6 5"]]


def model_lines(case, impl):
    """Checker mode: the remote's reads carry the implementation's observation."""
    res = []
    for i, op in enumerate(case):
        if op.startswith("rread") and impl is not None and i < len(impl) and impl[i].startswith("["):
            res.append(f"{op} -> {impl[i]}")
        else:
            res.append(op)
    return res


def mutate_case(rng, case, n):
    for _ in range(n):
        c = list(case)
        for _ in range(rng.randrange(1, 4)):
            if len(c) < 3:
                break
            i = rng.randrange(1, len(c))
            if rng.random() < 0.5:
                del c[i]
            else:
                c.insert(i, rng.choice(["run", "rread", "events", "rread 3"]))
        yield c


def oracle(case, out):
    bad = []
    mx = 0
    sizes = {}
    acc = {"s": [], "a": []}          # accepted in this open period, in order
    got = {"s": [], "a": []}          # read by the remote in this open period
    rsent, rgot = [], []              # remote -> user
    waiting = set()
    old_sent = []

    def v(kind, msg, i):
        bad.append({"kind": kind, "msg": msg, "step": i, "op": case[i], "out": out[i] if i < len(out) else None})

    def check_prefix(i):
        for m in ("s", "a"):
            if got[m] != acc[m][:len(got[m])]:
                v("order", f"mode {m}: remote read {got[m]} but accepted were {acc[m]}", i)

    for i, (op, o) in enumerate(zip(case, out)):
        t = op.split()
        if o.startswith("panic"):
            v("panic", o, i)
            break
        if o in ("skipped", "bad-op", "ignored"):
            if o == "skipped":
                break
            continue
        if t[0] == "cfg":
            mx = int(re.search(r"max=(\d+)", op).group(1))
        elif t[0] == "open":
            acc = {"s": [], "a": []}
            got = {"s": [], "a": []}
            old_sent = old_sent + [x for x, _ in rsent]      # leftovers of the closed stream may still sit in the shared channel
            rsent, rgot = [], []
            waiting = set()
        elif t[0] == "sync":
            w = o.split()[0]
            if w not in ("ok", "clogged", "noconn"):
                v("sync-result", f"send_sync answered {o}", i)
            if w == "ok":
                acc["s"].append(int(t[1]))
                sizes[("s", int(t[1]))] = int(t[2])
        elif t[0] == "async":
            sizes[("a", int(t[1]))] = int(t[2])
            if o == "ok":
                acc["a"].append(int(t[1]))
            elif o == "waiting":
                waiting.add(int(t[1]))
        elif t[0] == "run":
            m = re.search(r"sent=\[(.*?)\]", o)
            if m:
                for tok in m.group(1).split():
                    s, r = tok[1:].split(":")
                    if r == "ok":
                        acc["a"].append(int(s))
        elif t[0] == "rread":
            for tok in o.strip("[]").split():
                m, s = tok[0], int(tok[1:])
                if m not in got:
                    v("garbage", f"remote read an unknown frame {tok}", i)
                    continue
                if s in got[m]:
                    v("duplicate", f"{tok} delivered twice", i)
                got[m].append(s)
                if max(sizes.get((m, s), 0), 3) > mx:
                    v("oversize", f"{tok} of size {sizes.get((m, s))} delivered, maximum is {mx}", i)
            check_prefix(i)
        elif t[0] == "rsend":
            rsent.append((int(t[1]), int(t[2])))
        elif t[0] == "events":
            for tok in o.strip("[]").split():
                if tok.startswith("r"):
                    s = int(tok[1:])
                    if s in old_sent:
                        old_sent = old_sent[old_sent.index(s) + 1:]      # in order, at most once
                        continue
                    if s in rgot:
                        v("duplicate", f"{tok} delivered twice to the user", i)
                    rgot.append(s)
                    sz = dict(rsent).get(s, 0)
                    if max(sz, 3) > mx:
                        v("oversize", f"{tok} of size {sz} delivered to the user, maximum is {mx}", i)
            sent_seq = [s for s, _ in rsent]
            if rgot != sent_seq[:len(rgot)]:
                v("order", f"user received {rgot}, remote sent {sent_seq}", i)
    return bad


def stats(case, out, acc):
    for op, o in zip(case, out):
        t = op.split()[0]
        bump(acc, "op:" + t)
        if t in ("sync", "async"):
            bump(acc, t + ":" + o.split()[0])
        if "ended" in o:
            bump(acc, "task-ended")
        if t == "rread":
            bump(acc, "frames-read", len(o.strip("[]").split()))
        if t == "events":
            bump(acc, "user-notifs", len([x for x in o.strip("[]").split() if x.startswith("r")]))
    bump(acc, case[0].split()[1] + " " + case[0].split()[2])


def nontrivial(case, out):
    return any(o.startswith("[s") or o.startswith("[a") for o in out) or any(o.startswith("clogged") for o in out)


def matches_known(k, v):
    return False
