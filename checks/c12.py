"""C12 — notifications arrive in order, without loss or duplication, while open.

Model: Model/Notif/Channel.lean; adapter: src/verif/c12.rs (the real Connection task + NotificationSink +
NotificationHandle over in-memory pipes; the adapter is the remote, the user and the scheduler)."""
import re
from .common import bump

ID = "C12"
AREA = "c12"
LEAN_PROPS = "Litep2pVerif.Props.C12"
THEOREMS = ["per_mode_prefix", "at_most_once", "no_gap_within_open_period", "no_loss_while_open", "sync_never_blocks",
            "oversize_not_delivered", "sink_send_after_close_fails", "sink_clone_live"]
CONSTS = ["BACKPRESSURE_BOUNDARY"]
CONST_TABLE = [
    ("BACKPRESSURE_BOUNDARY", "src/substream/mod.rs", r"const BACKPRESSURE_BOUNDARY: usize = ([^;]+);", 65536),
]
MANIFEST = {
    "text": "(coverage round: + sink clones obtained with notification_sink() - sink_send_after_close_fails: after close_connection has reported closed, a send through a clone of that stream's sink answers NoConnection/PeerDoesntExist and changes nothing, for every later history incl. a new stream; sink_clone_live; the handle's own async send polled once) Lean 4 theorems about an executable model of the notification data path (bounded sync/async queues, the "
            "Connection task's poll loop: take the parked notification or either non-empty queue, poll_ready with the "
            "substream's back-pressure boundary, park at most one notification, start_send, flush; the start() loop that "
            "re-enters poll_next after every inbound notification; the slot on the shared inbound channel reserved before "
            "reading; FIFO pipes; the handle's peers filter; clogged => one ForceClose): for every schedule (any choice of "
            "select! between the two queues, any reader stall pattern, any pipe size) the frames read by the remote are, per "
            "sending mode, a prefix of the accepted notifications in order (hence at most once and without gaps); while the "
            "task lives the accepted notifications are exactly read ++ in the substream ++ parked ++ queued, so nothing is "
            "lost and a drained open stream has delivered everything; the synchronous send is one non-blocking step with "
            "result ok/clogged/no-connection; a poll of the task never moves an inbound frame above the maximum into the "
            "user's channel. Tie: bursts beyond both channel capacities, reader stalls (bounded pipe, partial reads), both "
            "modes queued at once while the substream is beyond its 64 KiB boundary and the pipe is full, notifications of "
            "16383/16384/16385 bytes, drains to quiescence with the stream open, close/reopen cycles on the real Connection "
            "task and on the model (checker mode: the model follows every select! choice consistent with the observations); "
            "sequence-number oracle incl. delivered = accepted at quiescence.",
    "note": "Trusted: Lean kernel; axioms propext/Classical.choice/Quot.sound; the hand-written model and its sampled tie; "
            "tokio mpsc FIFO + fair semaphore; Substream codec (C04) reduced to frame sizes. The driver does not model which "
            "wakers are registered: where a poll without a wake-up would not be a no-op (parked notification, substream "
            "below the boundary again) it accepts both 'polled' and 'not polled'.",
    "technique": "Lean 4 proof (invariant over all schedules) + model/implementation correspondence check (checker mode)",
    "design_ref": "DESIGN.md §7 C12",
}
RULE = ("seeded histories of sync/async sends with sequence numbers (sizes 3..max+5 incl. 127/128/129 and 16383/16384/16385), "
        "task polls, bounded and partial remote reads, remote notifications incl. oversized ones, user polls, closes by either "
        "side and reopen cycles over random channel/pipe capacities; every fourth history fills the outbound substream beyond "
        "its back-pressure boundary with the reader stalled, queues BOTH modes at once, then drains (`drain` = run/rread in "
        "turns until nothing moves) with the stream open; run on the real Connection+Sink+Handle and on the Lean model "
        "(checker mode for the select! choices); oracle: per mode no duplicate, delivered is a prefix of accepted (a skipped "
        "one before a delivered one = no_gap_within_open_period), nothing above the maximum, and at quiescence of a stream "
        "that was open all the time delivered = accepted (else loss); non-trivial = at least one notification delivered in "
        "each direction or a clogged result")
TRUSTED_BASE = ["Lean 4.33 kernel", "axioms: propext, Classical.choice, Quot.sound only",
                "hand-written model Model/Notif/Channel.lean tied to connection.rs/handle.rs/substream sink by this correspondence run",
                "adapter /repo/src/verif/c12.rs + verif/io.rs, harness, verif.py, checks/c12.py",
                "tokio mpsc: FIFO, try_send/send semantics, fair semaphore for waiting senders",
                "unsigned-varint framing reduced to frame lengths (C04 covers the codec)",
                "waker registration is not modelled (driver accepts polled/not polled where it matters)"]
ASSUMPTIONS = ["sequence numbers of accepted notifications are distinct per mode (the generator numbers them)",
               "channels are FIFO",
               "quiescence rule: applies only to a stream opened by `open` with no close/rclose/oversized frame or notification "
               "and no task end since; a sync `ok` counts as accepted only while the handle holds a sink for the peer"]
KEEP_PREFIX = 1


EDGES = (127, 128, 129, 16383, 16384, 16385)      # where the unsigned-varint length prefix grows


def gen_case(rng, tier):
    sync = rng.choice([1, 2, 3, 5])
    asyn = rng.choice([1, 1, 2, 3])
    notif = rng.choice([1, 2, 3])
    cap = rng.choice([4, 7, 16, 33, 64, 1000])
    mx = rng.choice([8, 16, 64, 200, 130, 130, 16384, 17000])
    if mx > 1000:
        cap = rng.choice([33, 1000, 5000, 20000, 70000])
    ops = [f"cfg sync={sync} async={asyn} notif={notif} cap={cap} max={mx}"]
    if rng.random() < 0.95:
        ops += ["open", "events"]
    seq = {"s": 0, "a": 0, "r": 0}
    n = rng.choice([10, 20, 40, 80])

    def size():
        r = rng.random()
        edge = [e for e in EDGES if e <= mx + 1]
        if edge and r < 0.12:
            return rng.choice(edge)
        if r < 0.6:
            return rng.choice([3, 4, 5, 8])
        if r < 0.9:
            return rng.randrange(3, mx + 1)
        if r < 0.96:
            return mx
        return mx + rng.choice([1, 5])          # beyond the maximum

    nsinks = 0
    for _ in range(n):
        r = rng.random()
        if rng.random() < 0.12:
            # coverage round: sink clones (`notification_sink`) used directly, also after close / reopen, and the
            # handle's own async send (polled once)
            k = rng.random()
            if k < 0.3 or nsinks == 0:
                ops.append("sink")
                nsinks += 1         # (if the handle has no sink the number is not taken; later uses answer `ignored`)
            elif k < 0.6:
                for _ in range(rng.choice([1, 1, sync + 2])):
                    seq["s"] += 1
                    ops.append(f"csync {rng.randrange(nsinks)} {seq['s']} {size()}")
            elif k < 0.8:
                for _ in range(rng.choice([1, 1, asyn + 2])):
                    seq["a"] += 1
                    ops.append(f"casync {rng.randrange(nsinks)} {seq['a']} {size()}")
            else:
                for _ in range(rng.choice([1, 1, asyn + 2])):
                    seq["a"] += 1
                    ops.append(f"hasync {seq['a']} {size()}")
            continue
        if r < 0.22:
            for _ in range(rng.choice([1, 1, 2, sync + 2])):
                seq["s"] += 1
                ops.append(f"sync {seq['s']} {size()}")
        elif r < 0.40:
            for _ in range(rng.choice([1, 1, 2, asyn + 2])):
                seq["a"] += 1
                ops.append(f"async {seq['a']} {size()}")
        elif r < 0.58:
            ops.append("run")
        elif r < 0.72:
            ops.append("rread" + rng.choice(["", "", f" {rng.choice([1, 2, 3, 5, 9])}"]))
        elif r < 0.84:
            for _ in range(rng.choice([1, 2, notif + 2])):
                seq["r"] += 1
                ops.append(f"rsend {seq['r']} {size()}")
        elif r < 0.92:
            ops.append("events")
        elif r < 0.95:
            ops.append(rng.choice(["close", "rclose", "drain"]))
        else:
            # sometimes the handle learns of the end / of the new stream only later
            ops += rng.choice([["run", "events", "open", "events"]] * 8 + [["run", "open", "events"], ["run", "events", "open"]])
    if rng.random() < 0.7 and cap * 300 > 80 * mx:
        ops += ["drain", "events"]              # everything is read with the stream still open (unless it was closed)
    else:
        ops += ["run", "rread", "run", "rread", "events", "run", "events"]      # may stop before everything is read
    return ops


def gen_backpressure(rng, tier):
    """Both sending modes queued at once while the outbound substream is in back-pressure (>= 64 KiB pending, the
    reader stalled, the pipe full), then everything is drained with the stream still open."""
    sync = rng.choice([2, 3, 5])
    asyn = rng.choice([1, 2, 3])
    notif = rng.choice([1, 2, 3])
    cap = rng.choice([33, 4096, 9000, 20000, 20000, 40000, 70000, 200000])
    mx = rng.choice([16384, 16385, 17000, 17000, 20000, 70000])
    ops = [f"cfg sync={sync} async={asyn} notif={notif} cap={cap} max={mx}", "open", "events"]
    seq = {"s": 0, "a": 0, "r": 0}

    def size():
        r = rng.random()
        if r < 0.25:
            return rng.choice([e for e in EDGES[3:] if e <= mx + 1])
        if r < 0.85:
            return rng.randrange(6000, min(mx, 30000) + 1)
        if r < 0.97:
            return rng.choice([3, 5, 100, 130, 1000])
        return mx + rng.choice([1, 5])

    def burst(ns, na):
        b = ["s"] * ns + ["a"] * na
        rng.shuffle(b)
        for m in b:
            seq[m] += 1
            ops.append(f"{'sync' if m == 's' else 'async'} {seq[m]} {size()}")

    def phase():
        # fill the substream beyond the boundary with the reader stalled
        for _ in range(rng.randrange(1, 5)):
            burst(rng.randrange(0, sync + 2), rng.randrange(0, asyn + 3))
            if rng.random() < 0.85:
                ops.append("run")
            if rng.random() < 0.15:
                ops.append(f"rread {rng.choice([1, 1000, 5000, 20000])}")
        # both modes queued at the same poll, repeatedly, the pipe still full
        for _ in range(rng.randrange(1, 4)):
            burst(rng.randrange(1, sync + 1), rng.randrange(1, asyn + 2))
            ops.append("run")
            if rng.random() < 0.3:
                ops.append(rng.choice(["rread 1", "rread 3000", "rread 17000", "rread", "events"]))
            if rng.random() < 0.15:
                seq["r"] += 1
                ops.append(f"rsend {seq['r']} {rng.choice([3, 100, 16384, 16385])}")

    phase()
    r = rng.random()
    if r < 0.8 and cap >= 4096:
        ops += ["drain", "events"]
        if rng.random() < 0.4:
            if rng.random() < 0.4:
                ops += [rng.choice(["close", "rclose"]), "run", "events", "open", "events"]
            phase()
            ops += ["drain", "events"]
    elif r < 0.9:
        ops += ["run", "rread", "run", "rread", "events"]           # stops before the drain
    else:
        ops += [rng.choice(["close", "rclose"]), "drain", "events"]
    return ops


def gen_cases(rng, tier):
    n = {"quick": 800, "thorough": 60000, "search": 4000}[tier]
    for i in range(n):
        yield gen_backpressure(rng, tier) if i % 4 == 3 else gen_case(rng, tier)


def corpus():
    big = ["cfg sync=3 async=2 notif=2 cap=9000 max=17000", "open", "events"]
    big += [f"sync {i} 16384" for i in (1, 2, 3)] + [f"async {i} 16385" for i in (1, 2, 3)] + ["run"]
    big += ["sync 4 16383", "async 4 9000", "run", "sync 5 7000", "async 5 16384", "async 6 100", "run", "rread 3000", "run",
            "sync 6 5", "async 7 5", "run", "drain", "events", "sync 7 5", "async 8 5", "drain"]
    return [["cfg sync=2 async=1 notif=2 cap=16 max=32", "open", "events", "sync 1 5", "sync 2 5", "sync 3 5", "async 1 5",
             "async 2 5", "run", "rread", "run", "rread", "rread", "rsend 1 4", "rsend 2 4", "rsend 3 4", "rsend 4 40", "run",
             "events", "run", "events", "sync 4 5", "open", "events", "sync 5 5", "run", "rread", "close", "run", "events",
             "sync 6 5"], big,
            ["cfg sync=1 async=1 notif=1 cap=70000 max=16384", "open", "events", "rsend 1 16385", "run", "open", "sync 3 127",
             "async 1 5", "events", "sync 4 127", "async 2 5", "drain"]]


def model_lines(case, impl):
    """Checker mode: every op carries the implementation's observation (the model follows all choices of the
    task's `select!` that are consistent with the observations)."""
    res = []
    for i, op in enumerate(case):
        if not op.startswith("cfg") and impl is not None and i < len(impl) and " -> " not in op and impl[i] not in ("", "skipped"):
            res.append(f"{op} -> {impl[i]}")
        else:
            res.append(op)
    return res


def mutate_case(rng, case, n):
    for _ in range(n):
        c = list(case)
        for _ in range(rng.randrange(1, 4)):
            if len(c) < 3:
                break
            i = rng.randrange(1, len(c))
            if rng.random() < 0.5:
                del c[i]
            else:
                c.insert(i, rng.choice(["run", "rread", "events", "rread 3", "drain"]))
        yield c


def is_subsequence(a, b):
    it = iter(b)
    return all(x in it for x in a)


def oracle(case, out):
    """The property on the implementation's observations. Per open period (= one stream): `acc` the notifications
    accepted per mode (a sync send answered `ok` while the handle knows the peer, an async send that completed),
    `got` the frames the remote has read. Always: no frame read twice, `got` is a prefix of `acc` (a skipped
    notification followed by a later one is a gap), nothing above the maximum. At quiescence (`drain ... quiet`)
    with the stream open during the whole period: `got` EQUALS `acc` (a missing tail is a loss). A closed or
    closing stream only owes a prefix."""
    bad = []
    mx = 0
    sizes = {}
    acc = {"s": [], "a": []}          # accepted in this open period, in order
    got = {"s": [], "a": []}          # read by the remote in this open period
    rsent, rgot = [], []              # remote -> user
    old_sent = []
    sinks = {}                        # sink clone -> number of `closed` events the user had seen when it was taken
    closed_seen = 0
    view = False                      # the handle has seen `opened` (and no `closed` since): it holds a sink
    stream = False                    # a stream was opened by `open` ...
    broken = True                     # ... and since then it was closed / asked to close / its task ended

    def v(kind, msg, i):
        bad.append({"kind": kind, "msg": msg, "step": i, "op": case[i], "out": out[i] if i < len(out) else None})

    def check_prefix(i):
        for m in ("s", "a"):
            if got[m] != acc[m][:len(got[m])]:
                if len(set(got[m])) == len(got[m]) and is_subsequence(got[m], acc[m]):
                    missing = [x for x in acc[m][:acc[m].index(got[m][-1])] if x not in got[m]]
                    v("no_gap_within_open_period", f"mode {m}: remote read {got[m]} but accepted were {acc[m]}: "
                      f"{missing} skipped although a later one was delivered", i)
                else:
                    v("order", f"mode {m}: remote read {got[m]} but accepted were {acc[m]}", i)

    def on_run(o, i):
        nonlocal broken
        m = re.search(r"sent=\[(.*?)\]", o)
        if m:
            for tok in m.group(1).split():
                s, r = tok[1:].split(":")
                if r == "ok":
                    acc["a"].append(int(s))
        if "ended" in o.split():
            broken = True

    def on_read(o, i):
        for tok in o.strip("[]").split():
            m, s = tok[0], tok[1:]
            if m not in got or not s.isdigit():
                v("garbage", f"remote read an unknown frame {tok}", i)
                continue
            s = int(s)
            if s in got[m]:
                v("duplicate", f"{tok} delivered twice", i)
            got[m].append(s)
            if max(sizes.get((m, s), 0), 3) > mx:
                v("oversize", f"{tok} of size {sizes.get((m, s))} delivered, maximum is {mx}", i)
        check_prefix(i)

    for i, (op, o) in enumerate(zip(case, out)):
        t = op.split()
        if o.startswith("panic"):
            v("panic", o, i)
            break
        if o in ("skipped", "bad-op", "ignored"):
            if o == "skipped":
                break
            continue
        if t[0] == "cfg":
            m = re.search(r"max=(\d+)", op)
            mx = int(m.group(1)) if m else 256
            acc, got = {"s": [], "a": []}, {"s": [], "a": []}      # a fresh component
            rsent, rgot, old_sent = [], [], []
            view, stream, broken = False, False, True
        elif t[0] == "open":
            acc = {"s": [], "a": []}
            got = {"s": [], "a": []}
            old_sent = old_sent + [x for x, _ in rsent]      # leftovers of the closed stream may still sit in the shared channel
            rsent, rgot = [], []
            stream, broken = True, False
        elif t[0] == "sync":
            w = o.split()[0]
            if w not in ("ok", "clogged", "noconn"):
                v("sync-result", f"send_sync answered {o}", i)
            # `ok` without a sink in the handle (stream not yet / no longer reported) means "dropped", not "accepted"
            if w == "ok" and view and len(t) == 3:
                acc["s"].append(int(t[1]))
                sizes[("s", int(t[1]))] = int(t[2])
                if max(int(t[2]), 3) > mx:
                    broken = True               # the task closes the stream when it meets this notification
        elif t[0] == "sink":
            m = re.search(r"sink=(\d+)", o)
            if o.startswith("ok") and m:
                sinks[int(m.group(1))] = closed_seen
                if not view:
                    v("sink-for-closed-stream", "notification_sink() returned a sink although the handle has not seen the "
                      "stream opened", i)
            elif view:
                v("no-sink-for-open-stream", "notification_sink() returned None although the handle holds a sink", i)
        elif t[0] in ("csync", "casync") and len(t) == 4:
            m, w = ("s" if t[0] == "csync" else "a"), o.split()[0]
            if w not in (("ok", "clogged", "noconn") if m == "s" else ("ok", "waiting", "noconn")):
                v("sink-result", f"{t[0]} answered {o}", i)
            sizes[(m, int(t[2]))] = int(t[3])
            if w in ("ok", "waiting") and t[1].isdigit() and closed_seen > sinks.get(int(t[1]), 0):
                v("sink-send-after-close", f"a sink taken before the user saw NotificationStreamClosed accepted {t[0]} "
                  f"{t[2]} afterwards", i)
            if w == "ok":
                acc[m].append(int(t[2]))
            if w in ("ok", "waiting") and max(int(t[3]), 3) > mx:
                broken = True
        elif t[0] == "hasync" and len(t) == 3:
            if o not in ("ok", "blocked", "noconn", "nopeer"):
                v("async-result", f"send_async (polled once) answered {o}", i)
            sizes[("a", int(t[1]))] = int(t[2])
            if o == "ok":
                acc["a"].append(int(t[1]))
                if max(int(t[2]), 3) > mx:
                    broken = True
        elif t[0] == "async" and len(t) == 3:
            sizes[("a", int(t[1]))] = int(t[2])
            if o == "ok":
                acc["a"].append(int(t[1]))
            if max(int(t[2]), 3) > mx:
                broken = True                   # (if it is ever accepted) the task closes the stream when it meets it
        elif t[0] == "run":
            on_run(o, i)
        elif t[0] == "rread":
            on_read(o, i)
        elif t[0] == "drain":
            parts = [p.strip() for p in o.split("|")]
            quiet = parts[-1] == "quiet"
            for k, p in enumerate(parts[:-1] if quiet else parts):
                if k % 2 == 0:
                    on_run(p, i)
                else:
                    on_read(p, i)
            if quiet and stream and not broken:
                for m in ("s", "a"):
                    if got[m] != acc[m] and got[m] == acc[m][:len(got[m])]:
                        v("loss", f"mode {m}: the stream is open and the remote has read everything, but {acc[m][len(got[m]):]} "
                          f"of the accepted {acc[m]} never arrived", i)
        elif t[0] in ("close", "rclose"):
            broken = True
        elif t[0] == "rsend":
            rsent.append((int(t[1]), int(t[2])))
            if max(int(t[2]), 3) > mx:
                broken = True                   # the task closes the stream when it meets this frame
        elif t[0] == "events":
            for tok in o.strip("[]").split():
                if tok == "opened":
                    view = True
                elif tok == "closed":
                    view = False
                    closed_seen += 1
                elif tok.startswith("r") and tok[1:].isdigit():
                    s = int(tok[1:])
                    if s in old_sent:
                        old_sent = old_sent[old_sent.index(s) + 1:]      # in order, at most once
                        continue
                    if s in rgot:
                        v("duplicate", f"{tok} delivered twice to the user", i)
                    rgot.append(s)
                    sz = dict(rsent).get(s, 0)
                    if max(sz, 3) > mx:
                        v("oversize", f"{tok} of size {sz} delivered to the user, maximum is {mx}", i)
            sent_seq = [s for s, _ in rsent]
            if rgot != sent_seq[:len(rgot)]:
                v("order", f"user received {rgot}, remote sent {sent_seq}", i)
    return bad


def stats(case, out, acc):
    for op, o in zip(case, out):
        t = op.split()[0]
        bump(acc, "op:" + t)
        if t in ("sync", "async"):
            bump(acc, t + ":" + o.split()[0])
        if "ended" in o:
            bump(acc, "task-ended")
        if t == "rread":
            bump(acc, "frames-read", len(o.strip("[]").split()))
        if t == "drain" and o != "ignored":
            bump(acc, "frames-read", len(re.findall(r"\b[sa]\d+\b", o)))
            bump(acc, "drain:quiet" if o.endswith("quiet") else "drain:not-quiet")
            bump(acc, "drain-rounds", o.count("|") // 2)
        if t == "run" and "sent=" in o:
            bump(acc, "async-completed-later", len(re.findall(r":ok", o)))
        if t == "events":
            bump(acc, "user-notifs", len([x for x in o.strip("[]").split() if x.startswith("r")]))
    bump(acc, case[0].split()[1] + " " + case[0].split()[2])


def nontrivial(case, out):
    return any(re.search(r"\[[sa]\d", o) for o in out) or any(o.startswith("clogged") for o in out)


def matches_known(k, v):
    return False


# ---------------------------------------------------------------- real nodes through the public API (engine: extra_cases)
# `Litep2p::new` (src/lib.rs) and `ConfigBuilder` (src/config.rs) hand every protocol its configuration; the `node` area
# (checks/node.py) builds real nodes, compares the registration record with the wiring model (Model/Node/Wiring.lean)
# and judges this property's real-time scenarios at node level.
from . import node as _node  # noqa: E402
_node.install(globals())
