"""Area `node` — REAL nodes built with the public API only (`ConfigBuilder::new()…build()` + `Litep2p::new`), TCP on
loopback, two or three nodes in one process (adapter /repo/src/verif/node.rs, model Model/Node/Wiring.lean, driver
Driver/Node.lean). Not a property of its own: C05, C06, C07, C08, C09, C11, C12, C13 pull its cases in through the
engine's `extra_cases` mechanism and judge them with the oracles below.

Two kinds of observation:
  * `node <i> <config…>`  the ACTUAL registration record after `Litep2p::new`: what the transport manager holds for every
    protocol (codec incl. max size, keep-alive flag, fallback names), what every `TransportService` was constructed with
    (keep-alive timeout of its tracker, flag, fallback names), installed limits, transports, known addresses, listen
    addresses, futures handed to a custom executor. Deterministic: the Lean wiring model predicts it exactly.
  * dynamic operations over real sockets and real time. Checker mode: every operation line is handed to the model with
    the implementation's observation; the driver accepts it iff the configuration-determined part (identify's protocol and
    address lists, handshake bytes, negotiated fallback names, size refusals, idle-close lower bound) is what the wiring
    model says, and echoes it. Durations (`@<ms>`) are never compared for equality.
"""
import os
import re

from .common import bump

AREA = "node"
ID = "NODE"
KEEP_PREFIX = 1

REPO = os.environ.get("VERIF_REPO", os.path.normpath(os.path.join(os.path.dirname(os.path.abspath(__file__)), "..", "..", "repo")))


_KADC = "src/protocol/libp2p/kademlia/config.rs"


def _const(rel, rx, fallback):
    """An integer constant of the Rust source (so that the oracle follows a legitimate change of the constant)."""
    try:
        m = re.search(rx, open(os.path.join(REPO, rel)).read())
        e = m.group(1).replace("_", "")
        e = re.sub(r"(usize|u64|u32)", "", e)
        if not re.fullmatch(r"[0-9\s*+]+", e):
            return fallback
        return int(eval(e, {"__builtins__": {}}, {}))
    except Exception:
        return fallback


YAMUX_DEFAULT_MAX_STREAMS = 512     # `yamux::Config::default()` of the yamux crate (0.13), not a constant of /repo

_DUR = r"Duration::from_secs\(([^)]+)\);"


def _str_const(rel, rx, fallback):
    try:
        return re.search(rx, open(os.path.join(REPO, rel)).read()).group(1)
    except Exception:
        return fallback


def consts():
    return {
        "mpd": _const("src/transport/mod.rs", r"const MAX_PARALLEL_DIALS: usize = ([^;]+);", 8),
        "nra": _const("src/crypto/noise/mod.rs", r"const MAX_READ_AHEAD_FACTOR: usize = ([^;]+);", 5),
        "nwb": _const("src/crypto/noise/mod.rs", r"const MAX_WRITE_BUFFER_SIZE: usize = ([^;]+);", 2),
        "cot_ms": 1000 * _const("src/transport/mod.rs", r"const CONNECTION_OPEN_TIMEOUT: Duration = " + _DUR, 10),
        "sot_ms": 1000 * _const("src/transport/mod.rs", r"const SUBSTREAM_OPEN_TIMEOUT: Duration = " + _DUR, 5),
        "chan": _const("src/lib.rs", r"const DEFAULT_CHANNEL_SIZE: usize = ([^;]+);", 4096),
        "sync": _const("src/protocol/notification/types.rs", r"const SYNC_CHANNEL_SIZE: usize = ([^;]+);", 2048),
        "async": _const("src/protocol/notification/types.rs", r"const ASYNC_CHANNEL_SIZE: usize = ([^;]+);", 8),
        "ping_ms": 1000 * _const("src/protocol/libp2p/ping/config.rs", r"const PING_INTERVAL: Duration = " + _DUR, 5),
        "ping_mf": _const("src/protocol/libp2p/ping/config.rs", r"const MAX_FAILURES: usize = ([^;]+);", 3),
        "kad_rf": _const(_KADC, r"const REPLICATION_FACTOR: usize = ([^;]+);", 20),
        "kad_pf": _const("src/protocol/libp2p/kademlia/mod.rs", r"const PARALLELISM_FACTOR: usize = ([^;]+);", 3),
        "kad_ttl": 1000 * _const(_KADC, r"const DEFAULT_TTL: Duration = " + _DUR, 129600),
        "kad_mr": _const(_KADC, r"const DEFAULT_MAX_RECORDS: usize = ([^;]+);", 1024),
        "kad_mrs": _const(_KADC, r"const DEFAULT_MAX_RECORD_SIZE_BYTES: usize = ([^;]+);", 66560),
        "kad_mpk": _const(_KADC, r"const DEFAULT_MAX_PROVIDER_KEYS: usize = ([^;]+);", 1024),
        "kad_mpa": _const(_KADC, r"const DEFAULT_MAX_PROVIDER_ADDRESSES: usize = ([^;]+);", 30),
        "kad_mppk": _const(_KADC, r"const DEFAULT_MAX_PROVIDERS_PER_KEY: usize = ([^;]+);", 20),
        "kad_pri": 1000 * _const(_KADC, r"const DEFAULT_PROVIDER_REFRESH_INTERVAL: Duration = " + _DUR, 79200),
        "kad_pttl": 1000 * _const(_KADC, r"const DEFAULT_PROVIDER_TTL: Duration = " + _DUR, 172800),
        "agent": _str_const("src/protocol/libp2p/identify.rs", r'const DEFAULT_AGENT: &str = "([^"]*)";', "litep2p/1.0.0"),
        "ka_default_ms": 1000 * _const("src/transport/mod.rs", r"const KEEP_ALIVE_TIMEOUT: Duration = Duration::from_secs\(([^)]+)\);", 5),
        "ping_size": _const("src/protocol/libp2p/ping/config.rs", r"const PING_PAYLOAD_SIZE: usize = ([^;]+);", 32),
        "identify_size": _const("src/protocol/libp2p/identify.rs", r"const IDENTIFY_PAYLOAD_SIZE: usize = ([^;]+);", 4096),
        "kad_size": _const("src/protocol/libp2p/kademlia/config.rs", r"const DEFAULT_MAX_MESSAGE_SIZE: usize = ([^;]+);", 71680),
        "bitswap_size": _const("src/protocol/libp2p/bitswap/config.rs", r"pub const MAX_MESSAGE_SIZE: usize = ([^;]+);", 4194304),
    }


PING, IDENTIFY, KAD, BITSWAP = "/ipfs/ping/1.0.0", "/ipfs/id/1.0.0", "/ipfs/kad/1.0.0", "/ipfs/bitswap/1.2.0"

# constants shared with the Lean wiring model through Generated/Consts.lean (collected by the owning plugins)
CONST_TABLE = [
    ("PING_PAYLOAD_SIZE", "src/protocol/libp2p/ping/config.rs", r"const PING_PAYLOAD_SIZE: usize = ([^;]+);", 32),
    ("IDENTIFY_PAYLOAD_SIZE", "src/protocol/libp2p/identify.rs", r"const IDENTIFY_PAYLOAD_SIZE: usize = ([^;]+);", 4096),
    ("KAD_DEFAULT_MAX_MESSAGE_SIZE", "src/protocol/libp2p/kademlia/config.rs", r"const DEFAULT_MAX_MESSAGE_SIZE: usize = ([^;]+);", 71680),
    ("BITSWAP_MAX_MESSAGE_SIZE", "src/protocol/libp2p/bitswap/config.rs", r"pub const MAX_MESSAGE_SIZE: usize = ([^;]+);", 4194304),
    ("KEEP_ALIVE_TIMEOUT_SECS", "src/transport/mod.rs",
     r"pub\(crate\) const KEEP_ALIVE_TIMEOUT: Duration = Duration::from_secs\(([^)]+)\);", 5),
    ("NODE_MAX_PARALLEL_DIALS", "src/transport/mod.rs", r"const MAX_PARALLEL_DIALS: usize = ([^;]+);", 8),
    ("NODE_NOISE_READ_AHEAD", "src/crypto/noise/mod.rs", r"const MAX_READ_AHEAD_FACTOR: usize = ([^;]+);", 5),
    ("NODE_NOISE_WRITE_BUFFER", "src/crypto/noise/mod.rs", r"const MAX_WRITE_BUFFER_SIZE: usize = ([^;]+);", 2),
    ("NODE_CONNECTION_OPEN_TIMEOUT_SECS", "src/transport/mod.rs", r"const CONNECTION_OPEN_TIMEOUT: Duration = " + _DUR, 10),
    ("NODE_SUBSTREAM_OPEN_TIMEOUT_SECS", "src/transport/mod.rs", r"const SUBSTREAM_OPEN_TIMEOUT: Duration = " + _DUR, 5),
    ("NODE_DEFAULT_CHANNEL_SIZE", "src/lib.rs", r"const DEFAULT_CHANNEL_SIZE: usize = ([^;]+);", 4096),
    ("NODE_NOTIF_SYNC_CHANNEL_SIZE", "src/protocol/notification/types.rs", r"const SYNC_CHANNEL_SIZE: usize = ([^;]+);", 2048),
    ("NODE_NOTIF_ASYNC_CHANNEL_SIZE", "src/protocol/notification/types.rs", r"const ASYNC_CHANNEL_SIZE: usize = ([^;]+);", 8),
    ("NODE_PING_INTERVAL_SECS", "src/protocol/libp2p/ping/config.rs", r"const PING_INTERVAL: Duration = " + _DUR, 5),
    ("NODE_PING_MAX_FAILURES", "src/protocol/libp2p/ping/config.rs", r"const MAX_FAILURES: usize = ([^;]+);", 3),
    ("NODE_KAD_REPLICATION_FACTOR", _KADC, r"const REPLICATION_FACTOR: usize = ([^;]+);", 20),
    ("NODE_KAD_PARALLELISM_FACTOR", "src/protocol/libp2p/kademlia/mod.rs", r"const PARALLELISM_FACTOR: usize = ([^;]+);", 3),
    ("NODE_KAD_DEFAULT_TTL_SECS", _KADC, r"const DEFAULT_TTL: Duration = " + _DUR, 129600),
    ("NODE_KAD_MAX_RECORDS", _KADC, r"const DEFAULT_MAX_RECORDS: usize = ([^;]+);", 1024),
    ("NODE_KAD_MAX_RECORD_SIZE", _KADC, r"const DEFAULT_MAX_RECORD_SIZE_BYTES: usize = ([^;]+);", 66560),
    ("NODE_KAD_MAX_PROVIDER_KEYS", _KADC, r"const DEFAULT_MAX_PROVIDER_KEYS: usize = ([^;]+);", 1024),
    ("NODE_KAD_MAX_PROVIDER_ADDRESSES", _KADC, r"const DEFAULT_MAX_PROVIDER_ADDRESSES: usize = ([^;]+);", 30),
    ("NODE_KAD_MAX_PROVIDERS_PER_KEY", _KADC, r"const DEFAULT_MAX_PROVIDERS_PER_KEY: usize = ([^;]+);", 20),
    ("NODE_KAD_PROVIDER_REFRESH_SECS", _KADC, r"const DEFAULT_PROVIDER_REFRESH_INTERVAL: Duration = " + _DUR, 79200),
    ("NODE_KAD_PROVIDER_TTL_SECS", _KADC, r"const DEFAULT_PROVIDER_TTL: Duration = " + _DUR, 172800),
]


def model_lines(case, impl):
    res = []
    for i, op in enumerate(case):
        if impl is not None and i < len(impl):
            res.append(f"{op} -> {impl[i]}")
        else:
            res.append(op)
    return res


def normalize(line):
    return "panic" if line.startswith("panic") else line


# ------------------------------------------------------------------------------------------ configuration lines

KAD_KEYS = ("rf", "ttl", "upd", "val", "mr", "mrs", "mpk", "mpa", "mppk", "pri", "pttl")
TCP_KEYS = {"nd": (0, 1), "ru": (0, 1), "nra": (1, 64), "nwb": (1, 64), "cot": (1, 3600000), "sot": (1, 3600000),
            "yms": (1, 4096), "tmpd": (1, 1000)}


def parse_node(op):
    """`node <i> k=v…` -> configuration dict, or None if the line is not a well-formed node line."""
    t = op.split()
    if len(t) < 2 or t[0] != "node" or not t[1].isdigit():
        return None
    kv = {}
    for a in t[2:]:
        if "=" not in a:
            return None
        k, v = a.split("=", 1)
        kv[k] = v          # the adapter takes the last occurrence as well (HashMap collect)
    c = {"i": int(t[1]), "ka": None, "lim": None, "tcp": True, "listen": "1", "notif": [], "rr": [], "user": [], "kad": [],
         "ping": None, "identify": False, "bitswap": False, "known": None, "exec": False,
         "mpd": None, "tcpc": [], "pingf": None, "idv": None, "ida": None}
    try:
        if "mpd" in kv:
            c["mpd"] = int(kv["mpd"])
            if c["mpd"] > 1000:
                return None
        for item in kv["tcpc"].split("/") if "tcpc" in kv else []:
            k, v = item.split("~")
            v = int(v)
            if k not in TCP_KEYS:
                return None
            lo, hi = TCP_KEYS[k]
            if not lo <= v <= hi:
                return None
            c["tcpc"].append((k, v))
        if "pingf" in kv:
            c["pingf"] = int(kv["pingf"])
        for k in ("idv", "ida"):
            if k in kv:
                if not (re.fullmatch(r"[A-Za-z0-9/._]+", kv[k]) or (k == "ida" and kv[k] == "-")):
                    return None
                c[k] = kv[k]
        if "ka" in kv:
            c["ka"] = int(kv["ka"])
        if "lim" in kv:
            a, b = kv["lim"].split("/")
            c["lim"] = (None if a == "-" else int(a), None if b == "-" else int(b))
        if "tcp" in kv:
            c["tcp"] = kv["tcp"] != "0"
        if "listen" in kv:
            c["listen"] = kv["listen"]
            if c["listen"] != "0" and not re.fullmatch(r"[1-4]+", c["listen"]):
                return None
        for part in kv.get("notif", "").split(",") if "notif" in kv else []:
            f = part.split(":")
            if len(f) not in (5, 8) or not f[0] or f[4] not in ("a", "y", "n"):
                return None
            if f[2] != "-" and (len(f[2]) % 2 or not re.fullmatch(r"[0-9a-fA-F]*", f[2])):
                return None
            sync, asyn, dial = 64, 64, None
            if len(f) == 8:
                sync, asyn = (None if x == "-" else int(x) for x in f[5:7])
                if any(x is not None and not 1 <= x <= 100000 for x in (sync, asyn)) or f[7] not in ("-", "0", "1"):
                    return None
                dial = None if f[7] == "-" else f[7] == "1"
            c["notif"].append({"name": f[0], "max": int(f[1]), "hs": "-" if f[2] == "-" else f[2].lower(),
                               "fb": [] if f[3] in ("-", "") else f[3].split("+"), "mode": f[4],
                               "ext": len(f) == 8, "sync": sync, "async": asyn, "dial": dial})
        for part in kv.get("rr", "").split(",") if "rr" in kv else []:
            f = part.split(":")
            if len(f) != 5 or not f[0]:
                return None
            c["rr"].append({"name": f[0], "max": int(f[1]), "timeout": int(f[2]),
                            "fb": [] if f[3] in ("-", "") else f[3].split("+"), "maxin": None if f[4] == "-" else int(f[4])})
        for part in kv.get("user", "").split(",") if "user" in kv else []:
            name, codec = part.split(":")
            if not name or not re.fullmatch(r"un|uv-|uv\d+|id\d+", codec):
                return None
            c["user"].append({"name": name, "codec": codec})
        for part in kv.get("kad", "").split(",") if "kad" in kv else []:
            f = part.split(":")
            if len(f) not in (2, 3):
                return None
            names, mx = f[0], f[1]
            opts = []
            for item in f[2].split("/") if len(f) == 3 else []:
                k, v = item.split("~")
                if k not in KAD_KEYS:
                    return None
                if k in ("upd", "val"):
                    if v not in ("m", "a"):
                        return None
                    opts.append((k, v))
                else:
                    if int(v) > 1000000000 or not v.isdigit():
                        return None
                    opts.append((k, int(v)))
            c["kad"].append({"names": [] if names == "d" else names.split("+"), "max": None if mx == "-" else int(mx), "opts": opts})
        if "ping" in kv and kv["ping"] != "0":
            c["ping"] = int(kv["ping"])
        c["identify"] = kv.get("identify") == "1"
        c["bitswap"] = kv.get("bitswap") == "1"
        if "known" in kv:
            c["known"] = []
            for part in kv["known"].split(","):
                j, kinds = part.split(":")
                c["known"].append((int(j), kinds.split("+")))
        c["exec"] = kv.get("exec") == "custom"
    except (ValueError, IndexError):
        return None
    return c


def render_node(c):
    a = [f"node {c['i']}"]
    if c.get("ka") is not None:
        a.append(f"ka={c['ka']}")
    if c.get("lim") is not None:
        a.append("lim=" + "/".join("-" if x is None else str(x) for x in c["lim"]))
    if not c.get("tcp", True):
        a.append("tcp=0")
    if c.get("listen", "1") != "1":
        a.append(f"listen={c['listen']}")
    if c.get("mpd") is not None:
        a.append(f"mpd={c['mpd']}")
    if c.get("tcpc"):
        a.append("tcpc=" + "/".join(f"{k}~{v}" for k, v in c["tcpc"]))
    if c.get("notif"):
        def ext(p):
            if not p.get("ext"):
                return ""
            d = p.get("dial")
            return ":" + ":".join(["-" if p.get("sync") is None else str(p["sync"]), "-" if p.get("async") is None else str(p["async"]),
                                   "-" if d is None else str(int(d))])
        a.append("notif=" + ",".join(f"{p['name']}:{p['max']}:{p['hs']}:{'+'.join(p['fb']) or '-'}:{p['mode']}{ext(p)}" for p in c["notif"]))
    if c.get("rr"):
        a.append("rr=" + ",".join(f"{p['name']}:{p['max']}:{p['timeout']}:{'+'.join(p['fb']) or '-'}:"
                                  f"{'-' if p['maxin'] is None else p['maxin']}" for p in c["rr"]))
    if c.get("user"):
        a.append("user=" + ",".join(f"{p['name']}:{p['codec']}" for p in c["user"]))
    if c.get("ping"):
        a.append(f"ping={c['ping']}")
    if c.get("pingf") is not None:
        a.append(f"pingf={c['pingf']}")
    if c.get("identify"):
        a.append("identify=1")
    for k in ("idv", "ida"):
        if c.get(k) is not None:
            a.append(f"{k}={c[k]}")
    if c.get("kad"):
        def kopts(k):
            return (":" + "/".join(f"{a_}~{v}" for a_, v in k["opts"])) if k.get("opts") else ""
        a.append("kad=" + ",".join(f"{'+'.join(k['names']) or 'd'}:{'-' if k['max'] is None else k['max']}{kopts(k)}" for k in c["kad"]))
    if c.get("bitswap"):
        a.append("bitswap=1")
    if c.get("known") is not None:
        a.append("known=" + ",".join(f"{j}:{'+'.join(k)}" for j, k in c["known"]))
    if c.get("exec"):
        a.append("exec=custom")
    return " ".join(a)


def registrations(c, K=None):
    """What `Litep2p::new` must register, from the configuration alone: [(name, codec, keep-alive, fallbacks)] in
    registration-independent (sorted) order, or "panic" for a configuration `register_protocol` refuses. Later user
    protocol configurations of the same kind and name replace earlier ones (HashMap insert in the builder)."""
    K = K or consts()
    regs = {}
    order = []

    def add(name, codec, ka, fb):
        order.append((name, codec, ka, list(fb)))

    def dedup(items):
        d = {}
        for p in items:
            d[p["name"]] = p
        return list(d.values())

    for p in dedup(c["notif"]):
        add(p["name"], f"uv{p['max']}", "Y", p["fb"])
    for p in dedup(c["rr"]):
        add(p["name"], f"uv{p['max']}", "Y", p["fb"])
    for p in dedup(c["user"]):
        add(p["name"], p["codec"], "Y", [])
    if c["ping"]:
        add(PING, f"id{K['ping_size']}", "N", [])
    for k in c["kad"]:
        names = k["names"] or [KAD]
        add(names[0], f"uv{K['kad_size'] if k['max'] is None else k['max']}", "Y", names[1:])
    if c["identify"]:
        add(IDENTIFY, f"uv{K['identify_size']}", "N", [])
    if c["bitswap"]:
        add(BITSWAP, f"uv{K['bitswap_size']}", "Y", [])
    # a name may be claimed by one registration only (a protocol's own fallback list is not checked against itself)
    owner = {}
    for n, (name, codec, ka, fb) in enumerate(order):
        for x in [name] + fb:
            if x in owner and owner[x] != n:
                return "panic"
            owner[x] = n
        if name in regs:
            return "panic"
        regs[name] = (name, codec, ka, fb)
    return [regs[k] for k in sorted(regs)]


def _dedup(items):
    d = {}
    for p in items:
        d[p["name"]] = p
    return list(d.values())


def config_notes(c, K):
    """What every protocol object must hold once constructed (`<kind>|<canonical text>`), from the configuration alone."""
    b = lambda x: "true" if x else "false"  # noqa: E731
    ch = K["chan"]
    res = []
    for p in _dedup(c["notif"]):
        sync = K["sync"] if p.get("sync", 64) is None else p.get("sync", 64)
        asyn = K["async"] if p.get("async", 64) is None else p.get("async", 64)
        dial = True if p.get("dial") is None else p["dial"]
        res.append(f"notif|{p['name']},sync={sync},async={asyn},auto={b(p['mode'] == 'a')},dial={b(dial)},hs={p['hs']},cap={ch}/{ch}")
    for p in _dedup(c["rr"]):
        res.append(f"rr|{p['name']},to={p['timeout']},maxin={'-' if p['maxin'] is None else p['maxin']},cap={ch}/{ch}")
    if c["ping"]:
        res.append(f"ping|int={K['ping_ms'] if c['ping'] == 1 else c['ping']},mf={K['ping_mf'] if c.get('pingf') is None else c['pingf']},cap={ch}")
    for k in c["kad"]:
        o = dict(k.get("opts") or [])
        mode = lambda v: "Manual" if v == "m" else "Automatic"  # noqa: E731
        rf = o.get("rf", K["kad_rf"])
        res.append(f"kad|rf={rf}/{rf},pf={K['kad_pf']},ttl={o.get('ttl', K['kad_ttl'])},upd={mode(o.get('upd', 'a'))},"
                   f"val={mode(o.get('val', 'a'))},mr={o.get('mr', K['kad_mr'])},mrs={o.get('mrs', K['kad_mrs'])},"
                   f"mpk={o.get('mpk', K['kad_mpk'])},mpa={o.get('mpa', K['kad_mpa'])},mppk={o.get('mppk', K['kad_mppk'])},"
                   f"pri={o.get('pri', K['kad_pri'])},pttl={o.get('pttl', K['kad_pttl'])}")
    if c["identify"]:
        ida = c.get("ida")
        res.append(f"identify|pv={c.get('idv') or '/verif/1'},ua={'verif' if ida is None else (K['agent'] if ida == '-' else ida)},own=true,cap={ch}")
    if c["bitswap"]:
        res.append(f"bitswap|cap={ch}/{ch}")
    return res


def expected_record(cfgs, i, K=None):
    """The registration record of node i predicted from the configurations (independent of the Lean model)."""
    K = K or consts()
    c = cfgs[i]
    regs = registrations(c, K)
    if regs == "panic":
        return "panic"
    if not c["tcp"]:
        return "err:Other"
    digits = "" if c["listen"] == "0" else c["listen"]
    ka = K["ka_default_ms"] if c["ka"] is None else c["ka"]
    known = {}
    for j, kinds in (c["known"] or []):
        for kind in kinds:
            # an address without peer id is "not a supported transport" for the manager (handle.rs supported_transport),
            # one with another peer id or another transport is refused: only l<k> and x are stored
            if kind[0] == "l":
                known.setdefault(j, set()).add(f"{j}.{kind[1:]}/p{j}")
            elif kind == "x" or re.fullmatch(r"x[2-9]|d[1-9]", kind):
                known.setdefault(j, set()).add(f"{kind}/p{j}")
    names = sorted({x for r in regs for x in [r[0]] + r[3]})
    owner = {x: r for r in regs for x in [r[0]] + r[3]}
    tcpc = dict(c.get("tcpc") or [])    # the last setting of a field wins
    tcp = (f"mpd={K['mpd'] if c.get('mpd') is None else max(1, c['mpd'])},reuse={'true' if tcpc.get('ru', 1) else 'false'},"
           f"nodelay={'true' if tcpc.get('nd', 0) else 'false'},nra={tcpc.get('nra', K['nra'])},nwb={tcpc.get('nwb', K['nwb'])},"
           f"cot={tcpc.get('cot', K['cot_ms'])},sot={tcpc.get('sot', K['sot_ms'])},left=0,"
           f"yms={tcpc.get('yms', YAMUX_DEFAULT_MAX_STREAMS)},ymsame=true")
    return {
        "pset": ";".join(f"{x}>{owner[x][1]}>{owner[x][2]}" for x in names),
        "tcp": tcp,
        "cfg": ";".join(sorted(config_notes(c, K))),
        "id": "ok",
        "listen": ",".join(f"{d}:own" for d in digits),
        "mlisten": ",".join(sorted([f"{i}.{k}" for k in range(len(digits))] + [f"{i}.{k}/p{i}" for k in range(len(digits))])),
        "lim": "/".join("-" if x is None else str(x) for x in (c["lim"] or (None, None))),
        "known": ";".join(sorted(f"{j}:{'+'.join(sorted(v))}" for j, v in known.items() if v)),
        "tr": "tcp",
        "exec": str(len(regs)) if c["exec"] else "-",
        "regs": ";".join(f"{n}|{codec}|{k}|{'+'.join(fb) or '-'}" for n, codec, k, fb in regs),
        "names": ",".join(names),
        "svc": ";".join(f"{n}|{ka}|{k}|{'+'.join(fb) or '-'}|own" for n, codec, k, fb in regs),
    }


def parse_record(o):
    """'ok id=ok listen=[..] …' -> dict, or None."""
    if not o.startswith("ok "):
        return None
    d = {}
    for m in re.finditer(r"(\w+)=(\[[^\]]*\]|\S+)", o[3:]):
        v = m.group(2)
        d[m.group(1)] = v[1:-1] if v.startswith("[") else v
    return d


def parse_events(o):
    """'app=[E1l#0,C1#0@612] u:/u/a=[E1]' -> {src: [tokens]}"""
    res = {}
    if o in ("-", "") or "=[" not in o:
        return res
    for m in re.finditer(r"(\S+?)=\[([^\]]*)\]", o):
        res[m.group(1)] = [x for x in m.group(2).split(",") if x]
    return res


def configs_of(case, out):
    """Configurations of the nodes that were built (index -> cfg), in case order; stops at the first anomaly."""
    cfgs, built = {}, {}
    for i, op in enumerate(case):
        if not op.startswith("node "):
            continue
        c = parse_node(op)
        if c is None:
            continue
        o = out[i] if i < len(out) else ""
        if o == "bad-op":
            continue
        cfgs[c["i"]] = c
        built[c["i"]] = o.startswith("ok ")
    return cfgs, built


# ------------------------------------------------------------------------------------------ generator

NOTIF_NAMES = ["/n/a", "/n/b", "/n/c"]
RR_NAMES = ["/r/a", "/r/b", "/r/c"]
USER_NAMES = ["/u/a", "/u/b"]
SIZES = [16, 64, 200, 256, 1000, 1024, 4096, 65536]


def rand_hs(rng):
    return rng.choice(["-", "01", "0102", "ff", "deadbeef", "00", "a1b2c3"])


def rand_cfg(rng, i, n_prev=0, rich=True, ka=None):
    """A random, mostly valid configuration of node i."""
    c = {"i": i, "ka": ka, "lim": None, "tcp": True, "listen": "1", "notif": [], "rr": [], "user": [], "kad": [],
         "ping": None, "identify": False, "bitswap": False, "known": None, "exec": False}
    if ka is None and rng.random() < 0.8:
        c["ka"] = rng.choice([300, 500, 777, 1000, 1500, 4999, 5000, 5001, 30000, 1])
    if rng.random() < 0.5:
        c["lim"] = (rng.choice([None, 0, 1, 2, 7]), rng.choice([None, 0, 1, 3, 9]))
    if rng.random() < 0.3:
        c["listen"] = rng.choice(["12", "21", "2", "123", "0", "31"])
    fb_pool = ["/f/1", "/f/2", "/f/3", "/f/4", "/f/5", "/f/6"]
    rng.shuffle(fb_pool)

    def fbs():
        k = rng.choice([0, 0, 1, 1, 2])
        return [fb_pool.pop() for _ in range(min(k, len(fb_pool)))]

    for name in rng.sample(NOTIF_NAMES, rng.choice([0, 1, 1, 2, 3]) if rich else 1):
        c["notif"].append({"name": name, "max": rng.choice(SIZES), "hs": rand_hs(rng), "fb": fbs(), "mode": rng.choice("aayn")})
    for name in rng.sample(RR_NAMES, rng.choice([0, 1, 1, 2, 3]) if rich else 1):
        c["rr"].append({"name": name, "max": rng.choice(SIZES), "timeout": rng.choice([300, 500, 800]), "fb": fbs(),
                        "maxin": rng.choice([None, None, 1, 4])})
    for name in rng.sample(USER_NAMES, rng.choice([0, 1, 2])):
        c["user"].append({"name": name, "codec": rng.choice(["uv-", "uv128", "id8", "id32", "un", "uv1024"])})
    if rng.random() < 0.5:
        c["ping"] = rng.choice([1, 1, 200, 5000])
    c["identify"] = rng.random() < 0.5
    if rng.random() < 0.4:
        c["kad"].append({"names": rng.choice([[], [], ["/k/1"], ["/k/1", "/k/old"], ["/k/2", "/k/3", "/k/4"]]),
                         "max": rng.choice([None, None, 1024, 100000])})
        if rng.random() < 0.2:
            c["kad"].append({"names": ["/k/second"], "max": None})
    c["bitswap"] = rng.random() < 0.3
    if n_prev and rng.random() < 0.6:
        c["known"] = []
        for j in range(n_prev):
            if rng.random() < 0.7:
                c["known"].append((j, rng.sample(["l0", "x", "n0", "w0", "q"], rng.choice([1, 1, 2, 3]))))
        if not c["known"] and rng.random() < 0.5:
            c["known"] = None
    c["exec"] = rng.random() < 0.3
    # the plumbing of everything else the builders take
    if rng.random() < 0.4:
        c["mpd"] = rng.choice([0, 1, 1, 2, 8, 9, 64])
    if rng.random() < 0.4:
        keys = rng.sample(sorted(TCP_KEYS), rng.choice([1, 2, 3, 8]))
        pick = {"nd": [0, 1], "ru": [0, 1], "nra": [1, 4, 5, 6, 64], "nwb": [1, 2, 3, 64], "cot": [1, 999, 10000, 10001, 3600000],
                "sot": [1, 4999, 5000, 5001], "yms": [1, 256, 512, 513, 4096], "tmpd": [1, 3, 8, 1000]}
        c["tcpc"] = [(k, rng.choice(pick[k])) for k in keys]
    for p in c["notif"]:
        if rng.random() < 0.5:
            p.update({"ext": True, "sync": rng.choice([None, 1, 16, 2048, 2049]), "async": rng.choice([None, 1, 8, 9, 64]),
                      "dial": rng.choice([None, True, False])})
    for k in c["kad"]:
        if rng.random() < 0.7:
            pick = {"rf": [1, 3, 19, 20, 21], "ttl": [1, 1000, 129600000, 129600001], "upd": ["m", "a"], "val": ["m", "a"],
                    "mr": [0, 0, 1, 2, 1024, 1025], "mrs": [0, 0, 1, 66560, 66561], "mpk": [0, 0, 1, 1024, 1025], "mpa": [0, 0, 1, 30, 31],
                    "mppk": [0, 0, 1, 20, 21], "pri": [1, 79200000, 79200001], "pttl": [1, 172800000, 172800001]}
            k["opts"] = [(key, rng.choice(pick[key])) for key in rng.sample(KAD_KEYS, rng.choice([1, 2, 4, 11]))]
    if c["ping"] and rng.random() < 0.5:
        c["pingf"] = rng.choice([0, 1, 3, 4, 100])
    if c["identify"] and rng.random() < 0.5:
        c["idv"] = rng.choice(["/verif/1", "/my/2.0", "v"])
        c["ida"] = rng.choice(["-", "agent_x/1.0", "verif"])
    r = rng.random()
    if r < 0.03:
        # name clashes: `register_protocol` refuses them (assert / panic), the model says so
        what = rng.choice(["cross", "fb-main", "fb-fb", "same-kind"])
        if what == "cross":
            c["rr"].append({"name": "/n/a", "max": 64, "timeout": 500, "fb": [], "maxin": None})
            c["notif"].append({"name": "/n/a", "max": 64, "hs": "-", "fb": [], "mode": "a"})
        elif what == "fb-main":
            c["notif"].append({"name": "/n/z", "max": 64, "hs": "-", "fb": ["/r/z"], "mode": "a"})
            c["rr"].append({"name": "/r/z", "max": 64, "timeout": 500, "fb": [], "maxin": None})
        elif what == "fb-fb":
            c["notif"].append({"name": "/n/z", "max": 64, "hs": "-", "fb": ["/f/z"], "mode": "a"})
            c["rr"].append({"name": "/r/z", "max": 64, "timeout": 500, "fb": ["/f/z"], "maxin": None})
        else:
            c["rr"].append({"name": "/r/a", "max": 77, "timeout": 500, "fb": [], "maxin": None})
            c["rr"].append({"name": "/r/a", "max": 78, "timeout": 500, "fb": ["/f/own", "/f/own"], "maxin": None})
    elif r < 0.05:
        c["tcp"] = False
    return c


def wiring_case(rng):
    """Static: one to three nodes, nothing but construction (and a few address operations)."""
    n = rng.choice([1, 1, 2, 3])
    ops = []
    for i in range(n):
        ops.append(render_node(rand_cfg(rng, i, n_prev=i)))
    for _ in range(rng.choice([0, 1, 2])):
        i = rng.randrange(n)
        ops.append(rng.choice([f"listen {i}", f"bw {i}", f"pubaddr {i} {rng.choice([1, 2, 2])}",
                               f"addknown {i} {rng.randrange(n)} {rng.choice(['l0', 'x', 'q', 'w0', 'n0', 'l0+x'])}"]))
    return ops


def base_cfg(i, ka, **kw):
    c = {"i": i, "ka": ka, "lim": None, "tcp": True, "listen": "1", "notif": [], "rr": [], "user": [], "kad": [],
         "ping": None, "identify": False, "bitswap": False, "known": None, "exec": False}
    c.update(kw)
    return c


def user(name="/u/a", codec="uv-"):
    return {"name": name, "codec": codec}


def dial_case(rng):
    """C05: every accepted dial has exactly one outcome; known addresses are used; the reported listen address works."""
    ka = rng.choice([1500, 2000])
    a = base_cfg(0, ka, user=[user()], listen=rng.choice(["1", "12", "21"]), identify=rng.random() < 0.5)
    b = base_cfg(1, ka, user=[user()])
    kinds = rng.choice([["l0"], ["x"], ["x", "l0"], ["q"], ["w0"], ["n0"], ["r0"], ["q", "x"], ["l0", "q", "w0"]])
    how = rng.choice(["known", "known", "addknown", "dialaddr", "dialaddr", "none"])
    ops = [render_node(a)]
    if how == "known":
        b["known"] = [(0, [k for k in kinds if k != "r0"] or ["l0"])]
    ops.append(render_node(b))
    if how == "addknown":
        ops.append(f"addknown 1 0 {'+'.join(k for k in kinds if k != 'r0') or 'x'}")
    if how == "dialaddr":
        kind = rng.choice(["l0", "r0", "x", "w0", "n0", "q", "r0", "l0"] + (["l1", "r1"] if len(a["listen"]) > 1 else []))
        ops.append(f"dialaddr 1 0 {kind}")
    else:
        ops.append("dial 1 0")
    ops += ["settle 600", "events 1", "events 0"]
    # a second attempt: the peer must be dialable again / already connected
    ops.append(rng.choice(["dial 1 0", "dialaddr 1 0 l0", "dialaddr 1 0 r0", "dialaddr 1 0 x", "dial 0 1", "dialaddr 0 1 r0"]))
    ops += ["settle 600", "events 1", "events 0"]
    if rng.random() < 0.4:
        ops += [rng.choice(["dial 1 0", "dialaddr 1 0 x", "dialaddr 1 0 r0"]), "settle 600", "events 1", "events 0"]
    return ops


def limits_case(rng):
    """C06: the configured limits are the ones in force."""
    ka = 2500
    which = rng.choice(["in", "in", "out"])
    if which == "in":
        mx = rng.choice([0, 1, 1, 2])
        ops = [render_node(base_cfg(0, ka, lim=(mx, rng.choice([None, 5])), user=[user()])),
               render_node(base_cfg(1, ka, user=[user()])), render_node(base_cfg(2, ka, user=[user()]))]
        ops += ["dialaddr 1 0 r0", "settle", "dialaddr 2 0 r0", "settle", "events 0", "events 1", "events 2"]
        if rng.random() < 0.5:
            ops += ["close 1 /u/a 0", "settle", "events 0", "dialaddr 2 0 r0", "settle", "events 0", "events 2"]
    else:
        mx = rng.choice([0, 1, 1])
        ops = [render_node(base_cfg(0, ka, user=[user()])), render_node(base_cfg(1, ka, user=[user()])),
               render_node(base_cfg(2, ka, lim=(rng.choice([None, 4]), mx), user=[user()]))]
        ops += ["dialaddr 2 0 r0", "settle", "dialaddr 2 1 r0", "settle", "events 2", "events 0", "events 1"]
    return ops


def conn_case(rng):
    """C07/C08: connection events towards the application and the protocols, with several close causes."""
    ka = rng.choice([400, 600, 2500])
    protos = [user("/u/a"), user("/u/b", rng.choice(["uv-", "id8"]))]
    a = base_cfg(0, ka, user=protos, notif=[{"name": "/n/a", "max": 256, "hs": "01", "fb": [], "mode": "a"}],
                 ping=rng.choice([None, 1]))
    b = base_cfg(1, rng.choice([ka, 2500]), user=protos[:rng.choice([1, 2])],
                 notif=[{"name": "/n/a", "max": 256, "hs": "02", "fb": [], "mode": "a"}])
    ops = [render_node(a), render_node(b)]
    ops += [rng.choice(["dialaddr 1 0 r0", "dialaddr 0 1 r0"]), "settle", "events 0", "events 1"]
    cause = rng.choice(["idle", "force0", "force1", "sub-then-force", "idle"])
    if cause == "idle":
        ops += [f"wait {min(ka, 2500) + 900}" if ka < 2500 else "wait 300"]
    elif cause == "force0":
        ops += ["close 0 /u/a 1"]
    elif cause == "force1":
        ops += ["close 1 /u/a 0"]
    else:
        ops += ["open_sub 0 /u/a 1", "settle", "close 1 /u/a 0"]
    ops += ["settle", "events 0", "events 1"]
    if rng.random() < 0.6:
        ops += [rng.choice(["dialaddr 1 0 r0", "dialaddr 0 1 r0"]), "settle", "open_sub 1 /u/a 0", "settle", "events 0", "events 1"]
    return ops


def keepalive_case(rng, kind=None, fb=None):
    """C09: an idle connection is closed after the CONFIGURED timeout; a held keep-alive substream keeps it."""
    t0 = rng.choice([400, 600, 800])
    t1 = rng.choice([t0, t0, 1000, 700])
    tmin = min(t0, t1)
    kind = kind or rng.choice(["idle", "idle", "ping", "held", "held-notif", "libp2p", "held-rr", "held-rr"])
    a = base_cfg(0, t0, user=[user()])
    b = base_cfg(1, t1, user=[user()])
    if kind == "ping":
        a["ping"] = b["ping"] = rng.choice([150, 200])
    if kind == "libp2p":
        a["ping"], b["ping"] = 1, 1
        a["identify"] = b["identify"] = True
        a["kad"] = [{"names": [], "max": None}]
        b["bitswap"] = True
    if kind == "held-notif":
        a["notif"] = [{"name": "/n/a", "max": 256, "hs": "01", "fb": [], "mode": "a"}]
        b["notif"] = [{"name": "/n/a", "max": 256, "hs": "02", "fb": [], "mode": "a"}]
    if kind == "held-rr":
        # a pending inbound request is an open substream of a keep-alive protocol — also when it was negotiated under a
        # FALLBACK name of the responder's protocol (seeded C09-d1: ProtocolSet resolved fallback names to keep-alive No)
        fb = rng.random() < 0.7 if fb is None else fb
        a["rr"] = [{"name": "/r/new" if fb else "/r/a", "max": 256, "timeout": 3000, "fb": ["/r/a"] if fb else [], "maxin": None}]
        b["rr"] = [{"name": "/r/a", "max": 256, "timeout": 3000, "fb": [], "maxin": None}]
    ops = [render_node(a), render_node(b), rng.choice(["dialaddr 1 0 r0", "dialaddr 0 1 r0"]), "await 0 app E1 2000", "await 1 app E0 2000"]
    if kind == "held-rr":
        n0 = a["rr"][0]["name"]
        ops += ["request 1 /r/a 0 10 1", f"await 0 r:{n0} Q1 2000", f"wait {tmin + 700}", "events 0", "events 1",
                f"respond 0 {n0} 0 5 101", "wait 1400", "events 0", "events 1"]
    elif kind in ("idle", "ping", "libp2p"):
        ops += [f"wait {max(tmin - 250, 50)}", "events 0", "events 1", f"wait {1500 + 250}", "events 0", "events 1"]
    elif kind == "held":
        ops += ["open_sub 0 /u/a 1", "await 1 u:/u/a O0 2000", f"wait {tmin + 700}", "events 0", "events 1",
                "drop_subs 0 /u/a", "drop_subs 1 /u/a", f"wait {1400}", "events 0", "events 1"]
    else:
        ops += ["open_notif 0 /n/a 1", "await 1 n:/n/a O0 2000", f"wait {tmin + 700}", "events 0", "events 1",
                "close_notif 0 /n/a 1", "close_notif 1 /n/a 0", f"wait {tmin + 1400}", "events 0", "events 1"]
    return ops


def reqresp_case(rng):
    """C13: one outcome per request; size limits and fallback names as configured."""
    ka = 2500
    shape = rng.choice(["plain", "sizes", "fallback", "fallback", "unsupported", "timeout", "dial"])
    m0, m1 = rng.choice([64, 256, 1024]), rng.choice([64, 256, 1024])
    to = rng.choice([400, 600])
    ra = {"name": "/r/a", "max": m0, "timeout": to, "fb": [], "maxin": None}
    rb = {"name": "/r/a", "max": m1, "timeout": to, "fb": [], "maxin": None}
    extra0 = {"name": "/r/x", "max": rng.choice([16, 4096]), "timeout": to, "fb": [], "maxin": None}
    if shape == "fallback":
        ra = dict(ra, name="/r/new", fb=["/r/a"])
    if shape == "unsupported":
        ra = dict(ra, name="/r/new", fb=["/r/other"])
    a = base_cfg(0, ka, rr=[ra, extra0], user=[user()])
    b = base_cfg(1, ka, rr=[rb], user=[user()])
    n0, n1 = ra["name"], rb["name"]
    ops = [render_node(a), render_node(b)]
    if shape == "dial":
        ops = [render_node(a), render_node(dict(b, known=[(0, [rng.choice(["l0", "x"])])]))]
        ops += [f"request 1 {n1} 0 10 1 dial", "settle", "events 0"]
        ops += ["respond 0 " + n0 + " 0 5 101", "settle", "events 1", "events 0"]
        return ops
    ops += ["dialaddr 1 0 r0", "await 0 app E1 2000", "await 1 app E0 2000"]
    tag = 1
    k_in = {0: 0, 1: 0}
    for _ in range(rng.choice([1, 2, 3])):
        frm = rng.choice([0, 1])
        to_node = 1 - frm
        name = n0 if frm == 0 else n1
        mine, theirs = (m0, m1) if frm == 0 else (m1, m0)
        if shape == "sizes":
            ln = rng.choice([mine, mine + 1, theirs, theirs + 1, min(mine, theirs), 1])
        else:
            ln = rng.choice([1, 10, min(mine, theirs)])
        ops += [f"request {frm} {name} {to_node} {ln} {tag}", "settle", f"events {to_node}"]
        rname = n1 if frm == 0 else n0
        if shape == "timeout" and rng.random() < 0.6:
            ops += [f"wait {to + 500}"]
        else:
            rl = rng.choice([1, 8, mine, mine + 1, theirs + 1]) if shape == "sizes" else rng.choice([1, 8])
            act = rng.choice([f"respond {to_node} {rname} {k_in[to_node]} {rl} {(tag + 100) % 256}"] * 4 + [f"reject {to_node} {rname} {k_in[to_node]}"])
            ops += [act, "settle"]
        k_in[to_node] += 1
        ops += [f"events {frm}", f"events {to_node}"]
        tag += 1
    ops += [f"wait {to + 300}", "events 0", "events 1"]
    return ops


def notif_case(rng):
    """C11/C12: opened/closed pairing, notifications only in between, handshakes and sizes as configured."""
    ka = 2500
    m0, m1 = rng.choice([32, 256, 1024]), rng.choice([32, 256, 1024])
    h0, h1 = rng.choice(["01", "aabb", "-", "ff00ff"]), rng.choice(["02", "cc", "-", "0102030405"])
    mode0, mode1 = rng.choice("aay"), rng.choice("aayn")
    na = {"name": "/n/a", "max": m0, "hs": h0, "fb": [], "mode": mode0}
    nb = {"name": "/n/a", "max": m1, "hs": h1, "fb": [], "mode": mode1}
    if rng.random() < 0.35:
        na = dict(na, name="/n/new", fb=["/n/a"])
    other = {"name": "/n/z", "max": 16, "hs": "99", "fb": [], "mode": "a"}
    a = base_cfg(0, ka, notif=[na, other], user=[user()])
    b = base_cfg(1, ka, notif=[nb], user=[user()])
    n0, n1 = na["name"], nb["name"]
    ops = [render_node(a), render_node(b), "dialaddr 1 0 r0", "await 0 app E1 2000", "await 1 app E0 2000"]
    opener = rng.choice([0, 1])
    ops += [f"open_notif {opener} {n0 if opener == 0 else n1} {1 - opener}", "settle", "events 0", "events 1"]
    tag = 1
    for _ in range(rng.choice([1, 2, 4])):
        frm = rng.choice([0, 1])
        mine, theirs = (m0, m1) if frm == 0 else (m1, m0)
        ln = rng.choice([1, 5, mine, mine + 1, theirs + 1, min(mine, theirs)])
        ops += [f"notify {frm} {n0 if frm == 0 else n1} {1 - frm} {ln} {tag}"]
        tag += 1
    ops += ["settle", "events 0", "events 1"]
    end = rng.choice(["close", "close", "force", "none"])
    if end == "close":
        c = rng.choice([0, 1])
        ops += [f"close_notif {c} {n0 if c == 0 else n1} {1 - c}", "settle", "events 0", "events 1"]
        if rng.random() < 0.5:
            ops += [f"open_notif {1 - c} {n0 if c == 1 else n1} {c}", "settle", f"notify {c} {n0 if c == 0 else n1} {1 - c} 3 {tag}",
                    "settle", "events 0", "events 1"]
    elif end == "force":
        ops += [f"close {rng.choice([0, 1])} /u/a {rng.choice([0, 1])}", "settle", "events 0", "events 1"]
    return ops


def identify_case(rng):
    """Identify tells the remote exactly the registered protocols and the listen/public addresses."""
    ka = 2500
    a = rand_cfg(rng, 0, ka=ka)
    # real connections follow: transport settings that decide whether / how long a connection lives stay at their defaults
    a.update({"identify": True, "tcp": True, "listen": rng.choice(["1", "12", "21"]), "lim": None, "known": None, "tcpc": []})
    b = base_cfg(1, ka, identify=True, user=[user()], rr=[{"name": "/r/a", "max": 64, "timeout": 500, "fb": ["/r/old"], "maxin": None}])
    if registrations(a) == "panic":
        a = base_cfg(0, ka, identify=True, user=[user()])
    ops = [render_node(a), render_node(b)]
    if rng.random() < 0.5:
        ops.append(f"pubaddr 0 {rng.choice([1, 2])}")
    ops += [rng.choice(["dialaddr 1 0 r0", "dialaddr 0 1 r0"]), "await 1 id I0 2000", "await 0 id I1 2000", "settle", "events 0", "events 1", "bw 0", "bw 1"]
    return ops


def fbsize_case(rng, kind=None):
    """C04/C19 (and C12/C13): the configured maximum message size holds on substreams negotiated under a FALLBACK name.
    Node 0 registers `/x/new` with maximum m0 and fallback name `/x/a`; node 1 only knows `/x/a` (maximum 65536): every
    substream between them is negotiated as `/x/a`, which node 0's `ProtocolSet` must resolve to `/x/new`'s codec.
    Messages of exactly m0, m0 + 1 and far above, in both directions (seeded C04-e2 / C12-e1 / C19-e1)."""
    ka = 2500
    kind = kind or rng.choice(["notif", "rr"])
    m0 = rng.choice([32, 64, 256, 1000])
    big = 65536
    far = rng.choice([m0 * 20, 60000, big])
    over = lambda: rng.choice([m0 + 1, m0 + 1, far])  # noqa: E731
    if kind == "notif":
        a = base_cfg(0, ka, notif=[{"name": "/n/new", "max": m0, "hs": "01", "fb": ["/n/a"], "mode": "a"}], user=[user()])
        b = base_cfg(1, ka, notif=[{"name": "/n/a", "max": big, "hs": "02", "fb": [], "mode": "a"}], user=[user()])
        ops = [render_node(a), render_node(b), "dialaddr 1 0 r0", "await 0 app E1 2000", "await 1 app E0 2000"]
        opener = rng.choice([0, 1])
        ops += [f"open_notif {opener} {'/n/new' if opener == 0 else '/n/a'} {1 - opener}", "settle", "events 0", "events 1"]
        tag = 1
        first = rng.choice(["recv", "send"])
        for phase in ([first, "send" if first == "recv" else "recv"]):
            frm, proto = (1, "/n/a") if phase == "recv" else (0, "/n/new")
            # at the maximum: delivered; above: refused (receiver's codec for "recv", node 0's own sink for "send")
            for ln in (m0, over(), 5):
                ops += [f"notify {frm} {proto} {1 - frm} {ln} {tag}", "settle", "events 0", "events 1"]
                tag += 1
            # the stream is gone after an oversized frame: open again for the second phase
            ops += [f"open_notif {frm} {proto} {1 - frm}", "settle", "events 0", "events 1"]
        return ops
    a = base_cfg(0, ka, rr=[{"name": "/r/new", "max": m0, "timeout": 600, "fb": ["/r/a"], "maxin": None}], user=[user()])
    b = base_cfg(1, ka, rr=[{"name": "/r/a", "max": big, "timeout": 600, "fb": [], "maxin": None}], user=[user()])
    ops = [render_node(a), render_node(b), "dialaddr 1 0 r0", "await 0 app E1 2000", "await 1 app E0 2000"]
    tag = 1
    steps = [("in", m0, 4), ("in", over(), 4), ("out", m0, m0), ("out", over(), 4), ("out", 3, over()), ("in", 2, m0), ("in", 2, over())]
    rng.shuffle(steps)
    for direction, ln, rl in steps:
        frm, proto, rproto = (1, "/r/a", "/r/new") if direction == "in" else (0, "/r/new", "/r/a")
        to = 1 - frm
        ops += [f"request {frm} {proto} {to} {ln} {tag}", "settle", f"events {to}"]
        # the responder answers the newest request that has arrived (`none` if nothing did)
        ops += [f"respond {to} {rproto} n {rl} {(tag + 100) % 256}", "settle", f"events {frm}", f"events {to}"]
        tag += 1
    ops += ["wait 900", "events 0", "events 1"]
    return ops


def dialorder_case(rng):
    """C10: a dial by peer id tries the known addresses in non-increasing score order — through the REAL TCP transport with
    one dial slot (`with_max_parallel_dials(1)`), a peer known under `/dns4/127.0.0.1/tcp/<closed port>` (resolved without
    network; DNS addresses carry the public-address bonus) and `/ip4/127.0.0.1/tcp/<closed port>` addresses; every attempt
    fails and `ListDialFailures` lists the attempts in the order they were made (seeded C10-e2)."""
    ka = 2500
    ports = rng.sample(range(1, 10), rng.choice([3, 4, 5]))
    n_dns = rng.choice([1, 1, 2])
    kinds = [f"d{k}" for k in ports[:n_dns]] + [("x" if k == 1 else f"x{k}") for k in ports[n_dns:]]
    rng.shuffle(kinds)
    mpd = rng.choice([1, 1, 1, 0, 2])
    a = base_cfg(0, ka, user=[user()])
    b = base_cfg(1, ka, user=[user()], mpd=mpd)
    how = rng.choice(["known", "addknown", "mixed"])
    ops = [render_node(a)]
    if how == "known":
        b["known"] = [(0, kinds)]
        ops.append(render_node(b))
    elif how == "addknown":
        ops += [render_node(b), f"addknown 1 0 {'+'.join(kinds)}"]
    else:
        b["known"] = [(0, kinds[:2])]
        ops += [render_node(b), f"addknown 1 0 {'+'.join(kinds[2:])}"]
    if rng.random() < 0.4:
        # one address has failed before: its score is lower
        ops += [f"dialaddr 1 0 {rng.choice(kinds)}", "settle 600", "events 1"]
    ops += ["scores 1 0", "dial 1 0", "settle 600", "events 1", "scores 1 0"]
    if rng.random() < 0.3:
        ops += ["dial 1 0", "settle 600", "events 1", "scores 1 0"]
    return ops


def dnsdial_case(rng, kind=None):
    """C10: a dial success / failure re-scores exactly the address that was used — a SUCCESSFUL dial through the real TCP
    transport over `/dns4/localhost` (`hf<k>`), `/dns/localhost` (`hn<k>`), `/dns6/localhost` (`hs<k>`; no `::1` listener: a
    failure) towards the listening port of the other node, the address book before and after (seeded C10-f2). A name that
    does not resolve is a dial failure: a distinct observation, judged as a failure of the dialed address."""
    ka = 2500
    two = rng.random() < 0.4
    a = base_cfg(0, ka, user=[user()], listen="12" if two else "1")
    b = base_cfg(1, ka, user=[user()], mpd=rng.choice([None, 1, 2]))
    kind = kind or rng.choice(["hf0", "hf0", "hn0", "hs0", "hf0", "l0", "r0"] + (["hf1", "hn1", "l1"] if two else []))
    ops = [render_node(a), render_node(b)]
    others = [k for k in ["x", "d3", "hn0", "hf0", "hs0", "x4"] + (["hf1"] if two else []) if k != kind]
    how = rng.choice(["fresh", "fresh", "book", "book", "bypeer"])
    if how != "fresh":
        ops.append(f"addknown 1 0 {'+'.join(rng.sample(others, rng.choice([1, 2, 3])))}")
    if how == "bypeer":
        # the dial by peer id picks the address itself: whatever it used, no record may appear that nobody offered
        ops += [f"addknown 1 0 {kind}", "scores 1 0", "dial 1 0", "settle 600", "events 1", "scores 1 0"]
        return ops
    ops += ["scores 1 0", f"dialaddr 1 0 {kind}", "settle 600", "events 1", "scores 1 0"]
    if rng.random() < 0.35:
        k2 = rng.choice(["hf0", "hn0", "x", "hs0"])
        ops += [f"dialaddr 1 0 {k2}", "settle 600", "events 1", "scores 1 0"]
    return ops


MALFORMED = [
    ["node 0", "node 1", "dialaddr 1 0 hf", "dialaddr 1 0 hf7", "dialaddr 1 0 hq0", "addknown 1 0 hn0+hs9", "node 2 known=0:hf0"],
    ["node 1 ka=500"], ["dial 0 1"], ["node 0 ka=abc"], ["node 0 bogus"], ["node 0 notif=/n/a:1:zz:-:a"],
    ["node 0 user=/u/a:uv-", "dial 0 0", "dial 0 7", "events 3", "open_notif 0 /n/a 0", "request 0 /r/a 0 1 1", "wait 99999", "settle 5"],
    ["node 0 ka=500", "node 0 ka=600"], ["events 0"], ["node 0 lim=1", "node 0 rr=/r/a:64"],
    ["node 0 user=/u/a:uv-", "node 1 user=/u/a:uv-", "node 2", "node 3"],
    ["node 0 user=/u/a:uv-", "dialaddr 0 0 r0", "dialaddr 0 0 l5", "close 0 /u/a 0", "open_sub 0 /u/zz 0", "drop_subs 0 /u/a"],
    ["node 0 mpd=x"], ["node 0 tcpc=nra~0"], ["node 0 tcpc=zz~1"], ["node 0 kad=d:-:mr~x"], ["node 0 kad=d:-:bogus~1"], ["node 0 notif=/n/a:8:-:-:a:0:1:1"],
    ["node 0 identify=1 ida=a,b"], ["node 0 pingf=-1 ping=1"], ["node 0", "scores 0 0", "scores 0 3", "scores 1 0", "dialaddr 0 0 d0", "dialaddr 0 0 x1", "addknown 0 0 d10"],
]

FAMILIES = {"fbsize": fbsize_case, "dialorder": dialorder_case, "dnsdial": dnsdial_case, "dial": dial_case, "limits": limits_case, "conn": conn_case, "keepalive": keepalive_case,
            "reqresp": reqresp_case, "notif": notif_case, "identify": identify_case}

# dynamic families per owning property (the static wiring cases and the malformed stream always run)
FOCUS = {
    "C05": [("dial", 14), ("identify", 4)],
    "C06": [("limits", 10), ("dial", 3)],
    "C07": [("conn", 12)],
    "C08": [("conn", 10), ("identify", 3)],
    "C09": [("keepalive", 9)],
    "C11": [("notif", 14)],
    "C12": [("notif", 12)],
    "C13": [("reqresp", 16)],
    "C04": [("fbsize", 8)],
    "C19": [("fbsize", 8)],
    "C10": [("dialorder", 12), ("dnsdial", 10)],
    # static wiring only
    "C02": [], "C16": [], "C17": [], "C20": [], "C03": [],
    None: [(f, 4) for f in FAMILIES],
}


def fixed_cases():
    return [
        # every kind of protocol, every parameter
        ["node 0 ka=600 lim=2/- listen=12 notif=/n/a:1024:0102:/n/a0:a rr=/r/a:256:800:/r/old:-,/r/b:64:800:-:1 "
         "user=/u/a:uv-,/u/b:id8 ping=1 identify=1 kad=d:- bitswap=1 exec=custom",
         "node 1 ka=900 notif=/n/a:1024:ff:-:y rr=/r/a:256:800:-:- user=/u/a:uv- identify=1 known=0:l0+x+q+w0", "listen 0", "listen 1"],
        # defaults: nothing configured but a transport
        ["node 0", "node 1 tcp=0", "node 2 listen=0"],
        ["node 0 kad=/k/1+/k/old:1024,/k/2:- user=/u/a:un ping=5000"],
        # everything the protocol and transport builders take, at non-default values; zero store bounds
        ["node 0 ka=700 mpd=1 tcpc=nd~1/ru~0/nra~3/nwb~4/cot~2500/sot~1500/yms~100/tmpd~5 "
         "notif=/n/a:1024:0102:/n/a0:a:7:9:0,/n/b:64:-:-:y:-:-:- rr=/r/a:256:800:/r/old:3 ping=250 pingf=7 identify=1 idv=/my/2.0 ida=agent_x/1.0 "
         "kad=d:-:rf~3/ttl~1000/upd~m/val~m/mr~0/mrs~0/mpk~0/mpa~0/mppk~0/pri~5000/pttl~7000,/k/2:2048:mr~1/mppk~1 bitswap=1",
         "node 1 mpd=0 identify=1 ida=- ping=1 pingf=0 kad=d:-"],
    ]


def gen_cases(rng, tier, focus=None):
    scale = {"quick": 1, "thorough": 12, "search": 2}[tier]
    cases = [list(c) for c in fixed_cases()]
    cases += [list(c) for c in MALFORMED]
    cases += [wiring_case(rng) for _ in range(30 * scale)]
    for fam, n in FOCUS.get(focus, FOCUS[None]):
        cases += [FAMILIES[fam](rng) for _ in range(n * scale)]
    if focus in ("C04", "C19"):
        cases += [fbsize_case(rng, kind=k) for k in ("notif", "rr")]
    if focus == "C10":
        # every host kind at every seed
        cases += [dnsdial_case(rng, kind=k) for k in ("hf0", "hn0", "hs0")]
    if focus == "C09":
        # every kind at every seed
        cases += [keepalive_case(rng, kind=k, fb=True) for k in ("idle", "ping", "held", "held-notif", "libp2p", "held-rr", "held-rr")]
    return cases


# ------------------------------------------------------------------------------------------ oracles

def _v(bad, case, out, kind, msg, i):
    bad.append({"kind": kind, "msg": msg, "step": i, "op": case[i] if i < len(case) else None,
                "out": out[i] if i < len(out) else None})


def oracle_wiring(case, out):
    """`Litep2p::new` handed every protocol, the manager and the transport exactly what the configuration says —
    judged from the configuration line and the registration record alone."""
    bad = []
    K = consts()
    cfgs = {}
    for i, op in enumerate(case):
        if i >= len(out):
            break
        o = out[i]
        if o == "skipped":
            break
        if not op.startswith("node "):
            if o.startswith("panic"):
                _v(bad, case, out, "panic", "panic in a node operation: " + o, i)
                break
            continue
        c = parse_node(op)
        if c is None or o == "bad-op":
            continue
        if c["i"] != len(cfgs):
            continue
        for j, _ in (c["known"] or []):
            if j not in cfgs:
                c = None
                break
        if c is None:
            continue
        cfgs[c["i"]] = c
        want = expected_record(cfgs, c["i"], K)
        if want == "panic":
            if not o.startswith("panic"):
                _v(bad, case, out, "wiring-clash", "a protocol name claimed by two registrations was accepted", i)
            break
        if o.startswith("panic"):
            _v(bad, case, out, "panic", "Litep2p::new panicked on a valid configuration: " + o, i)
            break
        if want == "err:Other":
            if o != want:
                _v(bad, case, out, "wiring-transport", f"a configuration without transport was answered {o!r}", i)
            continue
        got = parse_record(o)
        if got is None:
            _v(bad, case, out, "wiring-new", f"Litep2p::new refused a valid configuration: {o}", i)
            continue
        for field, what in (("svc", "the protocols' TransportServices (name|keep-alive timeout ms|keep-alive flag|fallback names)"),
                            ("regs", "the manager's protocol registrations (name|codec with max size|keep-alive flag|fallback names)"),
                            ("names", "the manager's set of protocol names"),
                            ("lim", "the installed connection limits (in/out)"),
                            ("known", "the known addresses given in the configuration"),
                            ("listen", "the listen addresses reported by Litep2p::listen_addresses (configuration order, own peer id)"),
                            ("mlisten", "the listen addresses registered with the manager"),
                            ("tr", "the installed transports"),
                            ("exec", "the number of event loops handed to the configured executor"),
                            ("pset", "what a connection's ProtocolSet answers per main/fallback name (name>framing codec>keep-alive)"),
                            ("tcp", "the configuration the TCP transport was constructed with"),
                            ("cfg", "what the constructed protocol objects hold (kind|settings)"),
                            ("id", "the local peer id")):
            if got.get(field) != want[field]:
                detail = ""
                if field in ("svc", "regs", "pset", "cfg"):
                    g = set(got.get(field, "").split(";"))
                    w = set(want[field].split(";"))
                    detail = f" (unexpected: {sorted(g - w)}; missing: {sorted(w - g)})"
                _v(bad, case, out, "wiring-" + field,
                   f"node {c['i']}: {what} differ from the configuration: got [{got.get(field)}], configured [{want[field]}]{detail}", i)
    return bad


def oracle_identify(case, out):
    """Identify tells the remote exactly the protocols `Litep2p::new` registered (main names) and the node's listen
    addresses (with and without peer id) plus its public addresses."""
    bad = []
    cfgs, built = configs_of(case, out)
    pubs, dialed = {}, False
    sure = {}
    for i, op in enumerate(case):
        if i >= len(out) or out[i] == "skipped" or out[i].startswith("panic"):
            break
        t = op.split()
        if t[0] in ("dial", "dialaddr", "request"):
            dialed = True
        if t[0] == "pubaddr" and len(t) == 3 and t[1].isdigit() and out[i].startswith("added"):
            pubs.setdefault(int(t[1]), set()).add(f"pub{t[2]}/p{t[1]}")
            if not dialed:
                sure.setdefault(int(t[1]), set()).add(f"pub{t[2]}/p{t[1]}")
        if t[0] != "events" or len(t) != 2 or not t[1].isdigit():
            continue
        for tok in parse_events(out[i]).get("id", []):
            f = tok.split("|")
            if len(f) != 3 or not f[0][1:].isdigit():
                continue
            j = int(f[0][1:])
            if not built.get(j):
                continue
            regs = registrations(cfgs[j])
            if regs == "panic":
                continue
            want = "+".join(sorted(r[0] for r in regs)) or "-"
            if f[1] != want:
                _v(bad, case, out, "identify-protocols", f"node {t[1]} was told by node {j}'s identify that it supports [{f[1]}]; node {j} "
                   f"registered [{want}] (missing: {sorted(set(want.split('+')) - set(f[1].split('+')))}, "
                   f"extra: {sorted(set(f[1].split('+')) - set(want.split('+')))})", i)
            n = 0 if cfgs[j]["listen"] == "0" else len(cfgs[j]["listen"])
            base = {f"{j}.{k}" for k in range(n)} | {f"{j}.{k}/p{j}" for k in range(n)}
            got = set() if f[2] == "-" else set(f[2].split("+"))
            if not (base | sure.get(j, set()) <= got <= base | pubs.get(j, set())):
                _v(bad, case, out, "identify-addresses", f"node {t[1]} was told by node {j}'s identify that it listens on {sorted(got)}; "
                   f"its listen addresses are {sorted(base)}, its public addresses {sorted(pubs.get(j, set()))}", i)
    return bad


class Trace:
    """Everything the oracles need, from the case and the implementation's observations only."""

    def __init__(self, case, out):
        self.case, self.out = case, out
        self.cfgs, self.built = configs_of(case, out)
        self.n = min(len(case), len(out))
        self.ok = True
        for i in range(self.n):
            if out[i].startswith("panic") or out[i] == "skipped":
                self.n = i
                break
        # events in ledger order per (node, source): (op index of the `events` that printed them, token)
        self.ev = {}
        self.settled_after = {}
        for i in range(self.n):
            t = case[i].split()
            if t[0] == "events" and len(t) == 2 and t[1].isdigit():
                for src, toks in parse_events(out[i]).items():
                    self.ev.setdefault((int(t[1]), src), []).extend((i, x) for x in toks)

    def events(self, node, src):
        return self.ev.get((node, src), [])

    def ops(self):
        for i in range(self.n):
            yield i, self.case[i].split(), self.out[i]

    def final_events_index(self, node, after, quiet_ms=0):
        """Index of an `events <node>` op that follows a `settle`/`wait` (of at least `quiet_ms`) which follows op `after`,
        or None."""
        quiet = False
        for i in range(after + 1, self.n):
            t = self.case[i].split()
            if t[0] in ("settle", "wait") and self.out[i] == "ok":
                ms = int(t[1]) if len(t) == 2 and t[1].isdigit() else 350
                quiet = quiet or ms >= quiet_ms
            if quiet and t[0] == "events" and t[1:] == [str(node)]:
                return i
        return None


def oracle_c05(case, out):
    """Every accepted dial ends in exactly one of: a connection with that peer reported, or one failure report; a peer
    with a usable known address can be dialed by id; the address a node reports as its listen address reaches it."""
    bad = []
    tr = Trace(case, out)
    dials = []     # (op index, node, target, kind or None)
    for i, t, o in tr.ops():
        if t[0] == "dial" and len(t) == 3 and o == "ok":
            dials.append((i, int(t[1]), int(t[2]), None))
        if t[0] == "dialaddr" and len(t) == 4 and o == "ok":
            dials.append((i, int(t[1]), int(t[2]), t[3]))
    flushed = {}   # node -> every earlier dial of that node was followed by quiet + `events` before the next one
    for n, (i, node, target, kind) in enumerate(dials):
        # window: up to the next dial between this pair (a later dial has its own outcome)
        nxt = min([d[0] for d in dials[n + 1:] if {d[1], d[2]} == {node, target}] or [tr.n])
        fin = tr.final_events_index(node, i, quiet_ms=500)
        clean = flushed.get(node, True)
        flushed[node] = clean and fin is not None and fin < min([d[0] for d in dials[n + 1:] if d[1] == node] or [tr.n])
        if fin is None or fin >= nxt or not clean:
            continue
        evs = [x for (k, x) in tr.events(node, "app") if i < k < nxt]
        est = [x for x in evs if re.match(rf"E{target}[dl]#", x)]
        fail = [x for x in evs if x.startswith(("DF:", "LDF:"))]
        if not est and not fail:
            _v(bad, case, out, "dial-silence", f"node {node}: the accepted dial of node {target} was followed by neither a connection "
               "nor a failure report (the network had gone quiet)", i)
        elif est and fail:
            _v(bad, case, out, "dial-both", f"node {node}: the dial of node {target} was answered by a connection {est} AND a failure {fail}", i)
        elif len(fail) > 1:
            _v(bad, case, out, "dial-failure-twice", f"node {node}: the dial of node {target} was answered by {len(fail)} failure reports {fail}", i)
        if kind is not None and kind.startswith("r") and not est and target in tr.cfgs and tr.cfgs[target]["lim"] is None \
                and node in tr.cfgs and tr.cfgs[node]["lim"] is None:
            _v(bad, case, out, "listen-address-unreachable", f"node {node} dialed the address node {target} reports as its listen address "
               f"#{kind[1:]} and got {fail or 'nothing'}: the reported listen address does not lead to the node", i)
    # dial by peer id: decided by the known addresses (judged up to the first connection attempt only: afterwards the
    # address book also holds what the transport learned)
    usable = {}
    for i, t, o in tr.ops():
        if t[0] == "node":
            c = parse_node(case[i])
            if c and o.startswith("ok "):
                for j, kinds in (c["known"] or []):
                    if any(k[0] in "lx" for k in kinds):
                        usable[(c["i"], j)] = True
        if t[0] == "addknown" and len(t) == 4 and o.startswith("n=") and o != "n=0":
            usable[(int(t[1]), int(t[2]))] = True
        if t[0] == "dialaddr":
            break
        if t[0] == "dial":
            if len(t) == 3 and t[1].isdigit() and t[2].isdigit() and t[1] != t[2]:
                a, b = int(t[1]), int(t[2])
                if usable.get((a, b)) and o.startswith("err:NoAddressAvailable"):
                    _v(bad, case, out, "known-address-ignored", f"node {a} was given a known address of node {b} (configuration or "
                       f"add_known_address) but dial({b}) says {o}", i)
                if not usable.get((a, b)) and o == "ok" and tr.built.get(a) and tr.built.get(b):
                    _v(bad, case, out, "dial-without-address", f"node {a} has no usable address of node {b}, yet dial({b}) was accepted", i)
            break
    return bad


def _open_conns(tokens, role=None):
    """Open connections (ordinal -> peer) after each app token; yields (op index, token, open dict)."""
    open_ = {}
    for k, x in tokens:
        m = re.match(r"E(\d+|\?)([dl])#(\d+)", x)
        if m and (role is None or m.group(2) == role):
            open_[m.group(3)] = m.group(1)
        m = re.match(r"C(\d+|\?)#(\d+|\?)@", x)
        if m:
            open_.pop(m.group(2), None)
        yield k, x, dict(open_)


def oracle_c06(case, out):
    """The configured maxima are the ones in force: never more inbound (outbound) connections open than configured, no
    dial refused for a limit that was not configured, and a limited node with nothing open accepts its first inbound
    connection."""
    bad = []
    tr = Trace(case, out)
    for node, c in tr.cfgs.items():
        if not tr.built.get(node):
            continue
        mx_in, mx_out = c["lim"] or (None, None)
        for role, mx, word in (("l", mx_in, "inbound"), ("d", mx_out, "outbound")):
            for k, x, open_ in _open_conns(tr.events(node, "app"), role):
                if mx is not None and len(open_) > mx:
                    _v(bad, case, out, "limit-exceeded", f"node {node}: {len(open_)} {word} connections open with max_{word} = {mx} configured", k)
                    break
    for i, t, o in tr.ops():
        if t[0] in ("dialaddr", "dial") and len(t) >= 3 and t[1].isdigit() and tr.built.get(int(t[1])):
            mx_out = (tr.cfgs[int(t[1])]["lim"] or (None, None))[1]
            if o == "ok" and mx_out == 0:
                _v(bad, case, out, "limit-exceeded", f"node {t[1]}: a dial was accepted with max_outbound = 0 configured", i)
            if "ConnectionLimit" in o and mx_out is None:
                _v(bad, case, out, "refused-without-limit", f"node {t[1]}: dial refused with {o} but no outbound limit is configured", i)
    # inbound: a node with max_in >= 1 and nothing open accepts the first inbound connection from an unlimited node
    for node, c in tr.cfgs.items():
        mx_in = (c["lim"] or (None, None))[0]
        if not tr.built.get(node) or mx_in == 0:
            continue
        first = None
        for i, t, o in tr.ops():
            if t[0] in ("dial", "dialaddr") and o == "ok":
                if t[0] == "dialaddr" and len(t) == 4 and t[2] == str(node) and t[3] in ("r0", "l0"):
                    first = (i, int(t[1]))
                break
        if first and tr.final_events_index(node, first[0]) is not None and tr.cfgs.get(first[1], {}).get("lim") is None:
            if not any(re.match(rf"E{first[1]}l#", x) for (_, x) in tr.events(node, "app")):
                _v(bad, case, out, "below-limit-refused", f"node {node} (max_inbound = {mx_in}, nothing open) did not accept the first "
                   f"inbound connection (from node {first[1]})", first[0])
    return bad


def oracle_c07(case, out):
    """Per connection the application sees `closed` at most once and only after `established`; once the last connection to
    a peer is reported closed and the network is quiet, every user protocol that saw it established has been told so too."""
    bad = []
    tr = Trace(case, out)
    for node in tr.cfgs:
        seen, closed = set(), set()
        for k, x in tr.events(node, "app"):
            m = re.match(r"E(\d+|\?)[dl]#(\d+)", x)
            if m:
                seen.add(m.group(2))
            m = re.match(r"C(\d+|\?)#(\d+|\?)@", x)
            if m:
                if m.group(2) == "?" or m.group(2) not in seen:
                    _v(bad, case, out, "closed-before-established", f"node {node}: the application was told that a connection closed ({x}) "
                       "that was never reported established", k)
                elif m.group(2) in closed:
                    _v(bad, case, out, "closed-twice", f"node {node}: the application was told twice that connection #{m.group(2)} closed", k)
                closed.add(m.group(2))
        # quiet end: protocols agree with the application
        last = None
        for i, t, o in tr.ops():
            if t[0] == "events" and t[1:] == [str(node)]:
                last = i
        if last is None or tr.final_events_index(node, -1) is None:
            continue
        # the final `events` must itself follow a settle/wait with no operation in between that could produce events
        k = last - 1
        while k >= 0 and case[k].split()[0] == "events":
            k -= 1
        if k < 0 or case[k].split()[0] not in ("settle", "wait"):
            continue
        open_peers = {}
        for _, x, open_ in _open_conns(tr.events(node, "app")):
            open_peers = open_
        peers_open = set(open_peers.values())
        for (nd, src), toks in tr.ev.items():
            if nd != node or not src.startswith("u:"):
                continue
            state = {}
            for _, x in toks:
                m = re.match(r"([EC])(\d+|\?)$", x)
                if m:
                    state[m.group(2)] = m.group(1)
            for peer, s in state.items():
                if s == "E" and peer not in peers_open:
                    _v(bad, case, out, "closed-missing-proto", f"node {node}: every connection to node {peer} was reported closed to the "
                       f"application, the network is quiet, but user protocol {src[2:]} was never told that it closed", last)
                if s == "C" and peer in peers_open:
                    _v(bad, case, out, "closed-early-proto", f"node {node}: user protocol {src[2:]} was told that the connection to node {peer} "
                       "closed while the application still has an open connection to it", last)
    return bad


def oracle_c08(case, out):
    """Each user protocol sees, per peer, strictly alternating established/closed events starting with established, and
    substream events only for a connected peer."""
    bad = []
    tr = Trace(case, out)
    for (node, src), toks in tr.ev.items():
        if not src.startswith("u:"):
            continue
        state = {}
        for k, x in toks:
            m = re.match(r"([EC])(\d+|\?)$", x)
            if m:
                if state.get(m.group(2), "C") == m.group(1):
                    _v(bad, case, out, "not-alternating", f"node {node}, user protocol {src[2:]}: two consecutive "
                       f"{'established' if m.group(1) == 'E' else 'closed'} events for node {m.group(2)}", k)
                    break
                state[m.group(2)] = m.group(1)
            m = re.match(r"O(\d+|\?):", x)
            if m and state.get(m.group(1), "C") != "E":
                _v(bad, case, out, "substream-without-connection", f"node {node}, user protocol {src[2:]}: substream event {x} for node "
                   f"{m.group(1)} which is not connected", k)
                break
    return bad


KA_EARLY_TOL = 250      # ms: the two ends start their clocks at slightly different moments (Driver/Node.lean: skewMs)
KA_LATE = 1500          # ms: generous upper bound on loopback


def oracle_c09(case, out):
    """An idle connection is closed after the CONFIGURED keep-alive timeout (min of the two ends) and not before; a held
    substream of a keep-alive protocol keeps it; ping/identify alone do not."""
    bad = []
    tr = Trace(case, out)
    if len(tr.cfgs) != 2 or not all(tr.built.get(i) for i in (0, 1)):
        return bad
    K = consts()
    kas = [K["ka_default_ms"] if tr.cfgs[i]["ka"] is None else tr.cfgs[i]["ka"] for i in (0, 1)]
    tmin = min(kas)
    other_cause = any(c["lim"] is not None for c in tr.cfgs.values())
    active = False        # some keep-alive activity besides the connection itself
    held_since = None     # op index from which a keep-alive substream is held (until released on both ends)
    released = {0: True, 1: True}
    waited = 0
    dial_at = None
    pending_req = answered = False   # a request delivered to the responder and not yet answered (timeouts here are long)
    req_seen = False
    for i, t, o in tr.ops():
        if t[0] in ("close",):
            other_cause = True
        if t[0] in ("dial", "dialaddr") and o == "ok":
            if dial_at is not None:
                other_cause = True          # several connections: which one closed when is not judged
            dial_at = i
            waited = 0
        if t[0] in ("request", "notify", "respond", "reject", "cancel", "addknown", "node") and dial_at is not None:
            active = True
        if t[0] == "request" and o.startswith("ok q") and "dial" not in t[6:]:
            pending_req = True
        if t[0] in ("respond", "reject", "cancel") and o == "ok":
            answered = True
        if t[0] in ("open_sub", "open_notif") and o == "ok":
            active = True
            held_since = i if held_since is None else held_since
            released = {0: False, 1: False}
        if t[0] == "drop_subs" and o.startswith("dropped=") and t[1].isdigit():
            released[int(t[1])] = True
        if t[0] == "close_notif" and o == "ok" and t[1].isdigit():
            released[int(t[1])] = True
        if t[0] == "wait" and o == "ok":
            waited += int(t[1])
        if t[0] == "events" and len(t) == 2 and t[1].isdigit() and dial_at is not None and not other_cause:
            node = int(t[1])
            if any(x.startswith("Q") for src, l in parse_events(o).items() if src.startswith("r:") for x in l):
                req_seen = True
            toks = parse_events(o).get("app", [])
            for x in toks:
                m = re.match(r"C(\d+|\?)#(\d+|\?)@(\d+)", x)
                if not m:
                    continue
                ms = int(m.group(3))
                if ms + KA_EARLY_TOL < tmin:
                    _v(bad, case, out, "closed-early", f"node {node}: the connection was closed {ms} ms after it was established; the "
                       f"configured keep-alive timeouts are {kas[0]} ms and {kas[1]} ms — closed before the timeout", i)
                if not active and ms > tmin + KA_LATE:
                    _v(bad, case, out, "idle-closed-late", f"node {node}: an idle connection was closed only after {ms} ms; configured "
                       f"keep-alive timeouts {kas[0]} ms / {kas[1]} ms", i)
                if pending_req and req_seen and not answered and ms < 2500:
                    _v(bad, case, out, "closed-while-held", f"node {node}: the connection was closed by the idle mechanism after {ms} ms while an "
                       "inbound request (an open substream of a keep-alive request-response protocol, possibly negotiated under a "
                       "fallback name) was waiting for its response", i)
                if held_since is not None and not all(released.values()):
                    _v(bad, case, out, "closed-while-held", f"node {node}: the connection was closed by the idle mechanism while a substream of a "
                       f"keep-alive protocol was held (opened at step {held_since}, not yet released on both ends)", i)
            if not active and waited >= tmin + KA_LATE and not any(x.startswith("C") for (k, x) in tr.events(node, "app") if k <= i) \
                    and any(x.startswith("E") for (k, x) in tr.events(node, "app") if k <= i):
                _v(bad, case, out, "idle-not-closed", f"node {node}: the connection is still open {waited} ms (waited) after it went idle; the "
                   f"configured keep-alive timeouts are {kas[0]} ms / {kas[1]} ms", i)
    return bad


def _proto_names(c, kind):
    return {p["name"]: p for p in c[kind]}


def oracle_c13(case, out):
    """A request gets at most one terminal event and exactly one once the timeout has passed; a payload above the
    configured maximum is refused and never delivered; a response is the one supplied for that request; requests between
    protocols that share a name (main or fallback) are not refused as unsupported."""
    bad = []
    tr = Trace(case, out)
    reqs = {}       # (node, proto, q) -> dict
    inbound = {}    # (node, proto, k) -> (len, tag)
    responded = {}  # (node, proto, k) -> (len, tag) or "reject"
    for i, t, o in tr.ops():
        if t[0] == "request" and len(t) >= 6 and o.startswith("ok q"):
            node, proto, target, ln, tag = int(t[1]), t[2], int(t[3]), int(t[4]), int(t[5])
            reqs[(node, proto, o[3:])] = {"at": i, "target": target, "len": ln, "tag": tag, "dial": "dial" in t[6:], "fb": [a for a in t[6:] if a.startswith("fb=")]}
        if t[0] == "respond" and len(t) == 6 and o == "ok" and t[3] != "n":
            responded[(int(t[1]), t[2], int(t[3]))] = (int(t[4]), int(t[5]))
        if t[0] == "reject" and len(t) == 4 and o == "ok":
            responded[(int(t[1]), t[2], int(t[3]))] = "reject"
    for (node, src), toks in tr.ev.items():
        if not src.startswith("r:"):
            continue
        proto = src[2:]
        c = tr.cfgs.get(node)
        if c is None:
            continue
        mine = _proto_names(c, "rr").get(proto)
        for k, x in toks:
            m = re.match(r"Q(\d+|\?):i(\d+):(\d+):(\d+):(\S+)$", x)
            if m:
                inbound[(node, proto, int(m.group(2)))] = (int(m.group(3)), int(m.group(4)), m.group(1))
                if mine and int(m.group(3)) > mine["max"]:
                    _v(bad, case, out, "oversized-delivered", f"node {node}, protocol {proto}: a request of {m.group(3)} bytes was delivered; "
                       f"the configured maximum is {mine['max']}", k)
                if m.group(1).isdigit() and int(m.group(1)) in tr.cfgs:
                    # the sender must have sent it: same tag and length
                    sent = [r for (n2, p2, q), r in reqs.items() if n2 == int(m.group(1)) and r["target"] == node and r["tag"] == int(m.group(4))]
                    if reqs and not sent:
                        _v(bad, case, out, "request-from-nowhere", f"node {node}, protocol {proto}: request {x} was never sent", k)
                    for r in sent:
                        if r["len"] != int(m.group(3)) and not r["fb"]:
                            _v(bad, case, out, "request-altered", f"node {node}, protocol {proto}: request with tag {r['tag']} arrived with "
                               f"{m.group(3)} bytes, {r['len']} were sent", k)
        term = {}
        for k, x in toks:
            m = re.match(r"([RF])(\d+|\?):q(\d+|\?):(.*)$", x)
            if not m:
                continue
            q = "q" + m.group(3)
            term.setdefault(q, []).append((k, x))
            r = reqs.get((node, proto, q))
            if r is None:
                continue
            if m.group(1) == "R":
                ln, tag = m.group(4).split(":")[:2]
                if mine and int(ln) > mine["max"]:
                    _v(bad, case, out, "oversized-delivered", f"node {node}, protocol {proto}: a response of {ln} bytes was delivered; the "
                       f"configured maximum is {mine['max']}", k)
                if r["len"] > (mine["max"] if mine else 1 << 30):
                    _v(bad, case, out, "oversized-accepted", f"node {node}, protocol {proto}: request {q} of {r['len']} bytes (configured "
                       f"maximum {mine['max']}) was answered instead of being refused", k)
                # the response is the one supplied for the request with this tag
                sup = [(key, v) for key, v in responded.items() if key[0] == r["target"] and inbound.get(key, (None, None))[1] == r["tag"]]
                if sup and all(v == "reject" or (v[0], v[1]) != (int(ln), int(tag)) for _, v in sup):
                    _v(bad, case, out, "response-mismatch", f"node {node}, protocol {proto}: response to {q} is {ln} bytes tagged {tag}; "
                       f"the responder supplied {[v for _, v in sup]}", k)
            else:
                err = m.group(4)
                tc = tr.cfgs.get(r["target"])
                if mine and r["len"] > mine["max"] and "TooLargePayload" not in err and not r["fb"]:
                    _v(bad, case, out, "oversized-not-refused", f"node {node}, protocol {proto}: request {q} of {r['len']} bytes (configured "
                       f"maximum {mine['max']}) failed with {err}, not TooLargePayload", k)
                if mine and r["len"] <= mine["max"] and "TooLargePayload" in err and not r["fb"]:
                    _v(bad, case, out, "refused-below-max", f"node {node}, protocol {proto}: request {q} of {r['len']} bytes was refused as too "
                       f"large; the configured maximum is {mine['max']}", k)
                if tc is not None and mine and "UnsupportedProtocol" in err and not r["fb"]:
                    ours = {mine["name"], *mine["fb"]}
                    theirs = set()
                    for p in tc["rr"]:
                        theirs |= {p["name"], *p["fb"]}
                    if ours & theirs:
                        _v(bad, case, out, "fallback-ignored", f"node {node}, protocol {proto} (names {sorted(ours)}) → node {r['target']} (request-response "
                           f"names {sorted(theirs)}): the request failed with UnsupportedProtocol although a name is shared", k)
        for q, lst in term.items():
            if len(lst) > 1 and q != "q?":
                _v(bad, case, out, "outcome-twice", f"node {node}, protocol {proto}: request {q} got {len(lst)} terminal events "
                   f"{[x for _, x in lst]}", lst[1][0])
    # exactly one once everything has had its time: the case waited longer than the timeout after the request
    for (node, proto, q), r in reqs.items():
        c = tr.cfgs.get(node)
        mine = _proto_names(c, "rr").get(proto) if c else None
        if mine is None:
            continue
        waited, quiet_events = 0, None
        for i in range(r["at"] + 1, tr.n):
            t = case[i].split()
            if t[0] == "wait" and out[i] == "ok":
                waited += int(t[1])
            if t[0] == "cancel":
                waited = -10 ** 9
            if waited >= mine["timeout"] + 250 and t[0] == "events" and t[1:] == [str(node)]:
                quiet_events = i
                break
        if quiet_events is None:
            continue
        got = [x for (k, x) in tr.events(node, "r:" + proto) if re.match(rf"[RF](\d+|\?):{q}:", x) and k <= quiet_events]
        if not got:
            _v(bad, case, out, "no-outcome", f"node {node}, protocol {proto}: request {q} (timeout {mine['timeout']} ms) has no terminal "
               f"event {waited} ms (waited) after it was sent", quiet_events)
    return bad


def oracle_c11(case, out):
    """Per peer the user of a notification protocol sees opened/closed strictly alternating, notifications only in between,
    no open-failure while open; the handshake shown is the one the REMOTE configured for the protocol that was negotiated."""
    bad = []
    tr = Trace(case, out)
    for (node, src), toks in tr.ev.items():
        if not src.startswith("n:"):
            continue
        proto = src[2:]
        state = {}
        for k, x in toks:
            m = re.match(r"([OCFNV])(\d+|\?):?(.*)$", x)
            if not m:
                continue
            kind, peer, rest = m.groups()
            if kind == "O":
                if state.get(peer) == "open":
                    _v(bad, case, out, "opened-twice", f"node {node}, {proto}: stream to node {peer} reported opened twice without a close", k)
                state[peer] = "open"
            elif kind == "C":
                if state.get(peer) != "open":
                    _v(bad, case, out, "closed-not-open", f"node {node}, {proto}: stream to node {peer} reported closed but it was not open", k)
                state[peer] = "closed"
            elif kind == "F" and state.get(peer) == "open":
                _v(bad, case, out, "failure-while-open", f"node {node}, {proto}: open-failure for node {peer} while the stream is open", k)
            elif kind == "N" and state.get(peer) != "open":
                _v(bad, case, out, "notification-outside", f"node {node}, {proto}: notification from node {peer} outside an open stream", k)
            if kind in ("O", "V") and peer.isdigit() and int(peer) in tr.cfgs:
                f = rest.split(":")
                hs, fb = (f[1], f[2]) if kind == "O" else (f[0], f[1])
                mine = _proto_names(tr.cfgs[node], "notif").get(proto)
                theirs = tr.cfgs[int(peer)]["notif"]
                if mine is None:
                    continue
                negotiated = proto if fb == "-" else fb
                # the remote protocol that owns the negotiated name (main or fallback), or that proposed it
                cands = [p for p in theirs if negotiated in [p["name"]] + p["fb"] or (set([p["name"]] + p["fb"]) & set([mine["name"]] + mine["fb"]))]
                if cands and all(p["hs"] != hs for p in cands):
                    _v(bad, case, out, "handshake-mismatch", f"node {node}, {proto}: the handshake shown for node {peer} is {hs}; node {peer} "
                       f"configured {[p['hs'] for p in cands]} for the matching protocol(s)", k)
                if fb != "-" and fb not in mine["fb"]:
                    _v(bad, case, out, "fallback-unknown", f"node {node}, {proto}: stream negotiated with fallback name {fb} which is not "
                       f"among the configured fallback names {mine['fb']}", k)
    # an open request between protocols sharing a name is answered by opened or failure once quiet
    for i, t, o in tr.ops():
        if t[0] == "open_notif" and len(t) == 4 and o == "ok":
            node, proto, peer = int(t[1]), t[2], t[3]
            fin = tr.final_events_index(node, i)
            if fin is None:
                continue
            got = [x for (k, x) in tr.events(node, "n:" + proto) if k > i and re.match(rf"[OF]{peer}:", x)]
            already = [x for (k, x) in tr.events(node, "n:" + proto) if k <= i and re.match(rf"O{peer}:", x)]
            # the user's own Reject of the peer's inbound substream is the answer (the code then reports nothing, also
            # when the user's own open request dies with it — Props/C11.lean open_answered_once_partial, item 2)
            mine = _proto_names(tr.cfgs.get(node, {"notif": []}), "notif").get(proto)
            own_reject = mine is not None and mine["mode"] == "n" and \
                any(re.match(rf"V{peer}:", x) for (k, x) in tr.events(node, "n:" + proto) if k > i)
            if not got and not already and not own_reject:
                _v(bad, case, out, "open-unanswered", f"node {node}, {proto}: open_substream({peer}) was answered by neither opened nor "
                   "open-failure (the network had gone quiet)", i)
    return bad


def oracle_c12(case, out):
    """Notifications are delivered at most once and in sending order; one larger than the configured maximum of either end
    is never delivered; between protocols that share a name a notification within both maxima sent on an open stream
    arrives."""
    bad = []
    tr = Trace(case, out)
    sent = {}   # (from, to) -> [(op index, len, tag, proto)]
    for i, t, o in tr.ops():
        if t[0] == "notify" and len(t) == 6 and o == "ok":
            sent.setdefault((int(t[1]), int(t[3])), []).append((i, int(t[4]), int(t[5]), t[2]))
    for (node, src), toks in tr.ev.items():
        if not src.startswith("n:"):
            continue
        proto = src[2:]
        mine = _proto_names(tr.cfgs.get(node, {"notif": []}), "notif").get(proto)
        per = {}
        for k, x in toks:
            m = re.match(r"N(\d+|\?):(\d+):(\d+)$", x)
            if not m:
                continue
            peer, ln, tag = m.group(1), int(m.group(2)), int(m.group(3))
            if mine and ln > mine["max"]:
                _v(bad, case, out, "oversized-delivered", f"node {node}, {proto}: a notification of {ln} bytes was delivered; the configured "
                   f"maximum is {mine['max']}", k)
            if peer.isdigit():
                s = sent.get((int(peer), node), [])
                match = [e for e in s if e[2] == tag]
                if s and not match:
                    _v(bad, case, out, "notification-from-nowhere", f"node {node}, {proto}: notification {x} was never sent", k)
                for e in match:
                    if e[1] != ln:
                        _v(bad, case, out, "notification-altered", f"node {node}, {proto}: notification tagged {tag} arrived with {ln} bytes, {e[1]} were sent", k)
                    theirs = _proto_names(tr.cfgs.get(int(peer), {"notif": []}), "notif").get(e[3])
                    if theirs and e[1] > theirs["max"]:
                        _v(bad, case, out, "oversized-sent", f"node {node}, {proto}: node {peer} delivered a notification of {e[1]} bytes over its "
                           f"own configured maximum {theirs['max']}", k)
                per.setdefault(peer, []).append((k, tag))
        for peer, lst in per.items():
            tags = [tg for _, tg in lst]
            if len(set(tags)) != len(tags):
                _v(bad, case, out, "notification-twice", f"node {node}, {proto}: a notification from node {peer} was delivered twice ({tags})", lst[-1][0])
            elif tags != sorted(tags):
                _v(bad, case, out, "notification-reordered", f"node {node}, {proto}: notifications from node {peer} arrived out of order ({tags})", lst[-1][0])
    return bad


SIZE_KINDS = ("oversized-delivered", "oversized-sent", "oversized-accepted", "oversized-not-refused", "refused-below-max",
              "notification-altered", "request-altered")


def _peer_proto(cfgs, node, proto, peer, kind):
    """The protocol of `peer` that shares a (main or fallback) name with `proto` of `node`, or None."""
    mine = _proto_names(cfgs.get(node, {kind: []}), kind).get(proto)
    if mine is None:
        return None, None
    ours = {mine["name"], *mine["fb"]}
    for p in cfgs.get(peer, {kind: []})[kind]:
        if ours & {p["name"], *p["fb"]}:
            return mine, p
    return mine, None


def oracle_sizes(case, out):
    """C04 / C19 at node level: the CONFIGURED maximum message size is in force on every substream, whatever name it was
    negotiated under: nothing larger than the receiver's maximum is ever delivered (request, response, notification),
    nothing larger than the sender's own maximum leaves it, an oversized frame is an ERROR at the receiver (the
    notification stream is reported closed, the request fails) — so no buffer beyond the configured limit is ever filled —
    and a message of exactly the maximum passes."""
    bad = [v for v in oracle_c12(case, out) + oracle_c13(case, out) if v["kind"] in SIZE_KINDS]
    tr = Trace(case, out)
    for i, t, o in tr.ops():
        if t[0] != "notify" or len(t) != 6 or o != "ok":
            continue
        frm, proto, to, ln, tag = int(t[1]), t[2], int(t[3]), int(t[4]), int(t[5])
        mine, theirs = _peer_proto(tr.cfgs, frm, proto, to, "notif")
        if mine is None or theirs is None:
            continue
        fin = tr.final_events_index(to, i)
        if fin is None:
            continue
        src = "n:" + theirs["name"]
        after = [x for (k, x) in tr.events(to, src) if i < k <= fin]
        if ln > min(mine["max"], theirs["max"]):
            if f"C{frm}" not in after and not any(re.match(rf"N{frm}:{ln}:{tag}$", x) for x in after):
                _v(bad, case, out, "oversized-not-an-error", f"node {frm} sent a notification of {ln} bytes on {proto} (its maximum {mine['max']}, "
                   f"node {to}'s maximum {theirs['max']} for {theirs['name']}): node {to} neither refused it by closing the stream nor "
                   f"reported anything (events after the send: {after})", i)
        else:
            # within both maxima on an open stream (the sink existed): it arrives
            if not any(re.match(rf"N{frm}:{ln}:{tag}$", x) for x in after) and not any(x == f"C{frm}" for (k, x) in tr.events(to, src) if k <= fin):
                _v(bad, case, out, "refused-below-max", f"node {frm} sent a notification of {ln} bytes on {proto} (maxima {mine['max']} / "
                   f"{theirs['max']}) over an open stream; node {to} did not receive it (events after the send: {after})", i)
    return bad


def oracle_c10(case, out):
    """A dial by peer id tries the peer's addresses in non-increasing score order (scores as the manager holds them right
    before the dial). Judged where the order of attempts is observable: one dial slot (`max_parallel_dials` = 1, so the
    attempts are made one after the other) and every attempt fails (`ListDialFailures` lists them as they failed)."""
    bad = []
    tr = Trace(case, out)
    scores = {}
    for i, t, o in tr.ops():
        if t[0] == "scores" and len(t) == 3 and o.startswith("scores=["):
            scores = {"at": i, "who": (t[1], t[2]), "map": dict(x.rsplit("=", 1) for x in o[8:-1].split(",") if "=" in x)}
            continue
        if t[0] == "dial" and len(t) == 3 and o == "ok" and scores and scores["at"] == i - 1 and scores["who"] == (t[1], t[2]):
            node = int(t[1])
            c = tr.cfgs.get(node)
            if c is None or c.get("mpd") is None or max(1, c["mpd"]) != 1:
                continue
            fin = tr.final_events_index(node, i, quiet_ms=500)
            if fin is None:
                continue
            ldf = [x for (k, x) in tr.events(node, "app") if i < k <= fin and x.startswith("LDF:")]
            if len(ldf) != 1:
                continue
            tried = [a.rsplit(":", 1)[0] for a in ldf[0][4:].split("+") if a]
            sc = []
            for a in tried:
                if a not in scores["map"]:
                    _v(bad, case, out, "dial-unknown-address", f"node {node} tried address {a} which was not in the address book "
                       f"{scores['map']} of node {t[2]}", i)
                    break
                sc.append(int(scores["map"][a]))
            else:
                if any(x < y for x, y in zip(sc, sc[1:])):
                    _v(bad, case, out, "dial-order", f"node {node} (one dial slot) tried the addresses of node {t[2]} in the order "
                       f"{list(zip(tried, sc))}: not in non-increasing score order (address book before the dial: {scores['map']})", i)
                best = sorted((int(v) for v in scores["map"].values()), reverse=True)[:len(sc)]
                if sorted(sc, reverse=True) != best and len(sc) < len(scores["map"]):
                    _v(bad, case, out, "dial-not-best", f"node {node} tried {list(zip(tried, sc))} although better-scored addresses were "
                       f"available ({scores['map']})", i)
        if t[0] != "events":
            scores = scores if t[0] in ("scores",) else scores
    return bad


SCORE_ESTABLISHED = _const("src/transport/manager/address.rs", r"pub const CONNECTION_ESTABLISHED: i32 = ([0-9_]+)i32;", 100)
SCORE_BONUS = _const("src/transport/manager/address.rs", r"pub const PUBLIC_ADDRESS_BONUS: i32 = ([0-9_]+)i32;", 1)


def _canon_of_kind(kind, j):
    """Canonical name (adapter's `canon_addr`) of the address `dialaddr <i> <j> <kind>` dials; None = not judged."""
    if kind[:2] in ("hn", "hf", "hs") and kind[2:].isdigit():
        return f"{kind[:2]}{j}.{kind[2:]}/p{j}"
    if kind[:1] in ("l", "r") and kind[1:].isdigit():
        return f"{j}.{kind[1:]}/p{j}"
    if kind == "x" or (kind[:1] in ("x", "d") and kind[1:].isdigit()):
        return f"{kind}/p{j}"
    return None


def _score_map(o):
    return {k: int(v) for k, v in (x.rsplit("=", 1) for x in o[8:-1].split(",") if "=" in x)}


def oracle_c10_used_address(case, out):
    """"Dial successes and failures re-score exactly the address used": around a dial (`scores` before, the dial, the
    settled events, `scores` after) — (1) no record appears in the address book that nobody offered (only the dialed
    address may be new); (2) after a connection established as dialer over the dialed address, that address holds the
    success score; after a reported failure of it, a negative score; (3) addresses that were not involved keep their
    score."""
    bad = []
    tr = Trace(case, out)
    ops = list(tr.ops())
    for n, (i, t, o) in enumerate(ops):
        if not (t[0] == "scores" and len(t) == 3 and o.startswith("scores=[")):
            continue
        if n + 1 >= len(ops):
            continue
        i1, t1, o1 = ops[n + 1]
        if not (t1[0] in ("dialaddr", "dial") and t1[1:3] == t[1:3] and o1 == "ok"):
            continue
        node, peer = int(t[1]), t[2]
        fin = tr.final_events_index(node, i1, quiet_ms=500)
        if fin is None:
            continue
        after = next(((k, oo) for (k, tt, oo) in ops if k > fin and tt[0] == "scores" and tt[1:3] == t[1:3] and oo.startswith("scores=[")), None)
        # nothing else may have dialed in between
        if after is None or any(tt[0] in ("dial", "dialaddr", "addknown", "request", "open_notif", "open_sub") for (k, tt, oo) in ops if i1 < k < after[0]):
            continue
        before, now = _score_map(o), _score_map(after[1])
        app = [x for (k, x) in tr.events(node, "app") if i1 < k <= fin]
        established = any(x.startswith(f"E{peer}d#") for x in app)
        dialed = _canon_of_kind(t1[3], peer) if t1[0] == "dialaddr" else None
        fresh = sorted(a for a in now if a not in before and a != dialed)
        if fresh:
            _v(bad, case, out, "phantom-address", f"after `{' '.join(t1)}` ({'connected' if established else 'not connected'}; events {app}) the address "
               f"book of node {node} for node {peer} holds {fresh} which nobody offered (before: {before}, after: {now}"
               + (f", dialed: {dialed}" if dialed else "") + ")", after[0])
        if t1[0] == "dialaddr" and dialed is not None:
            failed = any(x.startswith(f"DF:{dialed}:") for x in app)
            if established and not failed:
                if now.get(dialed) not in (SCORE_ESTABLISHED, SCORE_ESTABLISHED + SCORE_BONUS):
                    _v(bad, case, out, "success-not-credited", f"node {node} connected to node {peer} over the dialed address {dialed} but its "
                       f"score is {now.get(dialed)} (success score {SCORE_ESTABLISHED}); address book before {before}, after {now}", after[0])
            if failed and not established and not (now.get(dialed, 0) < 0):
                _v(bad, case, out, "failure-not-debited", f"the dial of {dialed} failed ({app}) but its score is {now.get(dialed)} "
                   f"(before {before}, after {now})", after[0])
            for a, sc in before.items():
                if a != dialed and a in now and now[a] != sc and len(app) == 1:
                    _v(bad, case, out, "bystander-rescored", f"`{' '.join(t1)}` changed the score of {a} from {sc} to {now[a]} "
                       f"(dialed {dialed}; events {app})", after[0])
        if t1[0] == "dial" and established:
            if not any(sc in (SCORE_ESTABLISHED, SCORE_ESTABLISHED + SCORE_BONUS) for a, sc in now.items() if a in before):
                _v(bad, case, out, "success-not-credited", f"node {node} connected to node {peer} by peer id but none of the addresses it "
                   f"knew ({before}) holds the success score afterwards ({now})", after[0])
    return bad


def oracle_c10_all(case, out):
    return oracle_c10(case, out) + oracle_c10_used_address(case, out)


ORACLES = {"C04": oracle_sizes, "C19": oracle_sizes, "C10": oracle_c10_all, "C05": oracle_c05, "C06": oracle_c06, "C07": oracle_c07, "C08": oracle_c08, "C09": oracle_c09,
           "C11": oracle_c11, "C12": oracle_c12, "C13": oracle_c13}


def oracle_for(pid, case, out):
    """The wiring oracle (common) plus the property's own behavioural oracle."""
    res = oracle_wiring(case, out) + oracle_identify(case, out)
    f = ORACLES.get(pid)
    if f:
        res += f(case, out)
    return [dict(v, msg="(real nodes, node area) " + v["msg"]) for v in res]


def oracle(case, out):
    res = oracle_wiring(case, out) + oracle_identify(case, out)
    for f in ORACLES.values():
        res += f(case, out)
    return res


def stats(case, out, acc, prefix="node"):
    bump(acc, prefix + ":cases")
    for op, o in zip(case, out):
        t = op.split()[0]
        bump(acc, f"{prefix}:op:{t}")
        if t == "node" and o.startswith("ok "):
            bump(acc, prefix + ":nodes-built")
        if t == "events":
            for src, toks in parse_events(o).items():
                for x in toks:
                    bump(acc, f"{prefix}:ev:{src.split(':')[0]}:{x[0]}")
        if o in ("timeout", "gone"):
            bump(acc, prefix + ":" + o)


def nontrivial(case, out):
    return any(o.startswith("ok id=") for o in out)


def matches_known(k, v):
    return False


# ------------------------------------------------------------------------------------------ owners

TRUSTED_NODE = ("node area: real nodes built through ConfigBuilder/Litep2p::new on loopback TCP (adapter /repo/src/verif/node.rs, "
                "checks/node.py, Model/Node/Wiring.lean, Driver/Node.lean); the registration record is read through guarded "
                "read accessors (manager fields, ConnectionLimits::verif_config, AddressRecord::verif_score, ProtocolSet::verif_keep_alive, "
                "MemoryStore::verif_config, QueryEngine::verif_factors, HandshakeService::verif_handshake, TcpTransport::verif_config), a "
                "thread-local log written by TransportService::new from the constructed value and a process-wide log (keyed by the "
                "local peer id) written by every protocol object at the top of its run() and by Litep2p::new for the TCP transport it "
                "has just built (the adapter waits up to 4 s for every registered protocol to report); the per-name codec / keep-alive "
                "answers come from a ProtocolSet built like a connection's (manager.transport_handle().protocol_set()); the yamux "
                "configuration is observed as its stream limit (parsed from its Debug text) plus 'equal to the one handed in'; dynamic operations run in real time (quiescence = no event "
                "for 350 ms; 600 ms where the absence of a dial outcome is judged), durations are judged with slack (idle close: not earlier than the configured timeout minus 250 ms "
                "establishment skew, not later than +1.5 s)")
ASSUME_NODE = ("node area: loopback addresses 127.0.0.1-127.0.0.4 are usable, TCP ports 1-9 on 127.0.0.1 are closed and the resolver answers "
               "the name '127.0.0.1' without network access (hickory's IP-literal shortcut); yamux::Config::default() allows 512 streams "
               "(yamux crate 0.13, outside /repo); the attempt order of a dial is judged with one dial slot only (with more slots the "
               "failures are reported in completion order); a wiring defect that only shows "
               "with transports other than TCP, with mDNS or with the system DNS configuration is outside (default feature set)")
RULE_NODE = ("node area (real nodes): 30 random configurations per run (every protocol kind, sizes, fallback names, limits, keep-alive "
             "values incl. the default, 0-3 listen addresses, known addresses of every kind, custom executor, name clashes, no "
             "transport; max_parallel_dials, every field of the TCP config, notification channel sizes / dialing, ping failures, identify "
             "version / agent, every kademlia builder setter with zero store bounds) whose registration records — incl. what a connection's "
             "ProtocolSet answers per main / fallback name and what the constructed transport and protocol objects hold — the wiring model "
             "must predict exactly, a malformed stream, and the property's own real-time scenario family (C04/C19: sizes on substreams "
             "negotiated under a fallback name; C10: attempt order of a dial by peer id over DNS + IP addresses with one dial slot; C02, "
             "C16, C17, C20: static cases only); a case is non-trivial if a node was built")


NODE_THEOREMS = {
    "C02": ["noise_config_reaches_transport"],
    "C04": ["codec_of_fallback_is_codec_of_main"],
    "C05": ["known_and_listen_addresses_installed", "registration_order_irrelevant"],
    "C06": ["configured_limits_installed"],
    "C08": ["identify_told_every_registered_protocol"],
    "C09": ["configured_keep_alive_reaches_service", "keep_alive_flag_by_protocol_kind"],
    "C10": ["transport_attempts_in_given_order", "max_parallel_dials_reaches_transport"],
    "C11": ["notification_registered_with_own_codec_and_size", "notification_config_reaches_protocol"],
    "C13": ["registered_with_own_codec_and_size", "request_response_config_reaches_protocol"],
    "C16": ["kademlia_config_reaches_protocol"],
    "C17": ["store_config_reaches_protocol"],
    "C19": ["fallback_name_keeps_configured_limit"],
    "C20": ["bitswap_config_reaches_protocol"],
}
MANIFEST_NODE = (" Wiring (coverage round `node`): {thms} — over the wiring model Model/Node/Wiring.lean (a function from the "
                 "ConfigBuilder calls to the per-protocol registration record, the limits, addresses and identify's protocol list, "
                 "what the protocol / transport builders leave in the constructed objects and what ProtocolSet answers per name, "
                 "written from src/lib.rs, src/config.rs, the protocol config.rs files and src/protocol/protocol_set.rs), tied to the real ConfigBuilder/Litep2p::new by the node area: real nodes "
                 "built through the public API print their ACTUAL registration record, compared field by field with the model's, and "
                 "run this property's scenarios over loopback TCP in real time under a node-level oracle.")


def install(g):
    """Called at the end of an owning plugin (`node.install(globals())`): pulls the node area into the plugin's
    `extra_cases` / `oracle_extra` / `stats_extra`, and its constants into the plugin's CONST_TABLE."""
    pid = g["ID"]
    prev_cases, prev_oracle, prev_stats = g.get("extra_cases"), g.get("oracle_extra"), g.get("stats_extra")

    def extra_cases(rng, tier):
        if prev_cases:
            yield from prev_cases(rng, tier)
        yield "NODE", gen_cases(rng, tier, focus=pid)

    def oracle_extra(xpid, case, out):
        if xpid == "NODE":
            return oracle_for(pid, case, out)
        return prev_oracle(xpid, case, out) if prev_oracle else []

    def stats_extra(xpid, case, out, acc):
        if xpid == "NODE":
            return stats(case, out, acc)
        if prev_stats:
            prev_stats(xpid, case, out, acc)

    g["extra_cases"], g["oracle_extra"], g["stats_extra"] = extra_cases, oracle_extra, stats_extra
    have = {r[0] for r in g.get("CONST_TABLE", [])}
    g["CONST_TABLE"] = list(g.get("CONST_TABLE", [])) + [r for r in CONST_TABLE if r[0] not in have]
    g["TRUSTED_BASE"] = list(g["TRUSTED_BASE"]) + [TRUSTED_NODE]
    g["ASSUMPTIONS"] = list(g["ASSUMPTIONS"]) + [ASSUME_NODE]
    g["RULE"] = g["RULE"] + "; " + RULE_NODE
    thms = NODE_THEOREMS.get(pid, [])
    g["THEOREMS"] = list(g["THEOREMS"]) + [t for t in thms if t not in g["THEOREMS"]]
    m = dict(g["MANIFEST"])
    m["text"] = m["text"] + MANIFEST_NODE.format(thms=", ".join(thms) if thms else "no theorem of its own (the wiring theorems live "
                                                 "in Props/C02, C04, C05, C06, C08, C09, C10, C11, C13, C16, C17, C19, C20)")
    g["MANIFEST"] = m
